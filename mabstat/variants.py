# -*- coding: utf-8 -*-
"""Catalogue of seeded mutants and benign variants for the thorough-tier self-test (DESIGN appendix C)."""
from .selftest import Variant as V

VARIANTS = [
    # ------------------------------------------------------------------------------------------------ C10
    V("c10-m1", "C10", "neighbors", "_Radius._predict_contexts", "lp = deepcopy(self.lp)", "lp = self.lp",
      "R10.1", why="worker trains the bandit's own learning policy"),
    V("c10-m2", "C10", "clusters", "_Clusters._predict_contexts", "lp_list = deepcopy(self.lp_list)",
      "lp_list = self.lp_list", "R10.1", why="cluster policies' generators rebound on bandit state"),
    V("c10-m3", "C10", "treebandit", "_TreeBandit._predict_contexts",
      "arm_to_expectation = deepcopy(self.arm_to_expectation)", "arm_to_expectation = self.arm_to_expectation",
      "R10.1", why="leaf expectations written into bandit state"),
    V("c10-m4", "C10", "neighbors", "_KNearest._predict_contexts",
      "indices = np.argpartition(distances_to_row, self.k - 1)[:self.k]",
      "indices = np.argpartition(distances_to_row, self.k - 1)[:self.k]\n"
      "self.contexts = np.concatenate((self.contexts, row_2d))",
      "R10.1", why="query rows appended to the stored history during predict"),
    V("c10-m5", "C10", "linear", "_Linear._vectorized_predict_context", "arms = deepcopy(self.arms)",
      "arms = self.arms\narms.sort()", None, why="arm list sorted in place during predict"),
    V("c10-m6", "C10", "treebandit", "_TreeBandit._predict_contexts", "arm_to_tree = deepcopy(self.arm_to_tree)",
      "arm_to_tree = self.arm_to_tree", "R10.1", why="row generator attached to the bandit's trees"),
    V("c10-b1", "C10", "neighbors", "_Radius._predict_contexts", "lp = deepcopy(self.lp)",
      "import copy\nlp = copy.deepcopy(self.lp)", benign=True),
    V("c10-b2", "C10", "neighbors", "_KNearest._predict_contexts", "predictions = [None] * len(contexts)",
      "n_rows = len(contexts)\npredictions = [None] * n_rows", benign=True),
]
