# -*- coding: utf-8 -*-
"""Catalogue of seeded mutants and benign variants for the thorough-tier self-test (DESIGN appendix C)."""
from .selftest import Variant as V

VARIANTS = [
    # ------------------------------------------------------------------------------------------------ C10
    V("c10-m1", "C10", "neighbors", "_Radius._predict_contexts", "lp = deepcopy(self.lp)", "lp = self.lp",
      "R10.1", why="worker trains the bandit's own learning policy"),
    V("c10-m2", "C10", "clusters", "_Clusters._predict_contexts", "lp_list = deepcopy(self.lp_list)",
      "lp_list = self.lp_list", "R10.1", why="cluster policies' generators rebound on bandit state"),
    V("c10-m3", "C10", "treebandit", "_TreeBandit._predict_contexts",
      "arm_to_expectation = deepcopy(self.arm_to_expectation)", "arm_to_expectation = self.arm_to_expectation",
      "R10.1", why="leaf expectations written into bandit state"),
    V("c10-m4", "C10", "neighbors", "_KNearest._predict_contexts",
      "indices = np.argpartition(distances_to_row, self.k - 1)[:self.k]",
      "indices = np.argpartition(distances_to_row, self.k - 1)[:self.k]\n"
      "self.contexts = np.concatenate((self.contexts, row_2d))",
      "R10.1", why="query rows appended to the stored history during predict"),
    V("c10-m5", "C10", "linear", "_Linear._vectorized_predict_context", "arms = deepcopy(self.arms)",
      "arms = self.arms\narms.sort()", None, why="arm list sorted in place during predict"),
    V("c10-m6", "C10", "treebandit", "_TreeBandit._predict_contexts", "arm_to_tree = deepcopy(self.arm_to_tree)",
      "arm_to_tree = self.arm_to_tree", "R10.1", why="row generator attached to the bandit's trees"),
    V("c10-b1", "C10", "neighbors", "_Radius._predict_contexts", "lp = deepcopy(self.lp)",
      "import copy\nlp = copy.deepcopy(self.lp)", benign=True),
    V("c10-b2", "C10", "neighbors", "_KNearest._predict_contexts", "predictions = [None] * len(contexts)",
      "n_rows = len(contexts)\npredictions = [None] * n_rows", benign=True),
]

# ---------------------------------------------------------------------------------------------------- C07
VARIANTS += [
    V("c07-m1", "C07", "greedy", "_EpsilonGreedy.fit", "reset(self.arm_to_count, 0)", "", "R7.1",
      why="count not reset by fit"),
    V("c07-m2", "C07", "ucb", "_UCB1.fit", "self._reset_arm_to_status()", "", "R7.1", why="status survives fit"),
    V("c07-m3", "C07", "ucb", "_UCB1.fit", "self.total_count = len(decisions)", "self.total_count += len(decisions)",
      "R7.1", why="N accumulates over fits"),
    V("c07-m4", "C07", "linear", "_Linear.fit",
      "for arm in self.arms:\n    self.arm_to_model[arm].init(num_features=self.num_features)",
      "for arm in np.unique(decisions).tolist():\n    self.arm_to_model[arm].init(num_features=self.num_features)",
      "R7.1", why="only arms present in the new data are re-initialised"),
    V("c07-m5", "C07", "treebandit", "_TreeBandit.fit",
      "self.arm_to_leaf_to_rewards = {arm: defaultdict(partial(np.ndarray, 0)) for arm in self.arms}", "",
      "R7.1", why="leaf rewards survive fit"),
    V("c07-m6", "C07", "neighbors", "_Neighbors.fit", "self.decisions = decisions",
      "self.decisions = decisions if self.decisions is None else np.concatenate((self.decisions, decisions))",
      "R7.1", why="fit appends to the stored history"),
    V("c07-m7", "C07", "approximate", "_LSHNearest._initialize",
      "self.table_to_hash_to_index = {k: defaultdict(list) for k in self.table_to_plane.keys()}", "",
      "R7.1", why="hash tables survive fit (the repaired defect)"),
    V("c07-m8", "C07", "softmax", "_Softmax.fit", "reset(self.arm_to_mean, 0)", "", "R7.1",
      why="means survive fit and feed the soft-max of arms absent from the new data"),
    V("c07-m9", "C07", "clusters", "_Clusters._fit_operation", "self.lp_list[c].fit(c_decisions, c_rewards, c_contexts)",
      "if len(c_decisions) > 0:\n    self.lp_list[c].fit(c_decisions, c_rewards, c_contexts)", "R7.1",
      why="an emptied cluster keeps the policy trained by the previous fit"),
    V("c07-m10", "C07", "mab", "MAB.fit", "self._is_initial_fit = True",
      "self._is_initial_fit = True\nself._last_rows = len(decisions)", None,
      why="facade state persisting across fit"),
    V("c07-b1", "C07", "greedy", "_EpsilonGreedy.fit", "reset(self.arm_to_sum, 0)",
      "self.arm_to_sum = dict.fromkeys(self.arms, 0)", benign=True),
    V("c07-b2", "C07", "ucb", "_UCB1.fit", "reset(self.arm_to_sum, 0)\nreset(self.arm_to_count, 0)",
      "reset(self.arm_to_count, 0)\nreset(self.arm_to_sum, 0)", benign=True),
    V("c07-b3", "C07", "thompson", "_ThompsonSampling.fit", "reset(self.arm_to_fail_count, 1)",
      "for a in self.arm_to_fail_count:\n    self.arm_to_fail_count[a] = 1", benign=True),
    V("c07-b4", "C07", "linear", "_Linear.fit",
      "for arm in self.arms:\n    self.arm_to_model[arm].init(num_features=self.num_features)",
      "n_feat = self.num_features\nfor a in self.arms:\n    model = self.arm_to_model[a]\n    model.init(num_features=n_feat)",
      benign=True),
]

# ---------------------------------------------------------------------------------------------------- C04
VARIANTS += [
    V("c04-m1", "C04", "neighbors", "_Neighbors._get_no_nhood_predictions",
      "rand_int = lp.rng.choice(len(self.arms), size=1, p=self.no_nhood_prob_of_arm)[0]",
      "rand_int = np.random.choice(len(self.arms), size=1, p=self.no_nhood_prob_of_arm)[0]", "R4.1",
      why="global numpy RNG on the empty-neighbourhood path"),
    V("c04-m2", "C04", "clusters", "_Clusters.__init__",
      "self.kmeans = KMeans(n_clusters, random_state=rng.seed, n_init=10)",
      "self.kmeans = KMeans(n_clusters, n_init=10)", "R4.2", why="unseeded KMeans"),
    V("c04-m3", "C04", "base_mab", "BaseMAB._reset_arm_to_status",
      "self.arm_to_status: Dict[Arm, dict] = {arm: {IS_TRAINED: False, IS_WARM: False, WARM_STARTED_BY: None} "
      "for arm in self.arms}",
      "self.arm_to_status = {arm: {IS_TRAINED: False, IS_WARM: False, WARM_STARTED_BY: None} "
      "for arm in set(self.arms)}", "R4.3", why="dict order follows hash order of str labels"),
    V("c04-m4", "C04", "linear", "_Linear.__init__", "self.regression = regression",
      "self.regression = regression\n_Linear.factory.setdefault(regression, _RidgeRegression)", "R4.4",
      why="class-level registry mutated by instances"),
    V("c04-m5", "C04", "treebandit", "_TreeBandit.__init__", "self.tree_parameters = dict(tree_parameters)",
      "self.tree_parameters = tree_parameters", "R4.4", why="shared mutable default (the repaired defect)"),
    V("c04-m6", "C04", "base_mab", "BaseMAB._parallel_predict",
      "seeds = self.rng.randint(np.iinfo(np.int32).max, size=total_contexts)",
      "seeds = self.rng.randint(np.iinfo(np.int32).max, size=total_contexts) + hash(str(self.arms)) % 7", "R4.1",
      why="hash() of a str depends on PYTHONHASHSEED"),
    V("c04-m7", "C04", "treebandit", "_TreeBandit._uptake_new_arm",
      "self.arm_to_tree[arm] = DecisionTreeRegressor(**self.tree_parameters)",
      "self.arm_to_tree[arm] = DecisionTreeRegressor(max_depth=self.tree_parameters.get('max_depth'))", "R4.2",
      why="tree of an added arm is not seeded"),
    V("c04-m8", "C04", "neighbors", "_Radius._predict_contexts", "lp.rng = create_rng(seed=seeds[index])",
      "lp.rng = create_rng(seed=None)", "R4.1", why="per-row generator seeded from OS entropy"),
    V("c04-b1", "C04", "treebandit", "_TreeBandit._fit_arm", "unique_leaf_indices = set(leaf_indices)",
      "unique_leaf_indices = sorted(set(leaf_indices))", benign=True),
    V("c04-b2", "C04", "neighbors", "_Radius._predict_contexts", "lp.rng = create_rng(seed=seeds[index])",
      "row_seed = seeds[index]\nlp.rng = create_rng(seed=row_seed)", benign=True),
    V("c04-b3", "C04", "treebandit", "_TreeBandit.__init__", "self.tree_parameters = dict(tree_parameters)",
      "self.tree_parameters = {**tree_parameters}", benign=True),
]

# ---------------------------------------------------------------------------------------------------- C18
VARIANTS += [
    V("c18-m1", "C18", "treebandit", "_TreeBandit.__init__", "self.tree_parameters = dict(tree_parameters)",
      "self.tree_parameters = tree_parameters", "R18.1", why="caller's dict written (the repaired defect)"),
    V("c18-m2", "C18", "thompson", "_ThompsonSampling._get_binary_rewards",
      "return np.fromiter((self.binarizer(decisions[index], value) for index, value in enumerate(rewards)), "
      "rewards.dtype)",
      "for index, value in enumerate(rewards):\n    rewards[index] = self.binarizer(decisions[index], value)\n"
      "return rewards", "R18.1", why="rewards binarised in place in the caller's array"),
    V("c18-m3", "C18", "mab", "MAB.__init__", "self.arms = arms.copy()", "self.arms = arms", None,
      why="arm list shared with the caller; add_arm appends to it"),
    V("c18-m4", "C18", "neighbors", "_Neighbors.fit", "self.contexts = contexts",
      "contexts -= contexts.mean(axis=0)\nself.contexts = contexts", "R18.1",
      why="contexts centred in place"),
    V("c18-m5", "C18", "neighbors", "_Neighbors.partial_fit",
      "self.decisions, self.contexts, self.rewards = decisions, contexts, rewards",
      "self.decisions[-len(decisions):] = decisions[-len(self.decisions):]\n"
      "self.contexts, self.rewards = contexts, rewards", "R18.1",
      why="stored history (aliasing the fit argument) overwritten in place"),
    V("c18-m6", "C18", "base_mab", "BaseMAB._warm_start",
      "self._copy_arms(cold_arm_to_warm_arm)",
      "self._copy_arms(cold_arm_to_warm_arm)\nfor cold_arm in cold_arm_to_warm_arm:\n"
      "    arm_to_features.pop(cold_arm)", "R18.1", why="caller's feature dict consumed by warm_start"),
    V("c18-m7", "C18", "mab", "MAB._convert_array", "return np.asarray(array_like)",
      "return array_like", "R18.3", why="lists are accepted but left unconverted"),
    V("c18-m8", "C18", "linear", "_Linear._fit_arm", "X = contexts[indices]",
      "X = contexts\nX[indices] = X[indices] * 1.0", "R18.1", why="in-place write through the caller's contexts"),
    V("c18-b4", "C18", "linear", "_RidgeRegression.fit", "X = X.astype('float64')", "X *= 1.0", benign=True),
    V("c18-b1", "C18", "mab", "MAB.__init__", "self.arms = arms.copy()", "self.arms = list(arms)", benign=True),
    V("c18-b2", "C18", "treebandit", "_TreeBandit.__init__", "self.tree_parameters = dict(tree_parameters)",
      "self.tree_parameters = {**tree_parameters}", benign=True),
    V("c18-b3", "C18", "neighbors", "_Neighbors.fit", "self.contexts = contexts",
      "self.contexts = contexts.copy()", benign=True),
]

# ---------------------------------------------------------------------------------------------------- C05
_PP_OLD = ("predictions = Parallel(n_jobs=n_jobs, backend=self.backend)(delayed(self._predict_contexts)("
           "contexts[starts[i]:starts[i + 1]], is_predict, seeds[starts[i]:starts[i + 1]], starts[i]) "
           "for i in range(n_jobs))")
VARIANTS += [
    V("c05-m1", "C05", "neighbors", "_KNearest._predict_contexts", "lp.rng = create_rng(seed=seeds[index])",
      "lp.rng = create_rng(seed=seeds[0])", "R5.1", why="every row of a worker uses the first row's seed"),
    V("c05-m2", "C05", "neighbors", "_Radius._predict_contexts", "lp.rng = create_rng(seed=seeds[index])", "",
      "R5.1", why="rows draw from the worker's copy of the bandit generator, carried across rows"),
    V("c05-m3", "C05", "base_mab", "BaseMAB._parallel_predict", _PP_OLD,
      _PP_OLD.replace("seeds[starts[i]:starts[i + 1]]", "seeds[starts[i + 1]:]"), "R5.2",
      why="seeds sliced with other bounds than the rows"),
    V("c05-m4", "C05", "base_mab", "BaseMAB._parallel_predict",
      "predictions = list(chain.from_iterable((t for t in predictions)))",
      "predictions = sorted(chain.from_iterable((t for t in predictions)), key=str)", "R5.2",
      why="results re-ordered after the parallel map"),
    V("c05-m5", "C05", "ucb", "_UCB1._fit_arm", "self.arm_to_count[arm] += arm_rewards.size",
      "self.arm_to_count[arm] += arm_rewards.size\nself.total_count += arm_rewards.size", "R5.3",
      why="shared scalar updated by concurrent per-arm tasks"),
    V("c05-m6", "C05", "base_mab", "BaseMAB._parallel_predict",
      "seeds = self.rng.randint(np.iinfo(np.int32).max, size=total_contexts)",
      "seeds = self.rng.randint(np.iinfo(np.int32).max, size=n_jobs)", "R5.2",
      why="number of seeds drawn depends on n_jobs"),
    V("c05-m7", "C05", "softmax", "_Softmax._fit_arm",
      "self.arm_to_mean[arm] = self.arm_to_sum[arm] / self.arm_to_count[arm]",
      "self.arm_to_mean[arm] = self.arm_to_sum[arm] / max(self.arm_to_count.values())", "R5.3",
      why="a task reads other arms' entries while they are written"),
    V("c05-m8", "C05", "approximate", "_LSHNearest._add_neighbors",
      "self.table_to_hash_to_index[k][h] += list(neighbors)",
      "self.table_to_hash_to_index[k][0] += list(neighbors)", "R5.3",
      why="all hash tasks append to one bucket"),
    V("c05-m9", "C05", "neighbors", "_Neighbors._get_no_nhood_predictions",
      "rand_int = lp.rng.choice(len(self.arms), size=1, p=self.no_nhood_prob_of_arm)[0]",
      "rand_int = self.rng.choice(len(self.arms), size=1, p=self.no_nhood_prob_of_arm)[0]", "R5.1",
      why="empty-neighbourhood arm drawn from the shared bandit generator inside workers"),
    V("c05-m10", "C05", "base_mab", "BaseMAB._parallel_predict", _PP_OLD,
      _PP_OLD.replace("starts[i])", "0)"), "R5.2", why="workers are told they start at global row 0"),
    V("c05-m11", "C05", "approximate", "_LSHNearest._fit_operation",
      "hash_keys = np.unique(hash_values)", "hash_keys = hash_values", "R5.3",
      why="duplicate hash values give two tasks the same bucket"),
    V("c05-m12", "C05", "clusters", "_Clusters._predict_contexts",
      "lp_list[cluster].rng = create_rng(seed=seeds[index])", "", "R5.1",
      why="cluster policies draw from generators carried across rows"),
    V("c05-m13", "C05", "neighbors", "_KNearest._predict_contexts", "predictions = [None] * len(contexts)",
      "predictions = [None] * len(contexts)\ncentre = np.mean(contexts, axis=0)", "R5.1",
      also=[("neighbors", "_KNearest._predict_contexts", "row_2d = row[np.newaxis, :]",
             "row_2d = (row - centre)[np.newaxis, :]")],
      why="a statistic of the worker's chunk computed outside the row loop and used for every row"),
    V("c05-b1", "C05", "base_mab", "BaseMAB._parallel_predict",
      "seeds = self.rng.randint(np.iinfo(np.int32).max, size=total_contexts)",
      "upper = np.iinfo(np.int32).max\nseeds = self.rng.randint(upper, size=total_contexts)", benign=True),
    V("c05-b2", "C05", "neighbors", "_KNearest._predict_contexts", "lp.rng = create_rng(seed=seeds[index])",
      "row_rng = create_rng(seed=seeds[index])\nlp.rng = row_rng", benign=True),
    V("c05-b3", "C05", "ucb", "_UCB1._fit_arm", "self.arm_to_count[arm] += arm_rewards.size",
      "n_new = arm_rewards.size\nself.arm_to_count[arm] += n_new", benign=True),
]

# ---------------------------------------------------------------------------------------------------- C01
_UCB_EXP = ("if self.arm_to_count[arm]:\n    self.arm_to_expectation[arm] = _UCB1._get_ucb(self.arm_to_mean[arm], "
            "self.alpha, self.total_count, self.arm_to_count[arm])")
_POP_REBUILD = ("for arm in self.arm_to_expectation:\n    if self.arm_to_count[arm]:\n        "
                "self.arm_to_expectation[arm] = self.arm_to_sum[arm] / self.arm_to_count[arm]\n    else:\n        "
                "self.arm_to_expectation[arm] = 0")
VARIANTS += [
    V("c01-m1", "C01", "ucb", "_UCB1._fit_arm", _UCB_EXP, _UCB_EXP.replace("if self.arm_to_count[arm]:",
                                                                          "if arm_rewards.size:"), "R1.1",
      why="UCB bonus of arms absent from a chunk is not refreshed although N grew (the 1.7.1 bug)"),
    V("c01-m2", "C01", "greedy", "_EpsilonGreedy._fit_arm",
      "self.arm_to_expectation[arm] = self.arm_to_sum[arm] / self.arm_to_count[arm]",
      "self.arm_to_expectation[arm] = self.arm_to_sum[arm] / self.arm_to_count[self.arms[0]]", "R1.2",
      why="mean divided by another arm's count"),
    V("c01-m3", "C01", "greedy", "_EpsilonGreedy._uptake_new_arm", "self.arm_to_count[arm] = 0",
      "self.arm_to_count[arm] = 1", "R1.4", why="a new arm starts with a phantom observation"),
    V("c01-m4", "C01", "softmax", "_Softmax._drop_existing_arm", "self._expectation_operation()", "", "R1.1",
      why="soft-max shares not re-derived after an arm is removed"),
    V("c01-m5", "C01", "popularity", "_Popularity._normalize_expectations", _POP_REBUILD, "", "R1.1",
      why="normalises its own output again (the repaired defect)"),
    V("c01-m6", "C01", "greedy", "_EpsilonGreedy._fit_arm", "arm_rewards = rewards[decisions == arm]",
      "arm_rewards = rewards[decisions == arm]\nif not arm_rewards.sum():\n    return", "R1.6",
      why="batches whose rewards sum to zero are dropped"),
    V("c01-m7", "C01", "thompson", "_ThompsonSampling.predict_expectations",
      "arm_to_random_beta[arm] = self.rng.beta(self.arm_to_success_count[arm], self.arm_to_fail_count[arm], size)",
      "arm_to_random_beta[arm] = self.rng.beta(self.arm_to_fail_count[arm], self.arm_to_success_count[arm], size)",
      "R1.2", why="Beta parameters swapped"),
    V("c01-m8", "C01", "softmax", "_Softmax.partial_fit", "self._expectation_operation()", "", "R1.1",
      why="shares stale after partial_fit"),
    V("c01-m9", "C01", "thompson", "_ThompsonSampling._fit_arm", "arm_rewards = rewards[decisions == arm]",
      "arm_rewards = rewards[decisions != arm]", "R1.3", why="rewards of the other arms are counted"),
    V("c01-m10", "C01", "ucb", "_UCB1._uptake_new_arm", "self.arm_to_mean[arm] = 0", "self.arm_to_mean[arm] = 1",
      "R1.4", why="new arm gets a non-neutral mean"),
    V("c01-b1", "C01", "greedy", "_EpsilonGreedy._fit_arm",
      "self.arm_to_expectation[arm] = self.arm_to_sum[arm] / self.arm_to_count[arm]",
      "mean = self.arm_to_sum[arm] / self.arm_to_count[arm]\nself.arm_to_expectation[arm] = mean", benign=True),
    V("c01-b2", "C01", "ucb", "_UCB1._fit_arm", _UCB_EXP,
      _UCB_EXP.replace("if self.arm_to_count[arm]:", "if self.arm_to_count[arm] > 0:"), benign=True),
    V("c01-b3", "C01", "softmax", "_Softmax.fit", "reset(self.arm_to_mean, 0)",
      "for a in self.arm_to_mean:\n    self.arm_to_mean[a] = 0", benign=True),
    V("c01-b4", "C01", "greedy", "_EpsilonGreedy._fit_arm", "arm_rewards = rewards[decisions == arm]",
      "mask = decisions == arm\narm_rewards = rewards[mask]", benign=True),
]

# ---------------------------------------------------------------------------------------------------- C06
VARIANTS += [
    V("c06-m1", "C06", "ucb", "_UCB1.partial_fit", "self.total_count += len(decisions)", "", "R6.1",
      why="N is not advanced by partial_fit"),
    V("c06-m2", "C06", "softmax", "_Softmax.partial_fit", "self._expectation_operation()", "", "R6.1",
      why="shares not re-derived by partial_fit"),
    V("c06-m3", "C06", "approximate", "_ApproximateNeighbors.partial_fit",
      "self._fit_operation(contexts, context_start=start)", "self._fit_operation(contexts, context_start=0)",
      "R6.5", why="rows added by partial_fit are filed under batch-local indices"),
    V("c06-m4", "C06", "approximate", "_ApproximateNeighbors.partial_fit",
      "start = len(self.contexts)\nsuper().partial_fit(decisions, rewards, contexts)",
      "super().partial_fit(decisions, rewards, contexts)\nstart = len(self.contexts)", "R6.5",
      why="offset read after the append"),
    V("c06-m5", "C06", "neighbors", "_Neighbors.partial_fit",
      "decisions = np.concatenate((self.decisions, decisions))",
      "decisions = np.concatenate((decisions, self.decisions))", "R6.1",
      why="new decisions prepended: rows misaligned with contexts/rewards"),
    V("c06-m6", "C06", "greedy", "_EpsilonGreedy._fit_arm", "self.arm_to_sum[arm] += arm_rewards.sum()",
      "self.arm_to_sum[arm] = arm_rewards.sum()", "R6.2", why="sum overwritten by the last chunk"),
    V("c06-m7", "C06", "linear", "_RidgeRegression.fit", "self.Xty = self.Xty + np.dot(Xt, y)",
      "self.Xty = np.dot(Xt, y)", "R6.2", why="X'y of earlier chunks forgotten"),
    V("c06-m8", "C06", "mab", "MAB.partial_fit",
      "if self._is_initial_fit:\n    self._imp.partial_fit(decisions, rewards, contexts)\nelse:\n    "
      "self.fit(decisions, rewards, contexts)",
      "if not self._is_initial_fit:\n    self._imp.partial_fit(decisions, rewards, contexts)\nelse:\n    "
      "self.fit(decisions, rewards, contexts)", "R6.6", why="delegation inverted"),
    V("c06-m9", "C06", "approximate", "_LSHNearest._add_neighbors",
      "if context_start > 0:\n    neighbors = np.where(hash_values == h)[0] + context_start\nelse:\n    "
      "neighbors = np.where(hash_values == h)[0]",
      "if context_start > 1:\n    neighbors = np.where(hash_values == h)[0] + context_start\nelse:\n    "
      "neighbors = np.where(hash_values == h)[0]", "R6.5", why="offset dropped when exactly one row was stored"),
    V("c06-m10", "C06", "thompson", "_ThompsonSampling._fit_arm",
      "self.arm_to_fail_count[arm] += len(arm_rewards) - count_of_ones",
      "self.arm_to_fail_count[arm] += len(arm_rewards) - count_of_ones + 1", "R6.4",
      why="every chunk adds a failure to every arm, also to absent ones"),
    V("c06-m11", "C06", "clusters", "_Clusters.partial_fit", "self._fit_operation()", "", "R6.1",
      why="clusters are not refitted on the extended history"),
    V("c06-m12", "C06", "ucb", "_UCB1._fit_arm", _UCB_EXP, _UCB_EXP.replace("if self.arm_to_count[arm]:",
                                                                           "if arm_rewards.size:"), "R6.2",
      why="UCB bonus of arms absent from a chunk stale although N grew"),
    V("c06-m13", "C06", "popularity", "_Popularity._normalize_expectations", _POP_REBUILD, "", "R6.2",
      why="Popularity partial_fit diverges from fit (the repaired defect)"),
    V("c06-b1", "C06", "ucb", "_UCB1.partial_fit", "self.total_count += len(decisions)",
      "self.total_count = self.total_count + len(decisions)", benign=True),
    V("c06-b2", "C06", "neighbors", "_Neighbors.partial_fit",
      "decisions = np.concatenate((self.decisions, decisions))\n"
      "contexts = np.concatenate((self.contexts, contexts))\n"
      "rewards = np.concatenate((self.rewards, rewards))\n"
      "self.decisions, self.contexts, self.rewards = decisions, contexts, rewards",
      "all_decisions = np.concatenate((self.decisions, decisions))\n"
      "all_contexts = np.concatenate((self.contexts, contexts))\n"
      "all_rewards = np.concatenate((self.rewards, rewards))\n"
      "self.decisions, self.contexts, self.rewards = all_decisions, all_contexts, all_rewards", benign=True),
    V("c06-b3", "C06", "linear", "_RidgeRegression.fit", "self.Xty = self.Xty + np.dot(Xt, y)",
      "xty_new = np.dot(Xt, y)\nself.Xty = self.Xty + xty_new", benign=True),
]

# ---------------------------------------------------------------------------------------------------- C17
_ADD_OLD = ('check_false(arm in self.arms, ValueError("The arm is already in the list of arms."))\n'
            'self._validate_arm(arm)\nself.arms.append(arm)')
_NB_FIX = ("decisions = np.concatenate((self.decisions, decisions))\n"
           "contexts = np.concatenate((self.contexts, contexts))\n"
           "rewards = np.concatenate((self.rewards, rewards))\n"
           "self.decisions, self.contexts, self.rewards = decisions, contexts, rewards")
VARIANTS += [
    V("c17-m1", "C17", "mab", "MAB.add_arm", _ADD_OLD,
      'self.arms.append(arm)\ncheck_false(self.arms.count(arm) > 1, ValueError("The arm is already in the list of '
      'arms."))\nself._validate_arm(arm)', "R17.1", why="arm appended before it is validated"),
    V("c17-m2", "C17", "mab", "MAB.fit",
      "self._imp.fit(decisions, rewards, contexts)\nself._is_initial_fit = True",
      "self._is_initial_fit = True\nself._imp.fit(decisions, rewards, contexts)", "R17.1",
      why="bandit marked as fitted before a fit that can still reject the data"),
    V("c17-m3", "C17", "mab", "MAB.partial_fit",
      'check_true(np.isfinite(sum(rewards)), TypeError("Rewards cannot contain None, NaN or infinity."))\n'
      "contexts = self.__convert_context(contexts, decisions)\n"
      "if self._is_initial_fit:\n    self._imp.partial_fit(decisions, rewards, contexts)\nelse:\n    "
      "self.fit(decisions, rewards, contexts)",
      "contexts = self.__convert_context(contexts, decisions)\n"
      "if self._is_initial_fit:\n    self._imp.partial_fit(decisions, rewards, contexts)\nelse:\n    "
      "self.fit(decisions, rewards, contexts)\n"
      'check_true(np.isfinite(sum(rewards)), TypeError("Rewards cannot contain None, NaN or infinity."))',
      "R17.1", why="non-finite rewards rejected after they have been learned"),
    V("c17-m4", "C17", "linear", "_Linear._fit_arm", "lr.fit(X, y)\nself.arm_to_model[arm] = lr",
      "self.arm_to_model[arm] = lr\nlr.fit(X, y)", "R17.2", why="copy published before it is updated"),
    V("c17-m5", "C17", "neighbors", "_Neighbors.partial_fit", _NB_FIX,
      "self.decisions = np.concatenate((self.decisions, decisions))\n"
      "self.contexts = np.concatenate((self.contexts, contexts))\n"
      "self.rewards = np.concatenate((self.rewards, rewards))", "R17.2",
      why="history arrays published one by one (the repaired defect)"),
    V("c17-m6", "C17", "mab", "MAB.warm_start",
      'check_true(set(self.arms) == set(arm_to_features.keys()), ValueError("The arms in arm features do not match '
      'arms."))\nself._imp.warm_start(arm_to_features, distance_quantile)',
      'self._imp.warm_start(arm_to_features, distance_quantile)\n'
      'check_true(set(self.arms) == set(arm_to_features.keys()), ValueError("The arms in arm features do not match '
      'arms."))', "R17.1", why="feature/arm mismatch detected after the warm start"),
    V("c17-m7", "C17", "mab", "MAB.remove_arm",
      'check_true(arm in self.arms, ValueError("The arm is not in the list of arms."))\nself._validate_arm(arm)\n'
      "self.arms.remove(arm)",
      "self._validate_arm(arm)\nself._imp.remove_arm(arm)\n"
      'check_true(arm in self.arms, ValueError("The arm is not in the list of arms."))\nself.arms.remove(arm)',
      "R17.1", why="implementor state dropped before the arm is validated"),
    V("c17-m8", "C17", "clusters", "_Clusters.partial_fit", _NB_FIX,
      "self.rewards = np.concatenate((self.rewards, rewards))\n" + _NB_FIX.replace(
          "rewards = np.concatenate((self.rewards, rewards))\n", "").replace(
          "self.decisions, self.contexts, self.rewards = decisions, contexts, rewards",
          "self.decisions, self.contexts = decisions, contexts"), "R17.2",
      why="rewards stored before the contexts have been checked"),
    V("c17-b1", "C17", "neighbors", "_Neighbors.partial_fit", _NB_FIX,
      _NB_FIX.replace("self.decisions, self.contexts, self.rewards = decisions, contexts, rewards",
                      "self.decisions = decisions\nself.contexts = contexts\nself.rewards = rewards"),
      benign=True),
    V("c17-b2", "C17", "mab", "MAB.add_arm", _ADD_OLD, _ADD_OLD.replace(
        "self.arms.append(arm)", "new_arm = arm\nself.arms.append(new_arm)"), benign=True),
]

# ---------------------------------------------------------------------------------------------------- C14
VARIANTS += [
    V("c14-m1", "C14", "clusters", "_Clusters.fit",
      "self.rewards = self.lp_list[0]._get_binary_rewards(decisions, rewards)\n"
      "for lp in self.lp_list:\n    lp.is_contextual_binarized = True",
      "self.rewards = self.lp_list[0]._get_binary_rewards(decisions, rewards)", "R14.1",
      why="cluster policies convert the stored rewards again"),
    V("c14-m2", "C14", "neighbors", "_Neighbors._binarize_ts_rewards", "self.lp.is_contextual_binarized = False", "",
      "R14.1", why="rewards of a later partial_fit are stored unconverted"),
    V("c14-m3", "C14", "neighbors", "_Neighbors._uptake_new_arm",
      "if binarizer and isinstance(self.lp, _ThompsonSampling):\n    self.lp.is_contextual_binarized = True", "",
      "R14.1", why="binarizer of add_arm applied to stored rewards (the repaired defect)"),
    V("c14-m4", "C14", "neighbors", "_Neighbors.fit",
      "self.rewards = self._binarize_ts_rewards(decisions, rewards)",
      "self._binarize_ts_rewards(decisions, rewards)\nself.rewards = rewards", "R14.1",
      why="raw rewards stored although the flag says converted"),
    V("c14-m5", "C14", "thompson", "_ThompsonSampling.partial_fit",
      "rewards = self._get_binary_rewards(decisions, rewards)", "", "R14.1",
      why="partial_fit of plain Thompson sampling skips the conversion"),
    V("c14-m7", "C14", "simulator", "_NeighborsSimulator._get_nhood_predictions",
      "nn_rewards = self.rewards[indices]", "nn_rewards = self.rewards[indices] if self.raw_rewards is None else "
      "self.raw_rewards[indices]", "R14.1", why="simulator trains on the raw rewards with the flag set"),
    V("c14-m8", "C14", "clusters", "_Clusters.partial_fit",
      "for lp in self.lp_list:\n    lp.is_contextual_binarized = False\n"
      "rewards = self.lp_list[0]._get_binary_rewards(decisions, rewards)",
      "rewards = self.lp_list[0]._get_binary_rewards(decisions, rewards)", "R14.1",
      why="second batch is not converted because the flag is still set"),
    V("c14-b1", "C14", "neighbors", "_Neighbors._binarize_ts_rewards",
      "rewards = self.lp._get_binary_rewards(decisions, rewards)",
      "converted = self.lp._get_binary_rewards(decisions, rewards)\nrewards = converted", benign=True),
    V("c14-b2", "C14", "thompson", "_ThompsonSampling.fit", "rewards = self._get_binary_rewards(decisions, rewards)",
      "binary_rewards = self._get_binary_rewards(decisions, rewards)\nrewards = binary_rewards", benign=True),
]

# ---------------------------------------------------------------------------------------------------- C08
VARIANTS += [
    V("c08-m1", "C08", "ucb", "_UCB1._drop_existing_arm", "self.arm_to_mean.pop(arm)", "", "R8.1",
      why="mean of a removed arm stays behind"),
    V("c08-m2", "C08", "clusters", "_Clusters._uptake_new_arm",
      "for lp in self.lp_list:\n    lp.add_arm(arm, binarizer)", "self.lp_list[0].add_arm(arm, binarizer)", "R8.1",
      why="only the first cluster policy learns about the new arm"),
    V("c08-m3", "C08", "mab", "MAB.__init__",
      "lp = _UCB1(self._rng, self.arms, self.n_jobs, self.backend, learning_policy.alpha)",
      "lp = _UCB1(self._rng, list(self.arms), self.n_jobs, self.backend, learning_policy.alpha)", "R8.3",
      why="policy works on a private copy of the arm list"),
    V("c08-m4", "C08", "base_mab", "BaseMAB._parallel_predict",
      "return predictions if len(predictions) > 1 else predictions[0]", "return predictions", "R8.5",
      why="a single row yields a one-element list"),
    V("c08-m5", "C08", "softmax", "_Softmax._uptake_new_arm", "self.arm_to_exponent[arm] = 0", "", "R8.1",
      why="new arm missing from the exponent table"),
    V("c08-m6", "C08", "treebandit", "_TreeBandit._uptake_new_arm",
      "self.arm_to_leaf_to_rewards[arm] = defaultdict(partial(np.ndarray, 0))", "", "R8.1",
      why="new arm has no leaf store"),
    V("c08-m7", "C08", "linear", "_Linear._drop_existing_arm", "self.arm_to_model.pop(arm)", "", "R8.1",
      why="model of a removed arm stays behind"),
    V("c08-m8", "C08", "neighbors", "_Radius._predict_contexts",
      "predictions[index] = self._get_no_nhood_predictions(lp, is_predict)", "", "R8.5",
      why="rows without neighbours get no result"),
    V("c08-m9", "C08", "ucb", "_UCB1.predict_expectations",
      "return [self.arm_to_expectation.copy() for _ in range(len(contexts))]",
      "return [self.arm_to_expectation.copy() for _ in range(len(contexts) - 1)]", "R8.5",
      why="one result too few"),
    V("c08-m10", "C08", "ucb", "_UCB1.predict_expectations",
      "if contexts is None or len(contexts) == 1:\n    return self.arm_to_expectation.copy()\nelse:\n    "
      "return [self.arm_to_expectation.copy() for _ in range(len(contexts))]",
      "if contexts is None or len(contexts) == 1:\n    return self.arm_to_expectation\nelse:\n    "
      "return [self.arm_to_expectation.copy() for _ in range(len(contexts))]", "R8.4",
      why="the internal dictionary is handed out"),
    V("c08-m11", "C08", "base_mab", "BaseMAB.add_arm",
      "self.arm_to_status[arm] = {IS_TRAINED: False, IS_WARM: False, WARM_STARTED_BY: None}", "", "R8.1",
      why="status entry of the new arm missing"),
    V("c08-m12", "C08", "neighbors", "_Neighbors._drop_existing_arm", "self.lp.remove_arm(arm)", "", "R8.1",
      why="nested learning policy keeps the removed arm"),
    V("c08-b1", "C08", "greedy", "_EpsilonGreedy._drop_existing_arm", "self.arm_to_sum.pop(arm)",
      "del self.arm_to_sum[arm]", benign=True),
    V("c08-b2", "C08", "clusters", "_Clusters._uptake_new_arm",
      "for lp in self.lp_list:\n    lp.add_arm(arm, binarizer)",
      "for i in range(len(self.lp_list)):\n    self.lp_list[i].add_arm(arm, binarizer)", benign=True),
    V("c08-b3", "C08", "ucb", "_UCB1._uptake_new_arm", "self.arm_to_sum[arm] = 0\nself.arm_to_count[arm] = 0",
      "self.arm_to_count[arm] = 0\nself.arm_to_sum[arm] = 0", benign=True),
]

# ---------------------------------------------------------------------------------------------------- C15
VARIANTS += [
    V("c15-m1", "C15", "simulator", "_RadiusSimulator._predict_contexts",
      "indices = np.where(distances_to_row <= self.radius)", "indices = np.where(distances_to_row < self.radius)",
      "R15.1", why="simulator excludes the radius boundary, the library includes it"),
    V("c15-m2", "C15", "simulator", "_KNearestSimulator._predict_contexts",
      "indices = np.argpartition(distances_to_row, self.k - 1)[:self.k]",
      "indices = np.argpartition(distances_to_row, self.k)[:self.k]", "R15.1",
      why="different partition pivot than the library"),
    V("c15-m3", "C15", "simulator", "_KNearestSimulator._predict_contexts", "lp = deepcopy(self.lp)", "lp = self.lp",
      "R15.4", why="simulator trains the shared policy instead of a copy"),
    V("c15-m4", "C15", "simulator", "Simulator._train_bandits",
      "mab = _KNearestSimulator(imp.rng, imp.arms, imp.n_jobs, imp.backend, imp.lp, imp.k, imp.metric, "
      "is_quick=self.is_quick)",
      "mab = _KNearestSimulator(imp.rng, imp.arms, imp.n_jobs, imp.backend, imp.lp, imp.k, 'euclidean', "
      "is_quick=self.is_quick)", "R15.6", why="metric of the replaced bandit dropped"),
    V("c15-m5", "C15", "simulator", "Simulator._offline_test_bandits",
      "if mab.metric not in distances:\n    distances[mab.metric] = mab.calculate_distances(chunk_contexts)\n"
      "else:\n    mab.set_distances(distances[mab.metric])",
      "if not distances:\n    distances[0] = mab.calculate_distances(chunk_contexts)\n"
      "else:\n    mab.set_distances(distances[0])", "R15.3",
      why="distance cache shared across metrics (the repaired defect)"),
    V("c15-m6", "C15", "simulator", "_LSHSimulator._add_neighbors",
      "neighbors = np.where(hash_values == h)[0] + context_start",
      "neighbors = np.where(hash_values == h)[0] + context_start - 1", "R15.5",
      why="simulator's LSH index offset differs from the library's"),
    V("c15-m7", "C15", "simulator", "_RadiusSimulator._predict_contexts",
      "distances_to_row = self.distances[start_index + index]", "distances_to_row = self.distances[index]", "R15.1",
      why="workers other than the first read another row's distances"),
    V("c15-m8", "C15", "simulator", "_NeighborsSimulator._get_nhood_predictions",
      "lp.fit(nn_decisions, nn_rewards, self.contexts[indices])",
      "lp.fit(nn_decisions, nn_rewards, self.contexts)", "R15.4",
      why="policy trained on all contexts instead of the neighbourhood"),
    V("c15-m9", "C15", "simulator", "_NeighborsSimulator._calculate_distances_of_batch",
      "distances[index] = cdist(self.contexts, row_2d, metric=self.metric).reshape(-1)",
      "distances[index] = cdist(self.contexts, row_2d).reshape(-1)", "R15.1",
      why="cached distances ignore the configured metric"),
    V("c15-m10", "C15", "simulator", "_NeighborsSimulator._get_nhood_predictions",
      "prediction = lp.predict(row_2d)\nif isinstance(lp, _ThompsonSampling):\n    "
      "arm_to_expectation = lp.arm_to_expectation.copy()\nelse:\n    "
      "arm_to_expectation = lp.predict_expectations(row_2d)",
      "if isinstance(lp, _ThompsonSampling):\n    arm_to_expectation = lp.arm_to_expectation.copy()\nelse:\n    "
      "arm_to_expectation = lp.predict_expectations(row_2d)\nprediction = lp.predict(row_2d)", "R15.4",
      why="expectations drawn before the prediction shift the random stream"),
    V("c15-b1", "C15", "simulator", "_RadiusSimulator._predict_contexts",
      "indices = np.where(distances_to_row <= self.radius)",
      "within = distances_to_row <= self.radius\nindices = np.where(within)", benign=True),
    V("c15-b2", "C15", "simulator", "_LSHSimulator._get_neighbors", "indices = list()", "indices = list()\npass",
      benign=True),
]

# ---------------------------------------------------------------------------------------------------- C16
VARIANTS += [
    V("c16-m1", "C16", "simulator", "Simulator._online_test_bandits_chunks",
      "chunk_start = j * self._chunk_size", "chunk_start = 0", "R16.1",
      why="every chunk of a batch predicts the first rows again (the repaired defect)"),
    V("c16-m2", "C16", "simulator", "Simulator._offline_test_bandits", "start = idx * self._chunk_size",
      "start = idx * (self._chunk_size - 1)", "R16.1", why="offline chunks overlap by one row"),
    V("c16-m3", "C16", "simulator", "default_evaluator",
      "if row_neighborhood_stats and row_neighborhood_stats[predicted_arm]:\n    "
      "arm_to_rewards[predicted_arm].append(row_neighborhood_stats[predicted_arm][stat])\nelse:\n    "
      "arm_to_rewards[predicted_arm].append(arm_to_stats[predicted_arm][stat])",
      "if row_neighborhood_stats and row_neighborhood_stats[predicted_arm]:\n    "
      "arm_to_rewards[predicted_arm].append(row_neighborhood_stats[predicted_arm][stat])\n"
      "arm_to_rewards[predicted_arm].append(arm_to_stats[predicted_arm][stat])", "R16.2",
      why="rows with neighbourhood statistics are credited twice"),
    V("c16-m4", "C16", "simulator", "Simulator._run_train_test_split",
      "train_indices, test_indices, train_decisions, test_decisions, train_rewards, test_rewards = "
      "train_test_split(indices, self.decisions, self.rewards, test_size=self.test_size, random_state=self.seed)",
      "train_indices, test_indices, train_decisions, test_decisions, test_rewards, train_rewards = "
      "train_test_split(indices, self.decisions, self.rewards, test_size=self.test_size, random_state=self.seed)",
      "R16.3", why="train and test rewards swapped in the unpacking"),
    V("c16-m5", "C16", "simulator", "Simulator._run_train_test_split",
      "test_rewards = self.rewards[train_size:]", "test_rewards = self.rewards[train_size + 1:]", "R16.3",
      why="test rewards shifted by one row against test decisions"),
    V("c16-m6", "C16", "simulator", "Simulator._online_test_bandits_chunks", "start += self.batch_size",
      "start += self.batch_size - 1", "R16.1", why="batches overlap"),
    V("c16-m7", "C16", "simulator", "Simulator.run", 'self._set_stats("test", test_decisions, test_rewards)',
      'self._set_stats("test", test_decisions, train_rewards)', "R16.4",
      why="test statistics computed from training rewards"),
    V("c16-m9", "C16", "simulator", "Simulator._offline_test_bandits",
      "self.bandit_to_predictions[name] = self.bandit_to_predictions[name] + predictions",
      "self.bandit_to_predictions[name] = predictions + self.bandit_to_predictions[name]", "R16.4",
      why="chunks are accumulated in reverse order"),
    V("c16-m10", "C16", "simulator", "Simulator._online_test_bandits_chunks",
      "chunk_stop = min(chunk_start + self._chunk_size, len(batch_decisions))",
      "chunk_stop = min(chunk_start + self._chunk_size - 1, len(batch_decisions))", "R16.1",
      why="last row of every chunk skipped"),
    V("c16-b1", "C16", "simulator", "Simulator._offline_test_bandits", "start = idx * self._chunk_size",
      "start = self._chunk_size * idx", benign=True),
    V("c16-b2", "C16", "simulator", "Simulator._run_train_test_split",
      "self.test_indices = [x for x in range(train_size, len(self.decisions))]",
      "self.test_indices = list(range(train_size, len(self.decisions)))", benign=True),
]

# ---------------------------------------------------------------------------------------------------- C03
VARIANTS += [
    V("c03-m1", "C03", "neighbors", "_Radius._predict_contexts",
      "indices = np.where(distances_to_row <= self.radius)", "indices = np.where(distances_to_row < self.radius)",
      "R3.1", why="rows exactly on the radius boundary are dropped"),
    V("c03-m2", "C03", "neighbors", "_KNearest._predict_contexts",
      "indices = np.argpartition(distances_to_row, self.k - 1)[:self.k]",
      "indices = np.argpartition(distances_to_row, self.k)[:self.k]", "R3.2",
      why="pivot k instead of k-1: the k-th neighbour may be any of the two candidates"),
    V("c03-m3", "C03", "neighbors", "_KNearest._predict_contexts",
      "distances_to_row = cdist(self.contexts, row_2d, metric=self.metric).reshape(-1)",
      "distances_to_row = cdist(self.contexts, row_2d).reshape(-1)", "R3.3", why="configured metric ignored"),
    V("c03-m4", "C03", "neighbors", "_Neighbors._get_nhood_predictions",
      "lp.fit(self.decisions[indices], self.rewards[indices], self.contexts[indices])",
      "lp.partial_fit(self.decisions[indices], self.rewards[indices], self.contexts[indices])", "R3.5",
      why="worker policy accumulates over rows instead of being trained from scratch"),
    V("c03-m5", "C03", "neighbors", "_Neighbors._uptake_new_arm", "self.arm_to_expectation[arm] = np.nan", "",
      "R3.6", why="added arm reports 0 instead of nan (the repaired defect)"),
    V("c03-m6", "C03", "neighbors", "_Radius._predict_contexts",
      "if indices[0].size > 0:\n    predictions[index] = self._get_nhood_predictions(lp, indices, row_2d, is_predict)"
      "\nelse:\n    predictions[index] = self._get_no_nhood_predictions(lp, is_predict)",
      "if indices[0].size > 1:\n    predictions[index] = self._get_nhood_predictions(lp, indices, row_2d, is_predict)"
      "\nelse:\n    predictions[index] = self._get_no_nhood_predictions(lp, is_predict)", "R3.6",
      why="a single neighbour is treated as an empty neighbourhood"),
    V("c03-m7", "C03", "neighbors", "_Neighbors._get_nhood_predictions",
      "lp.fit(self.decisions[indices], self.rewards[indices], self.contexts[indices])",
      "lp.fit(self.decisions[indices], self.rewards, self.contexts[indices])", "R3.5",
      why="rewards not restricted to the neighbourhood"),
    V("c03-m8", "C03", "neighbors", "_Neighbors.fit", "self.contexts = contexts",
      "self.contexts = contexts if self.contexts is None else self.contexts", "R3.4",
      why="a second fit keeps the old contexts"),
    V("c03-m9", "C03", "neighbors", "_Neighbors._get_no_nhood_predictions",
      "rand_int = lp.rng.choice(len(self.arms), size=1, p=self.no_nhood_prob_of_arm)[0]",
      "rand_int = lp.rng.choice(len(self.arms), size=1)[0]", "R3.6",
      why="configured empty-neighbourhood distribution ignored"),
    V("c03-b1", "C03", "neighbors", "_Radius._predict_contexts",
      "indices = np.where(distances_to_row <= self.radius)", "indices = np.where(self.radius >= distances_to_row)",
      benign=True),
    V("c03-b2", "C03", "neighbors", "_KNearest._predict_contexts",
      "distances_to_row = cdist(self.contexts, row_2d, metric=self.metric).reshape(-1)",
      "distance_matrix = cdist(self.contexts, row_2d, metric=self.metric)\n"
      "distances_to_row = distance_matrix.reshape(-1)", benign=True),
]

# ---------------------------------------------------------------------------------------------------- C09
VARIANTS += [
    V("c09-m1", "C09", "utils", "argmax", "return max(dictionary, key=dictionary.get)",
      "return min(dictionary, key=dictionary.get)", "R9.1", why="argmax returns the minimum"),
    V("c09-m2", "C09", "ucb", "_UCB1.predict", "expectations = self.predict_expectations(contexts)",
      "self.rng.rand()\nexpectations = self.predict_expectations(contexts)", None,
      why="predict consumes the stream before asking for expectations"),
    V("c09-m3", "C09", "linear", "_Linear._vectorized_predict_context",
      "predictions = arms[np.argmax(arm_expectations, axis=1)].tolist()",
      "predictions = arms[np.argmax(arm_expectations[:, ::-1], axis=1)].tolist()", "R9.2",
      why="ties resolved towards the last arm and columns mirrored"),
    V("c09-m4", "C09", "clusters", "_Clusters._predict_contexts",
      "predictions[index] = lp_list[cluster].predict(row_2d)",
      "lp_list[cluster].predict_expectations(row_2d)\npredictions[index] = lp_list[cluster].predict(row_2d)", "R9.2",
      why="prediction taken one draw later than the expectations"),
    V("c09-m5", "C09", "treebandit", "_TreeBandit._predict_contexts",
      "predictions[index] = argmax(arm_to_expectation)",
      "predictions[index] = max(arm_to_expectation, key=lambda a: (arm_to_expectation[a], str(a)))", "R9.2",
      why="ties broken by label instead of arm order"),
    V("c09-m6", "C09", "thompson", "_ThompsonSampling.predict",
      "if isinstance(expectations, dict):\n    return argmax(expectations)\nelse:\n    "
      "return [argmax(exp) for exp in expectations]",
      "if isinstance(expectations, dict):\n    return argmax(expectations)\nelse:\n    "
      "return [argmax(exp) for exp in reversed(expectations)]", "R9.1", why="rows answered in reverse order"),
    V("c09-m7", "C09", "neighbors", "_Neighbors._get_nhood_predictions", "return lp.predict(row_2d)",
      "expectations = lp.predict_expectations(row_2d)\nreturn sorted(expectations, key=expectations.get)[-1]",
      "R9.2", why="last maximum instead of first"),
    V("c09-b1", "C09", "neighbors", "_Neighbors._get_nhood_predictions", "return lp.predict(row_2d)",
      "prediction = lp.predict(row_2d)\nreturn prediction", benign=True),
    V("c09-b2", "C09", "treebandit", "_TreeBandit._predict_contexts",
      "predictions[index] = argmax(arm_to_expectation)",
      "best_arm = argmax(arm_to_expectation)\npredictions[index] = best_arm", benign=True),
]

# ---------------------------------------------------------------------------------------------------- C11
VARIANTS += [
    V("c11-m1", "C11", "approximate", "_LSHNearest._get_neighbors",
      "hash_value = self.get_context_hash(row_2d, self.table_to_plane[k])",
      "hash_value = self.get_context_hash(row_2d, self.table_to_plane[0])", "R11.1",
      why="query hashed with the first table's planes for every table"),
    V("c11-m2", "C11", "approximate", "_LSHNearest._get_neighbors",
      "indices += self.table_to_hash_to_index[k][hash_value[0]]",
      "indices += self.table_to_hash_to_index[k][hash_value[0] + 1]", "R11.1", why="reader looks into the next bucket"),
    V("c11-m3", "C11", "approximate", "_ApproximateNeighbors.partial_fit",
      "self._fit_operation(contexts, context_start=start)",
      "self._initialize(contexts.shape[1])\nself._fit_operation(contexts, context_start=start)", "R11.2",
      why="planes redrawn by partial_fit: old rows are filed under other planes than new queries use"),
    V("c11-m4", "C11", "approximate", "_LSHNearest._add_neighbors",
      "neighbors = np.where(hash_values == h)[0] + context_start", "neighbors = np.where(hash_values == h)[0]",
      "R6.5", why="rows of partial_fit filed under batch-local positions"),
    V("c11-m5", "C11", "approximate", "_LSHNearest.get_context_hash",
      "projection_signs = 1 * (np.dot(contexts, plane) > 0)",
      "projection_signs = 1 * (np.abs(np.dot(contexts, plane)) > 0)", "R11.5",
      why="sign information lost: all rows collide"),
    V("c11-m6", "C11", "approximate", "_ApproximateNeighbors._predict_contexts", "indices = list(set(indices))", "",
      "R11.4", why="rows colliding in several tables are counted several times"),
    V("c11-m7", "C11", "approximate", "_LSHNearest._fit_operation",
      "hash_values = Parallel(n_jobs=n_jobs, backend=self.backend)((delayed(self.get_context_hash)("
      "contexts[starts[i]:starts[i + 1]], self.table_to_plane[k]) for i in range(n_jobs)))",
      "hash_values = Parallel(n_jobs=n_jobs, backend=self.backend)((delayed(self.get_context_hash)("
      "contexts[starts[i]:starts[i + 1]], self.table_to_plane[0]) for i in range(n_jobs)))", "R11.1",
      why="all tables filled with the first table's hashes"),
    V("c11-m8", "C11", "approximate", "_LSHNearest.get_context_hash",
      "projection_signs = 1 * (np.dot(contexts, plane) > 0)",
      "projection_signs = 1 * (np.dot(contexts, plane) > 1e-09)", "R11.5",
      why="threshold other than zero breaks scale invariance"),
    V("c11-m9", "C11", "approximate", "_LSHNearest._initialize",
      "self.table_to_plane = {i: self.rng.standard_normal(size=(n_cols, self.n_dimensions)) "
      "for i in self.table_to_plane.keys()}",
      "self.table_to_plane = {i: self.rng.standard_normal(size=(self.n_dimensions, n_cols)) "
      "for i in self.table_to_plane.keys()}", "R11.2", why="plane matrix transposed"),
    V("c11-b1", "C11", "approximate", "_LSHNearest._get_neighbors",
      "hash_value = self.get_context_hash(row_2d, self.table_to_plane[k])",
      "plane = self.table_to_plane[k]\nhash_value = self.get_context_hash(row_2d, plane)", benign=True),
    V("c11-b2", "C11", "approximate", "_LSHNearest._get_neighbors", "indices = list()", "indices = []", benign=True),
]

# ---------------------------------------------------------------------------------------------------- C12
VARIANTS += [
    V("c12-m1", "C12", "clusters", "_Clusters._fit_operation", "indices = np.where(cluster_predictions == c)",
      "indices = np.where(cluster_predictions != c)", "R12.1", why="cluster policy trained on the other clusters"),
    V("c12-m2", "C12", "clusters", "_Clusters._predict_contexts", "cluster = cluster_predictions[index]",
      "cluster = cluster_predictions[0]", "R12.1", why="every row answered by the first row's cluster"),
    V("c12-m3", "C12", "clusters", "_Clusters._fit_operation", "c_rewards = self.rewards[indices]",
      "c_rewards = self.rewards[:len(c_decisions)]", "R12.1", why="rewards not selected by the cluster mask"),
    V("c12-m4", "C12", "clusters", "_Clusters._fit_operation",
      "self.lp_list[c].fit(c_decisions, c_rewards, c_contexts)",
      "self.lp_list[c - 1].fit(c_decisions, c_rewards, c_contexts)", "R12.1",
      why="policies trained for the neighbouring cluster index"),
    V("c12-m5", "C12", "treebandit", "_TreeBandit._fit_arm",
      "rewards_to_add = arm_rewards[leaf_indices == index]", "rewards_to_add = arm_rewards[leaf_indices != index]",
      "R12.2", why="rewards of the other leaves filed under the leaf"),
    V("c12-m6", "C12", "treebandit", "_TreeBandit._predict_contexts",
      "leaf_index = arm_to_tree[arm].apply([row])[0]", "leaf_index = arm_to_tree[arms[0]].apply([row])[0]", "R12.2",
      why="leaf looked up in the first arm's tree"),
    V("c12-m7", "C12", "treebandit", "_TreeBandit._fit_arm", "arm_rewards = rewards[decisions == arm]",
      "arm_rewards = rewards[:len(arm_contexts)]", "R12.2", why="rewards not selected by the arm mask"),
    V("c12-m8", "C12", "clusters", "_Clusters._predict_contexts",
      "cluster_predictions = self.kmeans.predict(contexts)",
      "cluster_predictions = self.kmeans.fit_predict(contexts)", None,
      why="query batch re-clusters the estimator"),
    V("c12-m9", "C12", "treebandit", "_TreeBandit._fit_arm",
      "if len(self.arm_to_leaf_to_rewards[arm]) == 0:\n    self.arm_to_tree[arm].fit(arm_contexts, arm_rewards)",
      "self.arm_to_tree[arm].fit(arm_contexts, arm_rewards)", "R12.2",
      why="tree refitted by partial_fit while old rewards stay filed under the old leaves"),
    V("c12-b1", "C12", "clusters", "_Clusters._fit_operation", "c_decisions = self.decisions[indices]",
      "selected = indices\nc_decisions = self.decisions[selected]", benign=True),
    V("c12-b2", "C12", "treebandit", "_TreeBandit._predict_contexts",
      "leaf_rewards = arm_to_rewards[arm][leaf_index]",
      "rewards_of_arm = arm_to_rewards[arm]\nleaf_rewards = rewards_of_arm[leaf_index]", benign=True),
]

# ---------------------------------------------------------------------------------------------------- C13
VARIANTS += [
    V("c13-m1", "C13", "greedy", "_EpsilonGreedy._copy_arms",
      "self.arm_to_count[cold_arm] = deepcopy(self.arm_to_count[warm_arm])", "", "R13.2",
      why="count of the warm arm not copied: the next partial_fit divides the copied sum by a fresh count"),
    V("c13-m2", "C13", "linear", "_Linear._copy_arms",
      "self.arm_to_model[cold_arm] = deepcopy(self.arm_to_model[warm_arm])",
      "self.arm_to_model[cold_arm] = self.arm_to_model[warm_arm]", "R13.1",
      why="cold and warm arm share one regression object"),
    V("c13-m3", "C13", "base_mab", "BaseMAB._get_cold_arm_to_warm_arm",
      "for arm in self.trained_arms:\n    if arm in self.arms:\n        "
      "arm_to_distance[arm] = distance_from_to[cold_arm][arm]",
      "for arm in self.arms:\n    if arm in self.arms:\n        "
      "arm_to_distance[arm] = distance_from_to[cold_arm][arm]", "R13.3",
      why="untrained arms can be chosen as warm-start source"),
    V("c13-m4", "C13", "base_mab", "BaseMAB._get_cold_arm_to_warm_arm",
      "if closest_distance <= distance_threshold:\n    new_cold_arm_to_warm_arm[cold_arm] = closest_arm",
      "if closest_distance < distance_threshold:\n    new_cold_arm_to_warm_arm[cold_arm] = closest_arm", "R13.3",
      why="arm exactly at the threshold distance is not warm started"),
    V("c13-m5", "C13", "base_mab", "BaseMAB.cold_arms",
      "return [arm for arm in self.arms if not self.arm_to_status[arm][IS_TRAINED] and "
      "(not self.arm_to_status[arm][IS_WARM])]",
      "return [arm for arm in self.arms if not self.arm_to_status[arm][IS_TRAINED]]", "R13.4",
      why="warm-started arms are warm started again by the next call"),
    V("c13-m6", "C13", "ucb", "_UCB1._copy_arms",
      "self.arm_to_mean[cold_arm] = deepcopy(self.arm_to_mean[warm_arm])",
      "self.arm_to_mean[warm_arm] = deepcopy(self.arm_to_mean[cold_arm])", "R13.1",
      why="the trained arm is overwritten by the cold arm's mean"),
    V("c13-m7", "C13", "base_mab", "BaseMAB._set_arms_as_trained",
      "if not is_partial:\n    self.arm_to_status[arm][IS_WARM] = False\n    "
      "self.arm_to_status[arm][WARM_STARTED_BY] = None",
      "self.arm_to_status[arm][IS_WARM] = False\nself.arm_to_status[arm][WARM_STARTED_BY] = None", "R13.4",
      why="partial_fit forgets that an arm was warm started"),
    V("c13-m8", "C13", "softmax", "_Softmax._copy_arms", "self._expectation_operation()", "", "R13.2",
      why="soft-max shares of the warm-started arm not computed"),
    V("c13-m9", "C13", "base_mab", "BaseMAB._warm_start",
      "cold_arm_to_warm_arm = self._get_cold_arm_to_warm_arm(arm_to_features, distance_quantile)\n"
      "self._copy_arms(cold_arm_to_warm_arm)",
      "cold_arm_to_warm_arm = self._get_cold_arm_to_warm_arm(arm_to_features, distance_quantile)\n"
      "self._copy_arms({w: c for c, w in cold_arm_to_warm_arm.items()})", None,
      why="mapping inverted: trained arms receive the cold arms' state"),
    V("c13-b1", "C13", "greedy", "_EpsilonGreedy._copy_arms",
      "for cold_arm, warm_arm in cold_arm_to_warm_arm.items():\n"
      "    self.arm_to_sum[cold_arm] = deepcopy(self.arm_to_sum[warm_arm])\n"
      "    self.arm_to_count[cold_arm] = deepcopy(self.arm_to_count[warm_arm])\n"
      "    self.arm_to_expectation[cold_arm] = deepcopy(self.arm_to_expectation[warm_arm])",
      "for target, source in cold_arm_to_warm_arm.items():\n"
      "    self.arm_to_count[target] = deepcopy(self.arm_to_count[source])\n"
      "    self.arm_to_sum[target] = deepcopy(self.arm_to_sum[source])\n"
      "    self.arm_to_expectation[target] = deepcopy(self.arm_to_expectation[source])", benign=True),
]

# ---------------------------------------------------------------------------------------------------- C20
VARIANTS += [
    V("c20-m1", "C20", "mab", "MAB.__init__", "self.arms = arms.copy()", "self.arms = sorted(arms)", "R20.1",
      why="arm order (and with it tie-breaking) depends on the labels"),
    V("c20-m2", "C20", "base_mab", "BaseMAB._get_cold_arm_to_warm_arm", "closest_arm = argmin(arm_to_distance)",
      "closest_arm = min(arm_to_distance, key=lambda a: (arm_to_distance[a], a))", "R20.1",
      why="ties between equally close trained arms broken by label"),
    V("c20-m3", "C20", "greedy", "_EpsilonGreedy._fit_arm", "arm_rewards = rewards[decisions == arm]",
      "arm_rewards = rewards[rewards == arm]", "R20.2", why="rows selected by comparing rewards with the label"),
    V("c20-m4", "C20", "base_mab", "BaseMAB._parallel_fit",
      "n_jobs = self._effective_jobs(len(self.arms), self.n_jobs)",
      "n_jobs = self._effective_jobs(max(len(self.arms), max(self.arms)), self.n_jobs)", "R20.1",
      why="numeric value of a label used"),
    V("c20-m5", "C20", "greedy", "_EpsilonGreedy._uptake_new_arm", "self.arm_to_sum[arm] = 0",
      "self.arm_to_sum[arm] = 0 * arm", "R20.1", why="arithmetic on a label"),
    V("c20-m6", "C20", "base_mab", "BaseMAB._set_arms_as_trained", "arms = np.unique(decisions).tolist()",
      "arms = [a for a in np.unique(decisions).tolist() if a >= self.arms[0]]", "R20.1",
      why="labels compared by order"),
    V("c20-m7", "C20", "thompson", "_ThompsonSampling._get_binary_rewards",
      "return np.fromiter((self.binarizer(decisions[index], value) for index, value in enumerate(rewards)), "
      "rewards.dtype)",
      "return np.fromiter((self.binarizer(decisions[0], value) for index, value in enumerate(rewards)), "
      "rewards.dtype)", "R20.2", why="every reward converted with the first row's decision"),
    V("c20-m8", "C20", "linear", "_Linear._fit_arm", "y = rewards[indices]", "y = rewards[:len(X)]", "R20.2",
      why="rewards not selected with the arm's row selector"),
    V("c20-m9", "C20", "treebandit", "_TreeBandit._predict_contexts", "arms = deepcopy(self.arms)",
      "arms = sorted(deepcopy(self.arms), key=str)", "R20.1", why="leaf expectations computed in label order"),
    V("c20-b1", "C20", "rand", "_Random.predict_expectations",
      "expectations = [dict(zip(self.arms, exp)).copy() for exp in random_values]",
      "expectations = [{a: e for a, e in zip(self.arms, exp)} for exp in random_values]", benign=True),
    V("c20-b2", "C20", "base_mab", "BaseMAB._set_arms_as_trained", "arms = np.unique(decisions).tolist()",
      "arms = set(np.unique(decisions).tolist())", benign=True),
]

# ---------------------------------------------------------------------------------------------------- C19
VARIANTS += [
    V("c19-m1", "C19", "treebandit", "_TreeBandit.fit",
      "self.arm_to_leaf_to_rewards = {arm: defaultdict(partial(np.ndarray, 0)) for arm in self.arms}",
      "self.arm_to_leaf_to_rewards = {arm: defaultdict(lambda: np.ndarray(0)) for arm in self.arms}", "R19.1",
      why="lambda default factory cannot be pickled"),
    V("c19-m2", "C19", "base_mab", "BaseMAB._parallel_fit",
      "n_jobs = self._effective_jobs(len(self.arms), self.n_jobs)",
      "n_jobs = self._effective_jobs(len(self.arms), self.n_jobs)\n"
      "self._pool = Parallel(n_jobs=n_jobs, require='sharedmem')", "R19.1",
      why="a joblib Parallel object cached on the bandit"),
    V("c19-m3", "C19", "linear", "_Linear.__init__", "self.regression = regression",
      "self.regression = regression\n_Linear.factory.setdefault(regression, _RidgeRegression)", "R19.3",
      why="class-level registry mutated: state outside the graph"),
    V("c19-m4", "C19", "thompson", "_ThompsonSampling.__init__", "self.binarizer = binarizer",
      "self.binarizer = binarizer if binarizer is not None else (lambda arm, reward: reward)", "R19.1",
      why="lambda stored as default binarizer"),
    V("c19-m5", "C19", "approximate", "_LSHNearest._initialize",
      "self.table_to_hash_to_index = {k: defaultdict(list) for k in self.table_to_plane.keys()}",
      "self.table_to_hash_to_index = {k: defaultdict(self._new_bucket) for k in self.table_to_plane.keys()}", "R19.1",
      why="bound method of the bandit as default factory (cyclic, breaks deepcopy independence)"),
    V("c19-m6", "C19", "neighbors", "_Neighbors.fit", "self.decisions = decisions",
      "self.decisions = decisions\nself._row_ids = (i for i in range(len(decisions)))", "R19.1",
      why="generator object stored on the bandit"),
    V("c19-b1", "C19", "treebandit", "_TreeBandit.fit",
      "self.arm_to_leaf_to_rewards = {arm: defaultdict(partial(np.ndarray, 0)) for arm in self.arms}",
      "self.arm_to_leaf_to_rewards = {arm: defaultdict(partial(np.empty, 0)) for arm in self.arms}", benign=True),
]

# ---------------------------------------------------------------------------------------------------- C02
VARIANTS += [
    V("c02-m1", "C02", "linear", "_LinTS.predict", "beta_sampled = np.reshape(beta_sampled, x.shape)", "", "R2.1",
      why="one feature, several contexts: outer-product broadcast (the repaired defect)"),
    V("c02-m2", "C02", "linear", "_LinUCB.predict", "ucb = self.alpha * np.sqrt(np.sum(x_A_inv * x, axis=1))",
      "ucb = self.alpha * np.sqrt(np.sum(x_A_inv * x, axis=0))", "R2.1",
      why="bonus summed over contexts instead of features"),
    V("c02-m3", "C02", "linear", "_RidgeRegression.fit", "self.A = self.A + np.dot(Xt, X)",
      "self.A = self.A + np.dot(X, Xt)", "R2.1", why="Gram matrix of rows instead of features"),
    V("c02-m4", "C02", "linear", "_RidgeRegression.fit", "self.beta = np.dot(self.A_inv, self.Xty)",
      "self.beta = np.dot(self.Xty, self.A)", "R2.3", why="coefficients computed from A instead of its inverse"),
    V("c02-m5", "C02", "linear", "_RidgeRegression.init", "self.Xty = np.zeros(num_features)",
      "self.Xty = np.ones(num_features)", "R2.2", why="never-observed arm starts with non-zero X'y"),
    V("c02-m6", "C02", "linear", "_Linear._vectorized_predict_context",
      "arm_expectations[nonrandom_indices] = np.array([self.arm_to_model[arm].predict(nonrandom_context) "
      "for arm in arms]).T",
      "arm_expectations[nonrandom_indices] = np.array([self.arm_to_model[arm].predict(nonrandom_context) "
      "for arm in arms])", "R2.1", why="per-arm stack not transposed"),
    V("c02-m7", "C02", "linear", "_RidgeRegression.fit", "self.A_inv = np.linalg.inv(self.A)",
      "self.A_inv = np.linalg.inv(np.dot(Xt, X) + self.l2_lambda * np.identity(X.shape[1]))", "R2.3",
      why="inverse computed from the last chunk only"),
    V("c02-m8", "C02", "linear", "_RidgeRegression.predict", "return np.dot(x, self.beta)",
      "return np.dot(x, self.beta) + np.sum(self.Xty)", "R2.3", why="prediction reads an undocumented field"),
    V("c02-m9", "C02", "linear", "_Linear._uptake_new_arm",
      "if is_fitted:\n    self.arm_to_model[arm].init(num_features=self.num_features)", "", "R2.3",
      why="model of an arm added after fit is never initialised"),
    V("c02-m10", "C02", "linear", "_RidgeRegression.init",
      "self.scaler = StandardScaler() if self.scale else None",
      "self.scaler = StandardScaler(copy=False) if self.scale else None", "R2.5",
      also=[("linear", "_RidgeRegression._scale_predict_context",
             "return self.scaler.transform(x.astype('float64'))",
             "return self.scaler.transform(np.asarray(x, dtype='float64'))")],
      why="scaler without copy on an alias of the query matrix: later arms score contexts scaled twice (seeded "
          "change C02-inplace-scaler)"),
    V("c02-m11", "C02", "linear", "_LinUCB.predict", "x_A_inv = np.dot(x, self.A_inv)",
      "x *= 2.0\nx_A_inv = np.dot(x, self.A_inv)", "R2.5",
      why="query matrix rescaled in place: each later arm scores a matrix doubled once more"),
    V("c02-b3", "C02", "linear", "_RidgeRegression.init",
      "self.scaler = StandardScaler() if self.scale else None",
      "self.scaler = StandardScaler(copy=False) if self.scale else None", benign=True,
      why="copy=False alone is harmless: transform is given x.astype(...), a fresh array"),
    V("c02-b4", "C02", "linear", "_RidgeRegression._scale_predict_context",
      "return self.scaler.transform(x.astype('float64'))",
      "return self.scaler.transform(np.asarray(x, dtype='float64'))", benign=True,
      why="an aliasing operand alone is harmless: the default scaler copies"),
    V("c02-b1", "C02", "linear", "_LinUCB.predict", "x_A_inv = np.dot(x, self.A_inv)",
      "inverse = self.A_inv\nx_A_inv = np.dot(x, inverse)", benign=True),
    V("c02-b2", "C02", "linear", "_RidgeRegression.fit", "Xt = X.T", "Xt = X.T\npass", benign=True),
]

# ---------------------------------------------------------------------------------------------------- seeded changes
# Mutants that re-create the changes of the independent seeding agents (seeded/<id>/), and benign counterparts
# of the false alarms they exposed.
_COLD_LOOP = ("arm_to_distance = {}\n"
              "for arm in self.trained_arms:\n"
              "    if arm in self.arms:\n"
              "        arm_to_distance[arm] = distance_from_to[cold_arm][arm]")
_NN_BRANCH = ("nn_index = index + start_index\n"
              "row_neighborhood_stats = neighborhood_stats[nn_index]\n"
              "if row_neighborhood_stats and row_neighborhood_stats[predicted_arm]:\n"
              "    arm_to_rewards[predicted_arm].append(row_neighborhood_stats[predicted_arm][stat])\n"
              "else:\n"
              "    arm_to_rewards[predicted_arm].append(arm_to_stats[predicted_arm][stat])")
VARIANTS += [
    V("c04-m9", "C04", "base_mab", "BaseMAB._get_cold_arm_to_warm_arm", _COLD_LOOP,
      "arm_to_distance = {arm: distance_from_to[cold_arm][arm] "
      "for arm in set(self.trained_arms).intersection(self.arms)}", "R4.3",
      why="donor picked by set iteration order: depends on PYTHONHASHSEED for str arms (seed C04-set-order)"),
    V("c13-b2", "C13", "base_mab", "BaseMAB._get_cold_arm_to_warm_arm", _COLD_LOOP,
      "arm_to_distance = {arm: distance_from_to[cold_arm][arm] "
      "for arm in set(self.trained_arms).intersection(self.arms)}", benign=True,
      why="for C13 the donor is still a nearest trained arm (the C04 seed must not alarm C13)"),
    V("c13-b3", "C13", "base_mab", "BaseMAB._get_cold_arm_to_warm_arm", _COLD_LOOP,
      "donors = [a for a in self.trained_arms if a in self.arms]\n"
      "arm_to_distance = {a: distance_from_to[cold_arm][a] for a in donors}", benign=True),
    V("c13-m10", "C13", "base_mab", "BaseMAB._get_cold_arm_to_warm_arm", _COLD_LOOP,
      "arm_to_distance = {arm: distance_from_to[cold_arm][arm] for arm in self.arms "
      "if arm not in self.cold_arms}", "R13.3",
      why="warm but untrained arms donate their second-hand state (seed C13-warm-donors)"),
    V("c16-m11", "C16", "simulator", "default_evaluator", _NN_BRANCH,
      "row_neighborhood_stats = neighborhood_stats[index + start_index]\n"
      "nn_stat = row_neighborhood_stats[predicted_arm].get(stat) if row_neighborhood_stats else None\n"
      "arm_to_rewards[predicted_arm].append(nn_stat or arm_to_stats[predicted_arm][stat])", "R16.5",
      why="a neighbourhood statistic of exactly 0 is treated as missing (seed C16-zero-stat)"),
    V("c16-b3", "C16", "simulator", "default_evaluator", _NN_BRANCH,
      "row_stats = neighborhood_stats[index + start_index]\n"
      "if row_stats and predicted_arm in row_stats and row_stats[predicted_arm]:\n"
      "    arm_to_rewards[predicted_arm].append(row_stats[predicted_arm][stat])\n"
      "else:\n"
      "    arm_to_rewards[predicted_arm].append(arm_to_stats[predicted_arm][stat])", benign=True),
    V("c15-m11", "C15", "simulator", "_NeighborsSimulator._calculate_distances_of_batch",
      "distances = [None] * len(contexts)\n"
      "for index, row in enumerate(contexts):\n"
      "    row_2d = row[np.newaxis, :]\n"
      "    distances[index] = cdist(self.contexts, row_2d, metric=self.metric).reshape(-1)\n"
      "return distances",
      "return list(cdist(contexts, self.contexts, metric=self.metric))", "R15.1",
      why="batched distance cache: seuclidean/mahalanobis distances depend on the chunk (seed C15-batched-cache)"),
    V("c18-m9", "C18", "clusters", "_Clusters.__init__",
      "self.kmeans = KMeans(n_clusters, random_state=rng.seed, n_init=10)",
      "self.kmeans = KMeans(n_clusters, random_state=rng.seed, n_init=10, copy_x=False)", "R18.1",
      why="k-means centres the caller's context buffer in place (seed C18-kmeans-copy-x)"),
    V("c18-m10", "C18", "mab", "MAB.__convert_context",
      "if not self.is_contextual:\n    return np.asarray(contexts.values, order='C').reshape(-1, 1)", "", "R18.4",
      why="pd.Series contexts for a context-free policy raise AttributeError (the repaired defect)"),
    V("c14-m9", "C14", "mab", "MAB.add_arm",
      "if isinstance(self._imp, (_LSHNearest, _KNearest, _Radius, _TreeBandit)):\n"
      "    lp = self._imp.lp\n"
      "elif isinstance(self._imp, _Clusters):\n"
      "    lp = self._imp.lp_list[0]\n"
      "else:\n"
      "    lp = self._imp",
      "lp = self._imp if isinstance(self._imp, _ThompsonSampling) else self._imp.lp", "R14.2",
      why="add_arm(arm, binarizer) under Clusters raises AttributeError (the repaired defect)"),
    V("c14-m10", "C14", "neighbors", "_Neighbors.partial_fit",
      "if isinstance(self.lp, _ThompsonSampling) and self.lp.binarizer:\n"
      "    rewards = self._binarize_ts_rewards(decisions, rewards)",
      "if isinstance(self.lp, _ThompsonSampling) and self.lp.binarizer:\n"
      "    rewards = self._binarize_ts_rewards(np.concatenate((self.decisions, decisions)), rewards)", "R14.3",
      why="new rewards are binarized against the arms of the oldest stored rows (seeds C06/C14/C20)"),
    V("c12-m10", "C12", "clusters", "_Clusters._fit_operation", "self.kmeans.fit(self.contexts)",
      "if isinstance(self.kmeans, MiniBatchKMeans) and len(self.contexts) > self.n_clusters:\n"
      "    self.kmeans.partial_fit(self.contexts[-self.n_clusters:])\n"
      "else:\n"
      "    self.kmeans.fit(self.contexts)", None,
      why="mini-batch k-means updated with part of the history: labels_ no longer cover the stored rows (seed "
          "C12-minibatch-partial)"),
    V("c05-m14", "C05", "approximate", "_LSHNearest._fit_operation",
      "hash_values = list(chain.from_iterable((t for t in hash_values)))",
      "merged = {}\nfor t in hash_values:\n    merged.update(dict(enumerate(t)))\nhash_values = list(merged.values())",
      "R5.2", why="per-job results merged through dict.update: later partitions overwrite earlier ones (seed C11)"),
    V("c05-b4", "C05", "approximate", "_LSHNearest._fit_operation",
      "hash_values = list(chain.from_iterable((t for t in hash_values)))",
      "hash_values = [h for t in hash_values for h in t]", benign=True),
]

# ---------------------------------------------------------------------------------------------------- round-2 seeds
VARIANTS += [
    V("c01-m11", "C01", "mab", "MAB.remove_arm", "self.arms.remove(arm)\nself._imp.remove_arm(arm)",
      "self._imp.remove_arm(arm)\nself.arms.remove(arm)", "R1.7",
      why="Popularity's uniform share 1/len(arms) computed while the retired arm is still in the shared list "
          "(seed C01b)"),
    V("c02-m12", "C02", "linear", "_Linear._uptake_new_arm",
      "self.arm_to_model[arm] = _Linear.factory.get(self.regression)(self.rng, self.alpha, self.l2_lambda, "
      "self.scale)",
      "self.arm_to_model[arm] = _Linear.factory.get(self.regression)(self.rng, alpha=self.alpha, scale=self.scale)",
      "R2.6", why="added arm regressed with the default l2_lambda (seed C02b)"),
    V("c02-b5", "C02", "linear", "_Linear._uptake_new_arm",
      "self.arm_to_model[arm] = _Linear.factory.get(self.regression)(self.rng, self.alpha, self.l2_lambda, "
      "self.scale)",
      "model_class = _Linear.factory.get(self.regression)\n"
      "self.arm_to_model[arm] = model_class(self.rng, alpha=self.alpha, l2_lambda=self.l2_lambda, scale=self.scale)",
      benign=True),
    V("c08-m13", "C08", "popularity", "_Popularity.predict_expectations",
      "alpha = [v + np.finfo(float).eps for v in self.arm_to_expectation.values()]",
      "if getattr(self, '_alpha', None) is None:\n"
      "    self._alpha = [v + np.finfo(float).eps for v in self.arm_to_expectation.values()]\n"
      "alpha = self._alpha", "R8.6",
      why="concentration vector cached on the bandit and never refreshed by add_arm (seed C08b)"),
    V("c09-m8", "C09", "treebandit", "_TreeBandit._predict_contexts",
      "if isinstance(self.lp, _EpsilonGreedy) and self.rng.rand() < self.lp.epsilon:\n"
      "    predictions[index] = self.arms[self.rng.randint(0, len(self.arms))]\n"
      "else:\n"
      "    predictions[index] = argmax(arm_to_expectation)",
      "if self.rng.rand() < getattr(self.lp, 'epsilon', 0):\n"
      "    predictions[index] = self.arms[self.rng.randint(0, len(self.arms))]\n"
      "else:\n"
      "    predictions[index] = argmax(arm_to_expectation)", "R9.2",
      why="predict draws once more per row than predict_expectations for every leaf policy (seed C09b)"),
    V("c05-m15", "C05", "simulator", "_NeighborsSimulator._calculate_distances_of_batch",
      "distances = [None] * len(contexts)\n"
      "for index, row in enumerate(contexts):\n"
      "    row_2d = row[np.newaxis, :]\n"
      "    distances[index] = cdist(self.contexts, row_2d, metric=self.metric).reshape(-1)\n"
      "return distances",
      "return list(cdist(self.contexts, contexts, metric=self.metric).T)", "R5.2",
      why="simulator distance task computes from its whole chunk: depends on n_jobs (seed C05b)"),
    V("c13-b4", "C13", "popularity", "_Popularity._drop_existing_arm",
      "self._normalize_expectations()", "self._normalize_expectations()\nself._cache = None", benign=True,
      why="an invalidation store is not a write to an arm's learned state"),
    V("c05-b5", "C05", "popularity", "_Popularity._normalize_expectations",
      "total = sum(self.arm_to_expectation.values())",
      "total = sum(self.arm_to_expectation.values())\nself._last_total = None", benign=True,
      why="a field reset by every fit is not carried across the rows of a worker"),
]

VARIANTS += [
    V("c13-m11", "C13", "base_mab", "BaseMAB.remove_arm", "self.arm_to_status.pop(arm)",
      "self.arm_to_status.pop(arm)\n"
      "for status in self.arm_to_status.values():\n"
      "    if status[WARM_STARTED_BY] == arm:\n"
      "        status[IS_WARM] = False\n"
      "        status[WARM_STARTED_BY] = None", "R13.5",
      why="arms warm started by the removed arm become cold again (seed C13b)"),
    V("c16-m12", "C16", "simulator", "_NeighborsSimulator._get_nhood_predictions", "arm_to_stat[arm] = {}",
      "arm_to_stat[arm] = {'count': 0, 'sum': 0, 'min': 0, 'max': 0, 'mean': 0, 'std': 0}", "R16.6",
      why="truthy record for an arm without observation in the neighbourhood (seed C16b)"),
    V("c20-m10", "C20", "base_mab", "BaseMAB._get_cold_arm_to_warm_arm",
      "closest_arm = argmin(arm_to_distance)\nclosest_distance = distance_from_to[cold_arm][closest_arm]",
      "closest_distance, closest_arm = min((d, a) for a, d in arm_to_distance.items())", "R20.1",
      why="ties between equally close donors are broken by comparing the labels (seed C20b)"),
    V("c11-m10", "C11", "neighbors", "_Neighbors._drop_existing_arm", "self.lp.remove_arm(arm)",
      "self.lp.remove_arm(arm)\nkeep = self.decisions != arm\n"
      "self.decisions, self.rewards, self.contexts = self.decisions[keep], self.rewards[keep], self.contexts[keep]",
      "R11.6", why="rows removed from the history: the positions filed in the LSH buckets shift (seed C11b)"),
    V("c15-m12", "C15", "base_mab", "BaseMAB._parallel_predict",
      "n_jobs, n_contexts, starts = self._partition_contexts(n_contexts)",
      "n_jobs, n_contexts, starts = self._partition_contexts(n_contexts)\n"
      "offsets = [i * (sum(n_contexts) // n_jobs) for i in range(n_jobs)]", None,
      why="placeholder edit that keeps behaviour: see c15-m13 for the offset defect"),
]
VARIANTS = [v for v in VARIANTS if v.vid != "c15-m12"]
VARIANTS += [
    V("c15-m13", "C15", "base_mab", "BaseMAB._parallel_predict", _PP_OLD,
      _PP_OLD.replace("starts[i])", "i * (total_contexts // n_jobs))"), "R15.8",
      why="start_index of another partition: the simulator reads the cached distances of other rows (seed C15b)"),
]

# ---------------------------------------------------------------------------------------------------- round-3 seeds
VARIANTS += [
    V("c02-m13", "C02", "linear", "fix_small_variance", "mask = scaler.scale_ <= SCALER_TOLERANCE",
      "mask = scaler.var_ <= SCALER_TOLERANCE", "R2.7",
      why="features with a std in (1e-6, 1e-3] are no longer standardised (seed C02c)"),
    V("c02-b6", "C02", "linear", "fix_small_variance", "mask = scaler.scale_ <= SCALER_TOLERANCE",
      "too_small = scaler.scale_ <= SCALER_TOLERANCE\nmask = too_small", benign=True),
    V("c06-m14", "C06", "neighbors", "_Neighbors.partial_fit",
      "if isinstance(self.lp, _ThompsonSampling) and self.lp.binarizer:\n"
      "    rewards = self._binarize_ts_rewards(decisions, rewards)",
      "if isinstance(self.lp, _ThompsonSampling) and self.lp.binarizer:\n"
      "    rewards = self._binarize_ts_rewards(self.decisions, rewards)", "R6.7",
      why="a chunk's rewards are converted with the decisions of the stored history (seed C06c)"),
    V("c03-m10", "C03", "neighbors", "_Radius._predict_contexts",
      "if indices[0].size > 0:\n"
      "    predictions[index] = self._get_nhood_predictions(lp, indices, row_2d, is_predict)\n"
      "else:\n"
      "    predictions[index] = self._get_no_nhood_predictions(lp, is_predict)",
      "if np.any(indices):\n"
      "    predictions[index] = self._get_nhood_predictions(lp, indices, row_2d, is_predict)\n"
      "else:\n"
      "    predictions[index] = self._get_no_nhood_predictions(lp, is_predict)", "R3.6",
      why="a neighbourhood consisting of stored row 0 only is treated as empty (seed C03c)"),
    V("c01-m12", "C01", "ucb", "_UCB1._drop_existing_arm", "self.arm_to_count.pop(arm)",
      "self.total_count -= self.arm_to_count.pop(arm)", None,
      why="N shrinks when an observed arm is removed: the bonus of the remaining arms is too small (seed C01c)"),
    V("c08-b3", "C08", "ucb", "_UCB1._drop_existing_arm", "self.arm_to_count.pop(arm)",
      "removed = self.arm_to_count.pop(arm)\nself.last_removed_count = removed", benign=True,
      why="a scalar computed from an arm's entry has no arm baked in (R8.6 must stay silent)"),
    V("c05-m16", "C05", "base_mab", "BaseMAB._parallel_predict", "total_contexts = sum(n_contexts)",
      "total_contexts = n_jobs * n_contexts[0]", "R5.2",
      why="number of seeds drawn depends on how the rows split over the jobs (seed C05c)"),
]
VARIANTS += [
    V("c08-m14", "C08", "base_mab", "BaseMAB._partition_contexts",
      "n_contexts_per_job[:n_contexts % n_jobs] += 1",
      "n_contexts_per_job[:n_contexts % (n_contexts // n_jobs)] += 1", "R8.7",
      why="remainder taken modulo the chunk size: the last rows get no result (seed C08c)"),
    V("c08-b4", "C08", "base_mab", "BaseMAB._partition_contexts",
      "n_contexts_per_job = np.full(n_jobs, n_contexts // n_jobs, dtype=int)",
      "quotient = n_contexts // n_jobs\nn_contexts_per_job = np.full(n_jobs, quotient, dtype=int)", benign=True),
    V("c15-m14", "C15", "simulator", "Simulator._train_bandits",
      "mab = _KNearestSimulator(imp.rng, imp.arms, imp.n_jobs, imp.backend, imp.lp, imp.k, imp.metric, "
      "is_quick=self.is_quick)",
      "mab = _KNearestSimulator(imp.rng, self.arms, imp.n_jobs, imp.backend, imp.lp, imp.k, imp.metric, "
      "is_quick=self.is_quick)", "R15.6",
      why="wrapper built with the Simulator's arm list instead of the replaced bandit's (seed C15c)"),
    V("c16-m13", "C16", "simulator", "Simulator._online_test_bandits_chunks",
      "self._get_partial_evaluation(name, i, batch_decisions, batch_predictions[name], batch_rewards, start, nn)",
      "self._get_partial_evaluation(name, i, batch_decisions, batch_predictions[name], batch_rewards, "
      "i * len(batch_decisions), nn)", "R16.7",
      why="row offset of a ragged last batch is too small (seed C16c)"),
    V("c17-m9", "C17", "mab", "MAB._validate_fit_args",
      "check_true(len(decisions) == len(contexts) or (len(decisions) == 1 and isinstance(contexts, pd.Series)), "
      "ValueError('Decisions and contexts should be same length: len(decision) = ' + str(len(decisions)) + "
      "' vs. len(contexts) = ' + str(len(contexts))))",
      "check_true(len(decisions) == len(contexts) or (len(decisions) >= 1 and isinstance(contexts, pd.Series)), "
      "ValueError('Decisions and contexts should be same length: len(decision) = ' + str(len(decisions)) + "
      "' vs. len(contexts) = ' + str(len(contexts))))", "R17.5",
      why="a Series of contexts of any length passes the facade and fails inside training (seed C17c)"),
    V("c18-m11", "C18", "mab", "MAB.__convert_context", "num_features = self._imp.contexts.shape[1]",
      "num_features = self._imp.contexts.shape[0]", "R18.5",
      why="stored rows counted as features: Series contexts reshaped the wrong way (seed C18c)"),
]
