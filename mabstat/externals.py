# -*- coding: utf-8 -*-
"""Classification of the external callees used by mabwiser (DESIGN appendix B).

ret:   'fresh'   result owns new storage (numpy allocation, copy, scalar)
       'alias0'  result may alias (is a view of) its first positional argument / the receiver
       'elem0'   result is an element of the first argument
       'shallow' fresh shell whose elements alias the first argument's elements
mut:   positions of arguments (0-based, 'recv' for the receiver) the callee mutates in place
An external that is not listed is treated as pure-fresh and counted in the evidence as unclassified."""

# fully qualified functions -------------------------------------------------------------------------------
FUNCS = {
    # numpy, pure-fresh
    "numpy.array": dict(ret="fresh", labelflow=True), "numpy.concatenate": dict(ret="fresh"), "numpy.append": dict(ret="fresh"),
    "numpy.unique": dict(ret="fresh", labelflow=True, tag="unique"), "numpy.where": dict(ret="fresh", tag="indexarr"),
    "numpy.dot": dict(ret="fresh"), "numpy.sum": dict(ret="fresh"), "numpy.sqrt": dict(ret="fresh"),
    "numpy.square": dict(ret="fresh"), "numpy.zeros": dict(ret="fresh"), "numpy.identity": dict(ret="fresh"),
    "numpy.empty": dict(ret="fresh"), "numpy.full": dict(ret="fresh"), "numpy.cumsum": dict(ret="fresh"),
    "numpy.argmax": dict(ret="fresh", tag="indexarr"), "numpy.argpartition": dict(ret="fresh", tag="indexarr"),
    "numpy.argsort": dict(ret="fresh", tag="indexarr"), "numpy.fromiter": dict(ret="fresh"),
    "numpy.isnan": dict(ret="fresh"), "numpy.isfinite": dict(ret="fresh"), "numpy.isclose": dict(ret="fresh"),
    "numpy.quantile": dict(ret="fresh"), "numpy.setdiff1d": dict(ret="fresh"), "numpy.linalg.inv": dict(ret="fresh"),
    "numpy.iinfo": dict(ret="fresh"), "numpy.finfo": dict(ret="fresh"), "numpy.ndarray": dict(ret="fresh"),
    "numpy.less_equal": dict(ret="fresh", tag="mask"), "numpy.ones": dict(ret="fresh"),
    "numpy.arange": dict(ret="fresh"), "numpy.mean": dict(ret="fresh"), "numpy.exp": dict(ret="fresh"),
    "numpy.log": dict(ret="fresh"), "numpy.abs": dict(ret="fresh"), "numpy.max": dict(ret="fresh"),
    "numpy.min": dict(ret="fresh"), "numpy.vstack": dict(ret="fresh"), "numpy.hstack": dict(ret="fresh"),
    "numpy.stack": dict(ret="fresh"), "numpy.copy": dict(ret="fresh"), "numpy.matmul": dict(ret="fresh"),
    "numpy.multiply": dict(ret="fresh"), "numpy.add": dict(ret="fresh"), "numpy.outer": dict(ret="fresh"),
    "numpy.linalg.solve": dict(ret="fresh"), "numpy.linalg.pinv": dict(ret="fresh"), "numpy.eye": dict(ret="fresh"),
    "numpy.sign": dict(ret="fresh"), "numpy.flatnonzero": dict(ret="fresh", tag="indexarr"),
    "numpy.nonzero": dict(ret="fresh", tag="indexarr"), "numpy.zeros_like": dict(ret="fresh"),
    "numpy.full_like": dict(ret="fresh"), "numpy.ones_like": dict(ret="fresh"), "numpy.sort": dict(ret="fresh", labelflow=True),
    "numpy.isin": dict(ret="fresh", tag="mask"), "numpy.in1d": dict(ret="fresh", tag="mask"),
    "numpy.logical_not": dict(ret="fresh", tag="mask"), "numpy.logical_and": dict(ret="fresh", tag="mask"),
    "numpy.greater": dict(ret="fresh", tag="mask"), "numpy.less": dict(ret="fresh", tag="mask"),
    "numpy.any": dict(ret="fresh"), "numpy.all": dict(ret="fresh"), "numpy.atleast_2d": dict(ret="alias0"),
    "numpy.einsum": dict(ret="fresh"), "numpy.diag": dict(ret="fresh"), "numpy.trace": dict(ret="fresh"),
    "numpy.nan_to_num": dict(ret="fresh"), "numpy.clip": dict(ret="fresh"), "numpy.count_nonzero": dict(ret="fresh"),
    # numpy, views
    "numpy.asarray": dict(ret="alias0", labelflow=True), "numpy.squeeze": dict(ret="alias0"), "numpy.ravel": dict(ret="alias0"),
    "numpy.reshape": dict(ret="alias0"), "numpy.transpose": dict(ret="alias0"),
    "numpy.ascontiguousarray": dict(ret="alias0"), "numpy.asfortranarray": dict(ret="alias0"),
    # numpy, mutating an argument (none used on the pinned tree; listed so that introducing one is seen)
    "numpy.put": dict(ret="fresh", mut=[0]), "numpy.copyto": dict(ret="fresh", mut=[0]),
    "numpy.place": dict(ret="fresh", mut=[0]), "numpy.fill_diagonal": dict(ret="fresh", mut=[0]),
    "numpy.putmask": dict(ret="fresh", mut=[0]), "numpy.random.shuffle": dict(ret="fresh", mut=[0], nondet=True),
    "random.shuffle": dict(ret="fresh", mut=[0], nondet=True),
    # generators
    "numpy.random.default_rng": dict(ret="fresh", cls="ext:numpy.random.Generator"),
    # scipy / sklearn / stdlib
    "scipy.spatial.distance.cdist": dict(ret="fresh"),
    "sklearn.metrics.confusion_matrix": dict(ret="fresh"),
    "sklearn.model_selection.train_test_split": dict(ret="fresh"),
    "sklearn.cluster.KMeans": dict(ret="fresh", cls="ext:sklearn.KMeans"),
    "sklearn.cluster.MiniBatchKMeans": dict(ret="fresh", cls="ext:sklearn.MiniBatchKMeans"),
    "sklearn.tree.DecisionTreeRegressor": dict(ret="fresh", cls="ext:sklearn.DecisionTreeRegressor"),
    "sklearn.preprocessing.StandardScaler": dict(ret="fresh", cls="ext:sklearn.StandardScaler"),
    "collections.defaultdict": dict(ret="fresh", cls="dict"),
    "functools.partial": dict(ret="fresh"),
    "itertools.chain.from_iterable": dict(ret="shallow_flat"),
    "copy.copy": dict(ret="shallow"),
    "math.sqrt": dict(ret="fresh"), "math.log": dict(ret="fresh"), "math.exp": dict(ret="fresh"),
    "math.ceil": dict(ret="fresh"), "math.floor": dict(ret="fresh"), "math.isnan": dict(ret="fresh"),
    "multiprocessing.cpu_count": dict(ret="fresh", procdep=True),
    "logging.getLogger": dict(ret="fresh", cls="ext:logger"), "logging.StreamHandler": dict(ret="fresh"),
    "logging.Formatter": dict(ret="fresh"), "logging.FileHandler": dict(ret="fresh"),
    "pandas.DataFrame": dict(ret="fresh"), "pandas.Series": dict(ret="fresh"),
    "matplotlib.pyplot.bar": dict(ret="fresh"), "matplotlib.pyplot.xlabel": dict(ret="fresh"),
    "matplotlib.pyplot.ylabel": dict(ret="fresh"), "matplotlib.pyplot.show": dict(ret="fresh"),
    "matplotlib.pyplot.xticks": dict(ret="fresh"), "matplotlib.pyplot.close": dict(ret="fresh"),
    "seaborn.lineplot": dict(ret="fresh"),
}

BUILTINS = {
    "len": dict(ret="fresh"), "range": dict(ret="fresh"), "slice": dict(ret="fresh", tag="sliceobj"), "sum": dict(ret="fresh"), "min": dict(ret="elem0"),
    "max": dict(ret="elem0"), "abs": dict(ret="fresh"), "int": dict(ret="fresh"), "float": dict(ret="fresh"),
    "str": dict(ret="fresh"), "bool": dict(ret="fresh"), "isinstance": dict(ret="fresh"),
    "issubclass": dict(ret="fresh"), "callable": dict(ret="fresh"), "hasattr": dict(ret="fresh"),
    "type": dict(ret="fresh"), "print": dict(ret="fresh"), "any": dict(ret="fresh"), "all": dict(ret="fresh"),
    "list": dict(ret="shallow", cls="list", labelflow=True), "tuple": dict(ret="shallow", cls="tuple", labelflow=True),
    "set": dict(ret="shallow", cls="set", labelflow=True), "frozenset": dict(ret="shallow", cls="set", labelflow=True),
    "dict": dict(ret="shallow", cls="dict"), "sorted": dict(ret="shallow", cls="list", labelflow=True),
    "reversed": dict(ret="shallow", cls="list", labelflow=True), "enumerate": dict(ret="enumerate"), "zip": dict(ret="zip"),
    "iter": dict(ret="alias0", labelflow=True), "next": dict(ret="elem0"), "round": dict(ret="fresh"), "id": dict(ret="fresh",
                                                                                                 procdep=True),
    "hash": dict(ret="fresh", procdep=True), "repr": dict(ret="fresh"), "divmod": dict(ret="fresh"),
    "pow": dict(ret="fresh"), "map": dict(ret="fresh"), "filter": dict(ret="shallow"),
    "getattr": dict(ret="dyn"), "setattr": dict(ret="dyn"), "vars": dict(ret="dyn"), "globals": dict(ret="dyn"),
    "eval": dict(ret="dyn"), "exec": dict(ret="dyn"), "locals": dict(ret="dyn"), "delattr": dict(ret="dyn"),
    "ValueError": dict(ret="fresh"), "TypeError": dict(ret="fresh"), "NotImplementedError": dict(ret="fresh"),
    "Exception": dict(ret="fresh"), "AssertionError": dict(ret="fresh"), "IndexError": dict(ret="fresh"),
    "KeyError": dict(ret="fresh"), "RuntimeError": dict(ret="fresh"), "object": dict(ret="fresh"),
    "super": dict(ret="super"),
}

# methods on objects that are not program classes (numpy arrays, containers, sklearn estimators, generators) -----
METHODS = {
    # pure, fresh
    "sum": dict(ret="fresh"), "mean": dict(ret="fresh"), "std": dict(ret="fresh"), "min": dict(ret="fresh"),
    "max": dict(ret="fresh"), "any": dict(ret="fresh"), "all": dict(ret="fresh"),
    "tolist": dict(ret="shallow", cls="list", labelflow=True),
    "astype": dict(ret="fresh"), "nonzero": dict(ret="fresh", tag="indexarr"), "argmax": dict(ret="fresh"),
    "argmin": dict(ret="fresh"), "index": dict(ret="fresh"), "count": dict(ret="fresh"), "format": dict(ret="fresh"),
    "join": dict(ret="fresh"), "split": dict(ret="fresh"), "startswith": dict(ret="fresh"),
    "endswith": dict(ret="fresh"), "lower": dict(ret="fresh"), "upper": dict(ret="fresh"),
    "dot": dict(ret="fresh"), "cumsum": dict(ret="fresh"), "round": dict(ret="fresh"), "item": dict(ret="fresh"),
    "isoformat": dict(ret="fresh"), "flatten": dict(ret="fresh"), "conj": dict(ret="fresh"),
    # views / aliases
    "reshape": dict(ret="alias0"), "ravel": dict(ret="alias0"), "squeeze": dict(ret="alias0"),
    "transpose": dict(ret="alias0"), "view": dict(ret="alias0"),
    "keys": dict(ret="keys0", labelflow=True), "values": dict(ret="values0"), "items": dict(ret="items0"),
    "get": dict(ret="elem0"), "copy": dict(ret="shallow", labelflow=True), "fromkeys": dict(ret="fresh", cls="dict"),
    "from_iterable": dict(ret="shallow_flat"),
    # set algebra: a new set whose elements come from the receiver (and the argument for union)
    "intersection": dict(ret="shallow", cls="set", labelflow=True),
    "difference": dict(ret="shallow", cls="set", labelflow=True),
    "union": dict(ret="shallow", cls="set", labelflow=True),
    "symmetric_difference": dict(ret="shallow", cls="set", labelflow=True),
    # mutate the receiver
    "append": dict(ret="fresh", mut=["recv"], store_args=True), "extend": dict(ret="fresh", mut=["recv"],
                                                                                store_args="elems"),
    "insert": dict(ret="fresh", mut=["recv"], store_args=True), "remove": dict(ret="fresh", mut=["recv"]),
    "pop": dict(ret="elem0", mut=["recv"]), "popitem": dict(ret="elem0", mut=["recv"]),
    "clear": dict(ret="fresh", mut=["recv"]), "sort": dict(ret="fresh", mut=["recv"]),
    "reverse": dict(ret="fresh", mut=["recv"]), "update": dict(ret="fresh", mut=["recv"], store_args="elems"),
    "setdefault": dict(ret="elem0", mut=["recv"], store_args=True), "add": dict(ret="fresh", mut=["recv"],
                                                                                   store_args=True),
    "discard": dict(ret="fresh", mut=["recv"]), "fill": dict(ret="fresh", mut=["recv"]),
    "resize": dict(ret="fresh", mut=["recv"]), "itemset": dict(ret="fresh", mut=["recv"]),
    "put": dict(ret="fresh", mut=["recv"]), "partition": dict(ret="fresh", mut=["recv"]),
    "setflags": dict(ret="fresh", mut=["recv"]), "shuffle": dict(ret="fresh", mut=[0]),
    # sklearn estimators
    "fit": dict(ret="alias0", mut=["recv"], refit=True), "partial_fit": dict(ret="alias0", mut=["recv"]),
    "fit_transform": dict(ret="fresh", mut=["recv"], refit=True),
    "predict": dict(ret="fresh"), "apply": dict(ret="fresh"), "transform": dict(ret="fresh"),
    "fit_predict": dict(ret="fresh", mut=["recv"], refit=True),
    # numpy Generator draws (advance the stream only)
    "random": dict(ret="fresh", draw=True), "integers": dict(ret="fresh", draw=True),
    "choice": dict(ret="fresh", draw=True), "beta": dict(ret="fresh", draw=True),
    "standard_normal": dict(ret="fresh", draw=True), "multivariate_normal": dict(ret="fresh", draw=True),
    "dirichlet": dict(ret="fresh", draw=True), "normal": dict(ret="fresh", draw=True),
    "uniform": dict(ret="fresh", draw=True), "permutation": dict(ret="fresh", draw=True),
    # logging
    "info": dict(ret="fresh", log=True), "debug": dict(ret="fresh", log=True), "warning": dict(ret="fresh", log=True),
    "error": dict(ret="fresh", log=True), "setLevel": dict(ret="fresh", log=True),
    "addHandler": dict(ret="fresh", log=True), "setFormatter": dict(ret="fresh", log=True),
}

# sources of run-to-run / process-to-process nondeterminism (R4.1)
NONDET_PREFIXES = ("numpy.random.", "random.", "time.", "uuid.", "secrets.", "os.urandom", "os.getpid", "datetime.")
NONDET_ALLOWED = {"numpy.random.default_rng"}

MUTATOR_METHODS = {k for k, v in METHODS.items() if "recv" in v.get("mut", [])}
DRAW_METHODS = {k for k, v in METHODS.items() if v.get("draw")}
