# -*- coding: utf-8 -*-
"""Statement execution of the abstract interpreter."""

import ast

from .model import AnalysisError
from .values import EMPTY, NOCONST, Ev, Guard, Obj, Val, join, join_all
from .interp import Frame


def join_env(a, b):
    out = {}
    for k in set(a) | set(b):
        va, vb = a.get(k), b.get(k)
        if va is None or vb is None:
            out[k] = (va or vb).add_tags("maybe-unbound")
        else:
            out[k] = join(va, vb)
    return out


class StmtMixin:

    def _new_loop_id(self):
        self.loop_counter += 1
        return self.loop_counter

    # ------------------------------------------------------------------------------------------ blocks
    def exec_block(self, stmts) -> bool:
        """Returns True when control may fall through the end of the block."""
        for st in stmts:
            m = getattr(self, "s_" + type(st).__name__, None)
            if m is None:
                raise AnalysisError("unsupported statement %s at %s" % (type(st).__name__,
                                                                        self.prog.loc(self.frame.fn, st)))
            if m(st) is False:
                return False
        return True

    def s_Pass(self, st):
        return True

    def s_Expr(self, st):
        if isinstance(st.value, ast.Constant):
            return True
        self.eval(st.value)
        return True

    def s_Import(self, st):
        for a in st.names:
            local = a.asname or a.name.split(".")[0]
            q = a.name if a.asname else a.name.split(".")[0]
            self.frame.env[local] = Val(callee=[("ext", q)], tags=["module:" + q])
        return True

    def s_ImportFrom(self, st):
        mod = st.module or ""
        for a in st.names:
            local = a.asname or a.name
            if mod.startswith("mabwiser"):
                target = self.prog.modules.get(mod.split(".", 1)[1]) if "." in mod else None
                if target is not None and a.name in target.classes:
                    self.frame.env[local] = Val(callee=[("class", target.classes[a.name])],
                                                const=("class", a.name))
                    continue
                if target is not None and a.name in target.functions:
                    self.frame.env[local] = Val(callee=[("func", target.functions[a.name])])
                    continue
            self.frame.env[local] = Val(callee=[("ext", mod + "." + a.name)])
        return True

    def s_Global(self, st):
        raise AnalysisError("global statement at %s" % self.prog.loc(self.frame.fn, st))

    s_Nonlocal = s_Global

    def s_Assert(self, st):
        self.eval(st.test)
        return True

    def s_Delete(self, st):
        for t in st.targets:
            if isinstance(t, ast.Subscript):
                base = self.eval(t.value)
                key = self.eval(t.slice)
                self._mut_store(base, "del", EMPTY, st)
            elif isinstance(t, ast.Attribute):
                base = self.eval(t.value)
                self.write_field(base, t.attr, Val(tags=["deleted"]), st, kind="del")
            elif isinstance(t, ast.Name):
                self.frame.env.pop(t.id, None)
        return True

    def s_Return(self, st):
        v = self.eval(st.value) if st.value is not None else Val(const=None)
        fr = self.frame
        fr.ret = join(fr.ret, v)
        fr.ret_heaps.append(self.heap.copy())
        self.emit("return", st, val=v)
        return False

    def s_Raise(self, st):
        if st.exc is not None:
            self.eval(st.exc)
        self.emit("raise", st)
        return False

    def s_Continue(self, st):
        self._pending_loop_envs[-1].append((dict(self.frame.env), self.heap.copy()))
        return False

    def s_Break(self, st):
        self._pending_loop_envs[-1].append((dict(self.frame.env), self.heap.copy()))
        return False

    def s_FunctionDef(self, st):
        raise AnalysisError("nested function %s at %s (closures are not modelled)" %
                            (st.name, self.prog.loc(self.frame.fn, st)))

    s_AsyncFunctionDef = s_FunctionDef
    s_ClassDef = s_FunctionDef

    # ------------------------------------------------------------------------------------------ assignment
    def s_Assign(self, st):
        v = self.eval(st.value)
        for t in st.targets:
            self.assign(t, v, st)
        return True

    def s_AnnAssign(self, st):
        if st.value is not None:
            v = self.eval(st.value)
            self.assign(st.target, v, st)
        return True

    def s_AugAssign(self, st):
        t = st.target
        rhs = self.eval(st.value)
        if isinstance(t, ast.Name):
            old = self.frame.env.get(t.id, Val())
            if any(self.obj(o).cls == "list" for o in old.refs) and isinstance(st.op, ast.Add):
                # in-place extension of a list object
                self._mut_store(old, "mutcall:+=", self.read_elem(rhs) if rhs.aliases() else rhs, st)
                self.frame.env[t.id] = old.add_deps(rhs.deps)
            elif old.aliases() and not any(self.obj(o).cls in ("tuple",) for o in old.refs):
                # numpy in-place operator on an aliased array (or list +=): a write through the alias
                self._mut_store(old, "aug:" + type(st.op).__name__, rhs, st)
                self.frame.env[t.id] = old.add_deps(rhs.deps)
            else:
                c = NOCONST
                self.frame.env[t.id] = Val(deps=old.deps | rhs.deps, tags=old.tags & {"indexarr"})
            return True
        if isinstance(t, ast.Attribute):
            base = self.eval(t.value)
            old = self.read_field(base, t.attr, t)
            newv = Val(refs=old.refs, locs=old.locs, deps=old.deps | rhs.deps)
            if not old.aliases():
                newv = Val(deps=old.deps | rhs.deps)
            self.write_field(base, t.attr, newv, st, kind="aug")
            self.out[-1].a["rhs"] = rhs
            self.out[-1].a["op"] = type(st.op).__name__
            self.out[-1].a["old"] = old
            return True
        if isinstance(t, ast.Subscript):
            base = self.eval(t.value)
            key = self._eval_key(t.slice)
            old = self.read_elem(base, key, t)
            if any(self.obj(o).cls == "list" for o in old.refs) and isinstance(st.op, ast.Add):
                stored = self.read_elem(rhs) if rhs.aliases() else rhs
            else:
                stored = Val(deps=old.deps | rhs.deps)
            self.write_elem(base, key, stored, st, kind="aug")
            self.out[-1].a["rhs"] = rhs
            self.out[-1].a["op"] = type(st.op).__name__
            self.out[-1].a["old"] = old
            return True
        raise AnalysisError("unsupported augmented target at %s" % self.prog.loc(self.frame.fn, st))

    def _eval_key(self, sl):
        if isinstance(sl, ast.Slice):
            return self.e_Slice(sl)
        return self.eval(sl)

    def assign(self, t, v: Val, st):
        if isinstance(t, ast.Name):
            self.frame.env[t.id] = v
        elif isinstance(t, ast.Attribute):
            base = self.eval(t.value)
            self.write_field(base, t.attr, v, st)
        elif isinstance(t, ast.Subscript):
            base = self.eval(t.value)
            key = self._eval_key(t.slice)
            self.write_elem(base, key, v, st)
        elif isinstance(t, (ast.Tuple, ast.List)):
            items = None
            if v.extra is not None and v.extra[0] == "tuple" and len(v.extra[1]) == len(t.elts):
                items = v.extra[1]
            for i, e in enumerate(t.elts):
                if isinstance(e, ast.Starred):
                    e = e.value
                if items is not None:
                    self.assign(e, items[i].add_deps(v.deps - items[i].deps if False else ()), st)
                else:
                    ev = self.read_elem(v) if v.aliases() else Val(deps=v.deps, tags=v.tags & {"random"})
                    self.assign(e, ev.add_tags("unpacked:%d" % i), st)
        else:
            raise AnalysisError("unsupported assignment target at %s" % self.prog.loc(self.frame.fn, st))

    # ------------------------------------------------------------------------------------------ if
    def s_If(self, st):
        ev = self.emit("if", st, test=st.test, test_evs=[], then=[], orelse=[], test_val=None)
        saved_out = self.out
        self.out = ev.a["test_evs"]
        tv = self.eval(st.test)
        self.out = saved_out
        ev.a["test_val"] = tv
        dec = self.truthy(tv)
        if dec is not None:
            # statically decided branch (exact abstract types / constants): only that branch exists
            ev.a["decided"] = dec
            self.out = ev.a["then"] if dec else ev.a["orelse"]
            saved_guards = self.guards
            self.guards = self.guards + (Guard(st.test, dec, tv, self.frame.fn),)
            try:
                ft = self.exec_block(st.body if dec else st.orelse)
            finally:
                self.out = saved_out
                self.guards = saved_guards
            return ft
        pre_env, pre_heap, pre_narrow = dict(self.frame.env), self.heap.copy(), dict(self.narrow)
        saved_guards = self.guards
        # then
        self.out = ev.a["then"]
        self.guards = saved_guards + (Guard(st.test, True, tv, self.frame.fn),)
        self.apply_narrowing(st.test, True)
        ft_then = self.exec_block(st.body)
        env_then, heap_then = self.frame.env, self.heap
        # else
        self.frame.env, self.heap, self.narrow = dict(pre_env), pre_heap, dict(pre_narrow)
        self.out = ev.a["orelse"]
        self.guards = saved_guards + (Guard(st.test, False, tv, self.frame.fn),)
        self.apply_narrowing(st.test, False)
        ft_else = self.exec_block(st.orelse)
        env_else, heap_else = self.frame.env, self.heap
        self.out, self.guards, self.narrow = saved_out, saved_guards, pre_narrow
        if ft_then and ft_else:
            self.frame.env = join_env(env_then, env_else)
            heap_then.join_from(heap_else)
            self.heap = heap_then
        elif ft_then:
            self.frame.env, self.heap = env_then, heap_then
            # the rest of the function runs only when the test held (the other branch returned/raised)
            self.guards = saved_guards + (Guard(st.test, True, tv, self.frame.fn),)
        elif ft_else:
            self.frame.env, self.heap = env_else, heap_else
            self.guards = saved_guards + (Guard(st.test, False, tv, self.frame.fn),)
        else:
            self.frame.env, self.heap = env_else, heap_else
            return False
        return True

    # ------------------------------------------------------------------------------------------ loops
    def bind_loop_target(self, target, it: Val, iter_node):
        """Bind the loop variable(s) to the element value of the iterable."""
        lid = self.loops[-1][0] if self.loops else 0
        tag = "loopvar:%d" % lid
        ex = it.extra
        if ex is not None and ex[0] == "enumerate" and isinstance(target, (ast.Tuple, ast.List)) \
                and len(target.elts) == 2:
            from .interp_call import strip_obs
            self.assign(target.elts[0], Val(deps=strip_obs(it.deps), tags=["loopindex", tag]), iter_node)
            inner = ex[1]
            self.bind_loop_target(target.elts[1], inner, iter_node)
            return
        if ex is not None and ex[0] == "zip" and isinstance(target, (ast.Tuple, ast.List)) \
                and len(target.elts) == len(ex[1]):
            for e, src in zip(target.elts, ex[1]):
                self.bind_loop_target(e, src, iter_node)
            return
        if ex is not None and ex[0] == "items" and isinstance(target, (ast.Tuple, ast.List)) \
                and len(target.elts) == 2:
            self.assign(target.elts[0], ex[1].add_tags(tag, "key"), iter_node)
            self.assign(target.elts[1], ex[2].add_tags(tag), iter_node)
            return
        if it.refs and not it.locs and all(self.obj(r).cls == "dict" for r in it.refs):
            # iterating a dict yields its keys
            from .interp_call import keys_deps
            ks = [self.obj(r).keys for r in it.refs if self.obj(r).keys is not None]
            kd = keys_deps(it.deps | frozenset((r, ("[*]",)) for r in it.refs))
            elem = (join_all(ks) if ks else Val()).with_(deps=kd, extra=None).add_tags("key")
        elif it.aliases():
            elem = self.read_elem(it)
            elem = elem.with_(extra=None)
        else:
            elem = Val(deps=it.deps, tags=it.tags & {"random"})
        if self.is_label_collection(it):
            elem = elem.add_tags("label")
        elem = elem.add_tags(tag).with_(extra=("elemof", it, iter_node))
        if isinstance(target, (ast.Tuple, ast.List)):
            for i, e in enumerate(target.elts):
                sub = self.read_elem(elem) if elem.aliases() else Val(deps=elem.deps)
                self.assign(e, sub.add_tags(tag), iter_node)
        else:
            self.assign(target, elem, iter_node)

    def s_For(self, st):
        # a loop over a short literal tuple / list (`for d in (self.a, self.b): reset(d, 0)`) is unrolled: every
        # element is visited exactly once, in order, so each iteration is an ordinary (strong) update
        if isinstance(st.iter, (ast.Tuple, ast.List)) and 0 < len(st.iter.elts) <= 8 and not st.orelse and \
                not any(isinstance(e, ast.Starred) for e in st.iter.elts) and \
                not any(isinstance(n, (ast.Break, ast.Continue)) for b in st.body for n in ast.walk(b)):
            for e in st.iter.elts:
                v = self.eval(e)
                self.assign(st.target, v, st)
                if not self.exec_block(st.body):
                    return False
            return True
        lid = self._new_loop_id()
        ev = self.emit("for", st, head=[], body=[], target=st.target, iter=None, iter_node=st.iter, loop_id=lid,
                       parallel=None, comp=False)
        saved_out = self.out
        self.out = ev.a["head"]
        it = self.eval(st.iter)
        ev.a["iter"] = it
        self.loop_iters[lid] = it
        self.out = saved_out
        return self._run_loop(ev, lid, lambda: self.bind_loop_target(st.target, it, st.iter), st.body, st.orelse,
                              Guard(st.iter, True, Val(deps=it.deps), self.frame.fn))

    def s_While(self, st):
        lid = self._new_loop_id()
        ev = self.emit("while", st, head=[], body=[], loop_id=lid, test=st.test)
        saved_out = self.out
        self.out = ev.a["head"]
        tv = self.eval(st.test)
        self.out = saved_out
        return self._run_loop(ev, lid, lambda: self.eval(st.test), st.body, st.orelse,
                              Guard(st.test, True, tv, self.frame.fn))

    def _run_loop(self, ev, lid, bind, body, orelse, guard):
        if not hasattr(self, "_pending_loop_envs"):
            self._pending_loop_envs = []
        saved_out, saved_loops, saved_guards = self.out, self.loops, self.guards
        pre_env, pre_heap = dict(self.frame.env), self.heap.copy()
        self.guards = saved_guards + (guard,)
        exit_states = [] if self.typestate_mode else [(pre_env, pre_heap)]      # zero iterations
        for gen in (1, 2):
            self.loops = saved_loops + ((lid, gen),)
            self.out = [] if gen == 1 else ev.a["body"]
            self._pending_loop_envs.append([])
            bind()
            ft = self.exec_block(body)
            pend = self._pending_loop_envs.pop()
            states = list(pend)
            if ft:
                states.append((dict(self.frame.env), self.heap.copy()))
            if gen == 2:
                exit_states.extend(states)
            # state at the head of the next iteration
            env, heap = dict(pre_env), pre_heap.copy()
            for e, h in states:
                env = join_env(env, e)
                heap.join_from(h)
            if gen == 1:
                self.frame.env, self.heap = env, heap
        self.out, self.loops, self.guards = saved_out, saved_loops, saved_guards
        if not exit_states:
            exit_states = [(pre_env, pre_heap)]
        env, heap = exit_states[0][0], exit_states[0][1].copy()
        for e, h in exit_states[1:]:
            env = join_env(env, e)
            heap.join_from(h)
        self.frame.env, self.heap = env, heap
        if orelse:
            return self.exec_block(orelse)
        return True

    # ------------------------------------------------------------------------------------------ try / with
    def s_Try(self, st):
        ev = self.emit("try", st, body=[], handlers=[], final=[])
        saved_out = self.out
        pre_env, pre_heap = dict(self.frame.env), self.heap.copy()
        self.out = ev.a["body"]
        ft = self.exec_block(st.body)
        if ft and st.orelse:
            ft = self.exec_block(st.orelse)
        states = [(self.frame.env, self.heap)] if ft else []
        for h in st.handlers:
            blk = []
            ev.a["handlers"].append(blk)
            self.out = blk
            # the handler may start from any prefix of the body: join pre and post states
            env = join_env(pre_env, self.frame.env)
            heap = pre_heap.copy()
            heap.join_from(self.heap)
            self.frame.env, self.heap = env, heap
            if h.name:
                self.frame.env[h.name] = Val(tags=["exception"])
            if self.exec_block(h.body):
                states.append((self.frame.env, self.heap))
        if not states:
            self.out = saved_out
            if st.finalbody:
                self.out = ev.a["final"]
                self.exec_block(st.finalbody)
                self.out = saved_out
            return False
        env, heap = states[0]
        for e, h in states[1:]:
            env = join_env(env, e)
            heap.join_from(h)
        self.frame.env, self.heap = env, heap
        self.out = ev.a["final"]
        ft = self.exec_block(st.finalbody) if st.finalbody else True
        self.out = saved_out
        return ft

    def s_With(self, st):
        for item in st.items:
            v = self.eval(item.context_expr)
            if item.optional_vars is not None:
                self.assign(item.optional_vars, v, st)
        return self.exec_block(st.body)
