# -*- coding: utf-8 -*-
"""Command line: /verif/check <ID> <quick|thorough>   |   /verif/check <ID> --replay <file>"""

import importlib
import json
import os
import sys
import time
import traceback

from .model import AnalysisError, Program
from .report import Ctx, finish

PROPS = ["C%02d" % i for i in range(1, 21)]


def run_property(pid, tier, seed, root=None, overrides=None, write=True, with_selftest=False):
    t0 = time.time()
    prog = Program.load(root, overrides)
    ctx = Ctx(pid, prog, tier, seed)
    mod = importlib.import_module("mabstat.rules." + pid.lower())
    from .rules import common
    common.preconditions(ctx)
    mod.check(ctx)
    st_rc = 0
    if with_selftest:
        from . import bytecheck, selftest
        bc_rc, bc = bytecheck.run(prog)
        ctx.extra["fact_base_cross_check"] = bc
        st_rc = selftest.run(pid, seed)
        ctx.extra["self_test"] = getattr(selftest.run, "last_summary", {})
        st_rc = st_rc or bc_rc
    if write:
        rc = finish(ctx, t0, mod.EXPLANATION, mod.ASSUMPTIONS)
        return (rc if rc != 0 else st_rc), ctx
    return None, ctx


def main(argv):
    if len(argv) < 2 or argv[0] not in PROPS:
        print("usage: check <C01..C20> <quick|thorough> | check <ID> --replay <file>")
        return 2
    pid = argv[0]
    seed = int(os.environ.get("VERIF_SEED", "0") or 0)
    if argv[1] == "--replay":
        with open(argv[2]) as f:
            rec = json.load(f)
        print("replaying obligation %s / %s on the current tree" % (rec.get("rule"), rec.get("instance")))
        try:
            _, ctx = run_property(pid, "quick", seed, write=False)
        except AnalysisError as e:
            print("ANALYSIS-ERROR property=%s %s" % (pid, e))
            return 2
        hit = [o for o in ctx.obligations.values()
               if o.rule == rec.get("rule") and o.cls == rec.get("class") and o.method == rec.get("method")
               and o.construct == rec.get("construct") and o.instance == rec.get("instance")]
        if not hit:
            print("obligation no longer exists on the current tree (construct changed or removed)")
            return 0
        for o in hit:
            print("%s %s at %s %s.%s: %s [%s]" % (o.status, o.rule, o.where, o.cls, o.method, o.detail, o.construct))
        return 1 if any(o.status == "VIOLATED" for o in hit) else 0
    tier = argv[1]
    if tier not in ("quick", "thorough"):
        print("tier must be quick or thorough")
        return 2
    try:
        rc, ctx = run_property(pid, tier, seed, with_selftest=(tier == "thorough"))
        return rc
    except AnalysisError as e:
        print("ANALYSIS-ERROR property=%s %s" % (pid, e))
        return 2
    except Exception:
        print("ANALYSIS-ERROR property=%s internal error" % pid)
        traceback.print_exc()
        return 2


if __name__ == "__main__":
    sys.exit(main(sys.argv[1:]))
