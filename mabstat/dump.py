# -*- coding: utf-8 -*-
"""Debug helper: pretty-print a trace tree."""
import ast


def show(ev, eng, indent=0, out=None, loads=False):
    out = out if out is not None else []
    pad = "  " * indent
    k = ev.kind
    if k == "seq":
        out.append(pad + "ENTRY %s [%s]" % (ev.a.get("entry"), ev.a.get("config")))
        for c in ev.children:
            show(c, eng, indent + 1, out, loads)
    elif k == "call":
        out.append(pad + "CALL %s (recv %s)" % (ev.a["callee"].qualname, ev.a["recv_cls"].name if ev.a["recv_cls"] else None))
        for c in ev.children:
            show(c, eng, indent + 1, out, loads)
    elif k == "if":
        out.append(pad + "IF %s%s" % (ast.unparse(ev.a["test"])[:80], " [decided %s]" % ev.a["decided"] if "decided" in ev.a else ""))
        for c in ev.a["test_evs"]:
            show(c, eng, indent + 2, out, loads)
        for c in ev.a["then"]:
            show(c, eng, indent + 1, out, loads)
        if ev.a["orelse"]:
            out.append(pad + "ELSE")
            for c in ev.a["orelse"]:
                show(c, eng, indent + 1, out, loads)
    elif k in ("for", "while"):
        out.append(pad + "%s %s%s" % (k.upper(), ast.unparse(ev.node)[:70].split("\n")[0], " PARALLEL %s" % ev.a["parallel"] if ev.a.get("parallel") else ""))
        for c in ev.a["head"]:
            show(c, eng, indent + 2, out, loads)
        for c in ev.a["body"]:
            show(c, eng, indent + 1, out, loads)
    elif k == "dispatch":
        out.append(pad + "DISPATCH")
        for c in ev.a["alts"]:
            show(c, eng, indent + 1, out, loads)
    elif k == "try":
        out.append(pad + "TRY")
        for blk in ev.blocks():
            for c in blk:
                show(c, eng, indent + 1, out, loads)
    elif k == "store":
        out.append(pad + "STORE[%s] %s  <- %s   | %s" % (ev.a["skind"], ev.a["targets"], _v(ev.a["value"]), ast.unparse(ev.node)[:60] if ev.node is not None else ""))
    elif k == "load":
        if loads:
            out.append(pad + "load %s" % (ev.a["targets"],))
    elif k == "ext":
        out.append(pad + "ext %s" % ev.a["name"])
    elif k == "draw":
        out.append(pad + "DRAW %s gen=%s" % (ev.a["method"], [(r, eng.obj(r).stamp, eng.obj(r).region) for r in ev.a["gen"].refs]))
    elif k == "alloc":
        out.append(pad + "ALLOC %s #%s" % (ev.a["cls"], ev.a["obj"]))
    elif k in ("return", "raise"):
        out.append(pad + k.upper())
    else:
        out.append(pad + k)
    return out


def _v(v):
    s = repr(v)
    return s if len(s) < 120 else s[:117] + "..."
