# -*- coding: utf-8 -*-
"""Configurations, abstract object-graph construction (by interpreting MAB.__init__) and entry-point runs."""

import ast
import itertools
from typing import Dict, List, Optional

from .interp import Interp, Frame, CONTAINER_CLS
from .interp_call import CallMixin
from .interp_expr import ExprMixin
from .interp_stmt import StmtMixin
from .model import AnalysisError, Program
from .values import EMPTY, NOCONST, Ev, Heap, Obj, Val, join, join_all

LEARNING = ["EpsilonGreedy", "Popularity", "Random", "Softmax", "ThompsonSampling", "UCB1", "LinGreedy", "LinTS",
            "LinUCB"]
NEIGHBORHOOD = [None, "Clusters", "KNearest", "LSHNearest", "Radius", "TreeBandit"]
TREE_COMPATIBLE = ["EpsilonGreedy", "UCB1", "ThompsonSampling"]


class Engine(Interp, ExprMixin, CallMixin, StmtMixin):
    pass


class Config:
    def __init__(self, lp: str, np_: Optional[str], binarizer: bool = False, minibatch: Optional[bool] = None):
        self.lp = lp
        self.np = np_
        self.binarizer = binarizer

    @property
    def name(self):
        return "%s%s/%s" % (self.lp, "+bin" if self.binarizer else "", self.np or "-")

    @property
    def contextual(self):
        return self.np is not None or self.lp in ("LinGreedy", "LinTS", "LinUCB")

    def __repr__(self):
        return "<Config %s>" % self.name


def all_configs(with_binarizer=True) -> List[Config]:
    out = []
    for np_ in NEIGHBORHOOD:
        for lp in LEARNING:
            if np_ == "TreeBandit" and lp not in TREE_COMPATIBLE:
                continue
            out.append(Config(lp, np_))
            if lp == "ThompsonSampling" and with_binarizer:
                out.append(Config(lp, np_, binarizer=True))
    return out


BINARIZER_VAL = Val(tags=["callable", "binarizer", "truthy"], const=("fn", "binarizer"))


class World:
    """One abstract bandit (a configuration): the heap after MAB.__init__ and runners for the public entry points."""

    def __init__(self, prog: Program, config: Config, forget=None, typestate=False):
        self.prog = prog
        self.config = config
        self.eng = Engine(prog)
        self.eng.typestate_mode = typestate
        self.forget = set(forget or ())      # (class name, field) pairs rebound outside construction
        if typestate:
            self.forget = {(c, f) for (c, f) in self.forget if f not in ("binarizer", "is_contextual_binarized",
                                                                          "rewards", "raw_rewards",
                                                                          "arm_to_leaf_to_rewards")}
        self.init_trace = None
        self.mab_oid = None
        self.skeleton: Optional[Heap] = None
        self.caller_objs = {}
        self._build()

    # ------------------------------------------------------------------------------------------ construction
    def caller_obj(self, name, cls=None, label=None, elem_tag=None) -> Val:
        e = self.eng
        o = e.alloc(cls, "caller", None, label=label or name, key=("caller", name, e.epoch))
        self.caller_objs[name] = o.oid
        if self.skeleton is not None:
            self.skeleton.objs[o.oid] = o
            self.skeleton.owned.discard(o.oid)
            e.heap.owned.discard(o.oid)
        if elem_tag:
            o.elem = Val(locs=[(o.oid, ("[*]",))], tags=[elem_tag], deps=[("param", name)])
        tags = ["param:" + name] + (["labels"] if elem_tag == "label" else [])
        return Val(refs=[o.oid], deps=[("param", name)], tags=tags)

    def _build(self):
        e, c, prog = self.eng, self.config, self.prog
        mab_cls = prog.cls("MAB")
        init = prog.method("MAB", "__init__")
        e.frames = [Frame(init, mab_cls, {})]
        root = Ev("seq")
        e.out = root.children
        mab = e.alloc("MAB", "bandit", None, label="MAB", key="mab-root")
        self.mab_oid = mab.oid
        arms = self.caller_obj("arms", "list", elem_tag="label")
        lpc = prog.cls("LearningPolicy." + c.lp)
        lp = self.caller_obj("learning_policy", lpc.name)
        if c.lp == "ThompsonSampling":
            e.obj(next(iter(lp.refs))).fields["binarizer"] = BINARIZER_VAL if c.binarizer else Val(const=None)
        if c.np is None:
            npv = Val(const=None)
        else:
            npc = prog.cls("NeighborhoodPolicy." + c.np)
            npv = self.caller_obj("neighborhood_policy", npc.name)
        args = [arms, lp, npv, Val(deps=[("param", "seed")], tags=["seed"]),
                Val(deps=[("param", "n_jobs")], tags=["n_jobs"]), Val(deps=[("param", "backend")])]
        e.epoch = 0
        # construction: validated sizes (n_clusters >= 2, non-empty arms) make the constructor loops run, and loops
        # over all elements update every element
        saved_mode = e.typestate_mode
        e.typestate_mode = True
        e.constructing = True
        try:
            e.call_function(init, Val(refs=[mab.oid]), mab_cls, args, {}, None)
        finally:
            e.typestate_mode = saved_mode
            e.constructing = False
        self.init_trace = root
        # everything reachable from the bandit now belongs to the bandit
        for oid in self.reachable(mab.oid):
            o = e.obj(oid)
            if o.region == "fresh":
                e.mobj(oid).region = "bandit"
        self.skeleton = e.heap.copy()
        self.init_heap = e.heap.copy()
        root.a["heap"] = self.init_heap
        self._apply_forget()

    def reachable(self, oid, heap=None):
        heap = heap or self.eng.heap
        seen, todo = set(), [oid]
        while todo:
            x = todo.pop()
            if x in seen or x not in heap.objs:
                continue
            seen.add(x)
            o = heap.objs[x]
            vals = list(o.fields.values())
            if o.elem is not None:
                vals.append(o.elem)
            for v in vals:
                todo.extend(v.refs)
                if v.extra is not None and v.extra[0] == "tuple":
                    for iv in v.extra[1]:
                        todo.extend(iv.refs)
        return seen

    def _is_objecty(self, heap, v: Val, containers=False):
        for r in v.refs:
            cls = heap.objs[r].cls
            if cls and (containers and cls != "tuple" or cls not in CONTAINER_CLS):
                return True
        return False

    def _apply_forget(self):
        """Fields of bandit objects that are rebound outside construction hold 'whatever is there now'."""
        heap = self.skeleton
        bandit = self.reachable(self.mab_oid, heap)
        for oid in bandit:
            o = heap.objs[oid]
            if o.region != "bandit":
                continue
            o = heap.mut(oid)
            for f in list(o.fields):
                if (o.cls, f) in self.forget:
                    v = o.fields[f]
                    if self._is_objecty(heap, v, containers=True):
                        # type invariance: the location keeps holding objects of the classes it was built with
                        o.fields[f] = Val(refs=v.refs, deps=[(oid, ("." + f,))], tags=["forgotten"])
                    else:
                        o.fields[f] = Val(refs=v.refs, locs=[(oid, ("." + f,))], deps=[(oid, ("." + f,))],
                                          tags=["forgotten"])
            # contents of containers of plain data are always 'whatever is there now'
            if o.cls in CONTAINER_CLS and o.elem is not None and not self._is_objecty(heap, o.elem):
                if o.owner is not None and o.cls != "tuple":
                    lab = o.elem.tags & {"label"}
                    o.elem = Val(locs=[(oid, ("[*]",))], deps=[(oid, ("[*]",))], tags=lab)
                    o.dictkeys = None

    # ------------------------------------------------------------------------------------------ runs
    def imp_val(self) -> Val:
        return self.skeleton.objs[self.mab_oid].fields["_imp"]

    def imp_classes(self):
        return sorted({self.skeleton.objs[r].cls for r in self.imp_val().refs})

    def run(self, method: str, args: Dict[str, Val] = None, on="MAB", keep_heap=False, recv: Val = None) -> Ev:
        """Interpret <on>.<method>(...) from the skeleton heap.  Returns the root trace node."""
        e = self.eng
        e.epoch += 1
        if not keep_heap:
            e.heap = self.skeleton.copy()
        e.narrow = {}
        e.guards, e.loops, e.callstack = (), (), ()
        if recv is None:
            recv = Val(refs=[self.mab_oid]) if on == "MAB" else self.imp_val()
        root = Ev("seq", None, None)
        root.a["entry"] = "%s.%s" % (on, method)
        root.a["config"] = self.config.name
        outs = []
        for r in sorted(recv.refs):
            cls = self.prog.cls(e.obj(r).cls)
            f = cls.resolve(method)
            if f is None:
                raise AnalysisError("entry %s.%s not found" % (cls.name, method))
            e.frames = [Frame(f, cls, {})]
            e.out = root.children
            params = f.params[1:] if not f.is_static else f.params
            a = dict(args or {})
            kwargs = {p: a[p] for p in params if p in a}
            if f.is_property:
                res = e.call_function(f, Val(refs=[r]), cls, [], {}, None)
            else:
                res = e.call_function(f, Val(refs=[r]), cls, [], kwargs, None)
            outs.append(res)
        root.a["result"] = join_all(outs)
        root.a["heap"] = e.heap
        return root

    def data_args(self, with_contexts=None, prefix="") -> Dict[str, Val]:
        c = self.config
        if with_contexts is None:
            with_contexts = c.contextual
        a = {"decisions": self.caller_obj("decisions", None, elem_tag="label"),
             "rewards": self.caller_obj("rewards", None),
             "contexts": self.caller_obj("contexts", None) if with_contexts else Val(const=None)}
        return a

    def standard_entries(self):
        """(label, method, args) for the public API of this configuration."""
        c = self.config
        out = [("fit", "fit", self.data_args()), ("partial_fit", "partial_fit", self.data_args()),
               ("predict", "predict", {"contexts": self.data_args()["contexts"]}),
               ("predict_expectations", "predict_expectations", {"contexts": self.data_args()["contexts"]})]
        if not c.contextual:
            out.append(("predict+ctx", "predict", {"contexts": self.caller_obj("contexts", None)}))
            out.append(("predict_expectations+ctx", "predict_expectations",
                        {"contexts": self.caller_obj("contexts", None)}))
        arm = Val(locs=[], deps=[("param", "arm")], tags=["label", "param:arm"])
        out.append(("add_arm", "add_arm", {"arm": arm, "binarizer": Val(const=None)}))
        if c.lp == "ThompsonSampling":
            out.append(("add_arm+bin", "add_arm", {"arm": arm, "binarizer": BINARIZER_VAL}))
        out.append(("remove_arm", "remove_arm", {"arm": arm}))
        out.append(("warm_start", "warm_start", {"arm_to_features": self.caller_obj("arm_to_features", "dict"),
                                                 "distance_quantile": Val(deps=[("param", "distance_quantile")])}))
        return out


# ---------------------------------------------------------------------------------------------- fixpoint of forget
def discover_rebound(prog: Program, configs: List[Config], max_rounds=4):
    """Optimistic fixpoint: which (class, field) pairs of bandit objects are rebound by any public call."""
    forget = set()
    for rnd in range(max_rounds):
        new = set(forget)
        for c in configs:
            w = World(prog, c, forget)
            for label, method, args in w.standard_entries():
                root = w.run(method, args)
                for ev in root.walk():
                    if ev.kind == "store" and ev.a["step"].startswith("."):
                        for t in ev.a["targets"]:
                            if t.region == "bandit" and t.via == "ref" and t.field is not None and not t.sub:
                                new.add((t.ocls, t.field))
        if new == forget:
            return forget, rnd + 1
        forget = new
    return forget, max_rounds


class SimWorld(World):
    """The simulator-specific re-implementation (_RadiusSimulator / _KNearestSimulator / _LSHSimulator) built the
    way Simulator._train_bandits builds it: the constructor call expression found in that method is evaluated
    with `imp` bound to the library implementor of the configuration."""

    SIM_CLASS = {"Radius": "_RadiusSimulator", "KNearest": "_KNearestSimulator", "LSHNearest": "_LSHSimulator"}

    def __init__(self, prog: Program, config: Config, forget=None, is_quick=None, typestate=False):
        self.is_quick = is_quick
        super().__init__(prog, config, forget, typestate=typestate)

    def _build(self):
        super()._build()
        e, prog = self.eng, self.prog
        want = self.SIM_CLASS.get(self.config.np)
        if want is None:
            raise AnalysisError("no simulator wrapper for %s" % self.config.np)
        tb = prog.method("Simulator", "_train_bandits")
        call = None
        for n in ast.walk(tb.node):
            if isinstance(n, ast.Assign) and isinstance(n.value, ast.Call) and \
                    isinstance(n.value.func, ast.Name) and n.value.func.id == want:
                call = n
        if call is None:
            raise AnalysisError("Simulator._train_bandits no longer constructs %s" % want)
        self.ctor_call = call
        e.heap = self.init_heap.copy()
        e.epoch += 1
        sim = e.alloc("Simulator", "caller", None, label="Simulator", key="sim-stub")
        qv = Val(deps=[("param", "is_quick")]) if self.is_quick is None else Val(const=self.is_quick)
        sim.fields["is_quick"] = qv
        impv = self.init_heap.objs[self.mab_oid].fields["_imp"]
        env = {"self": Val(refs=[sim.oid])}
        # the local that holds the replaced implementor: the name whose attributes feed the constructor
        for a in list(call.value.args) + [k.value for k in call.value.keywords]:
            if isinstance(a, ast.Attribute) and isinstance(a.value, ast.Name) and a.value.id != "self":
                env[a.value.id] = impv
        root = Ev("seq")
        e.out = root.children
        e.frames = [Frame(tb, prog.cls("Simulator"), env)]
        e.guards, e.loops, e.callstack = (), (), ()
        wrapper = e.eval(call.value)
        self.sim_init_trace = root
        root.a["entry"] = want + ".__init__"
        root.a["config"] = self.config.name
        self.wrapper = wrapper
        for r in wrapper.refs:
            for oid in self.reachable(r):
                if e.obj(oid).region == "fresh":
                    e.mobj(oid).region = "bandit"
        root.a["heap"] = e.heap.copy()
        self.skeleton = e.heap.copy()
        self.init_heap = e.heap.copy()
        self.sim_oid = next(iter(wrapper.refs))
        self._apply_forget_from(self.sim_oid)

    def _apply_forget_from(self, oid):
        saved = self.mab_oid
        self.mab_oid = oid
        try:
            self._apply_forget()
        finally:
            self.mab_oid = saved

    def imp_val(self) -> Val:
        return self.wrapper

    def run(self, method, args=None, on="SIM", keep_heap=False, recv=None):
        return super().run(method, args, on="SIM", keep_heap=keep_heap, recv=self.wrapper)

    def standard_entries(self):
        out = [("fit", "fit", self.data_args(True)), ("partial_fit", "partial_fit", self.data_args(True)),
               ("predict", "predict", {"contexts": self.caller_obj("contexts", None)}),
               ("predict_expectations", "predict_expectations", {"contexts": self.caller_obj("contexts", None)}),
               ("calculate_distances", "calculate_distances", {"contexts": self.caller_obj("contexts", None)})]
        return out
