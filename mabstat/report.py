# -*- coding: utf-8 -*-
"""Obligations, findings, known-findings matching, evidence files and exit codes."""

import json
import os
import sys
import time

from .model import AnalysisError, Program, norm_stmt

VERIF = os.path.dirname(os.path.dirname(os.path.abspath(__file__)))
KNOWN_FILE = os.path.join(VERIF, "known_findings.json")
EVIDENCE_DIR = os.path.join(VERIF, "evidence")

HOLDS, VIOLATED, UNDECIDED = "HOLDS", "VIOLATED", "UNDECIDED"


class Obligation:
    def __init__(self, prop, rule, instance, status, where="", cls="", method="", construct="", detail=""):
        self.prop = prop
        self.rule = rule
        self.instance = instance
        self.status = status
        self.where = where
        self.cls = cls
        self.method = method
        self.construct = construct
        self.detail = detail

    def key(self):
        return (self.rule, self.cls, self.method, self.construct, self.instance)

    def as_dict(self):
        return {"rule": self.rule, "instance": self.instance, "status": self.status, "where": self.where,
                "class": self.cls, "method": self.method, "construct": self.construct, "detail": self.detail}


class Ctx:
    """What a rule module gets: the program, cached abstract runs and the obligation sink."""

    def __init__(self, prop_id, prog: Program, tier="quick", seed=0, shared=None):
        self.prop = prop_id
        self.prog = prog
        self.tier = tier
        self.seed = seed
        self.obligations = {}
        self.notes = []
        self.floors = []
        self.analysed = {"functions": set(), "entries": 0, "configs": set(), "call_edges": 0}
        self.rules = {}
        self.shared = shared if shared is not None else {}
        self.unclassified = {}
        self.extra = {}

    # ---------------------------------------------------------------- recording
    def rule(self, rid, text):
        self.rules[rid] = text

    def _add(self, rule, instance, status, node=None, fn=None, detail="", where=None, construct=None):
        cls = fn.cls.name if (fn is not None and fn.cls is not None) else ""
        method = fn.name if fn is not None else ""
        if construct is None:
            construct = norm_stmt(node, fn) if node is not None else ""
        if where is None:
            where = self.prog.loc(fn, node) if fn is not None else ""
        ob = Obligation(self.prop, rule, instance, status, where, cls, method, construct, detail)
        k = ob.key()
        old = self.obligations.get(k)
        # the worst status over all configurations in which the same construct was analysed wins
        rank = {HOLDS: 0, UNDECIDED: 1, VIOLATED: 2}
        if old is None or rank[status] > rank[old.status]:
            self.obligations[k] = ob
        return ob

    def ok(self, rule, instance, node=None, fn=None, detail="", **kw):
        return self._add(rule, instance, HOLDS, node, fn, detail, **kw)

    def violate(self, rule, instance, node=None, fn=None, detail="", **kw):
        return self._add(rule, instance, VIOLATED, node, fn, detail, **kw)

    def undecided(self, rule, instance, node=None, fn=None, detail="", **kw):
        return self._add(rule, instance, UNDECIDED, node, fn, detail, **kw)

    def check(self, cond, rule, instance, node=None, fn=None, detail="", **kw):
        return (self.ok if cond else self.violate)(rule, instance, node, fn, detail, **kw)

    def floor(self, rule, what, count, minimum):
        """A rule that matches fewer sites than were confirmed by hand is broken, not passing."""
        self.floors.append((rule, what, count, minimum))

    def note(self, text):
        self.notes.append(text)

    def saw_fn(self, fn):
        if fn is not None:
            self.analysed["functions"].add(fn.module.name + "." + fn.qualname)


def load_known():
    if not os.path.exists(KNOWN_FILE):
        return []
    with open(KNOWN_FILE) as f:
        return json.load(f).get("findings", [])


def match_known(ob: Obligation, known):
    for k in known:
        if k.get("status") != "known":
            continue
        if k["property"] != ob.prop or k["rule"] != ob.rule:
            continue
        if k.get("class", "") != ob.cls or k.get("method", "") != ob.method:
            continue
        if k.get("construct") and k["construct"] != ob.construct:
            continue
        if k.get("instance") and k["instance"] != ob.instance:
            continue
        return k
    return None


def finish(ctx: Ctx, t0, level_explanation, assumptions, samples_max=12):
    """Writes evidence, prints the verdict lines, returns the exit code."""
    known = load_known()
    obs = list(ctx.obligations.values())
    viol = [o for o in obs if o.status == VIOLATED]
    und = [o for o in obs if o.status == UNDECIDED]
    matched, fresh = [], []
    for o in viol:
        k = match_known(o, known)
        (matched if k else fresh).append((o, k))
    floor_fail = [(r, w, c, m) for (r, w, c, m) in ctx.floors if c < m]
    os.makedirs(EVIDENCE_DIR, exist_ok=True)
    replay_dir = os.path.join(EVIDENCE_DIR, "replay")
    if os.path.isdir(replay_dir):
        for fn in os.listdir(replay_dir):
            if fn.startswith(ctx.prop + "_"):
                try:
                    os.remove(os.path.join(replay_dir, fn))
                except OSError:
                    pass
    lines = []
    rc = 0
    for r, w, c, m in floor_fail:
        lines.append("ANALYSIS-ERROR property=%s rule=%s matched %d %s, expected at least %d "
                     "(an anchored mechanism vanished or the rule no longer recognises it)" % (ctx.prop, r, c, w, m))
        rc = 2
    for o in und:
        lines.append("ANALYSIS-ERROR property=%s rule=%s UNDECIDED at %s %s.%s: %s [%s]" %
                     (ctx.prop, o.rule, o.where, o.cls, o.method, o.detail, o.construct))
        rc = 2
    for o, k in matched:
        lines.append("KNOWN-FINDING: property=%s rule=%s %s %s.%s: %s" %
                     (ctx.prop, o.rule, o.where, o.cls, o.method, k.get("what", o.detail)))
    if fresh:
        os.makedirs(replay_dir, exist_ok=True)
        for i, (o, _) in enumerate(fresh):
            path = os.path.join(replay_dir, "%s_%d.json" % (ctx.prop, i))
            with open(path, "w") as f:
                json.dump({"property": ctx.prop, **o.as_dict()}, f, indent=1)
            lines.append("VIOLATION property=%s replay=%s" % (ctx.prop, path))
            lines.append("  rule %s at %s in %s.%s: %s\n  construct: %s\n  instance: %s" %
                         (o.rule, o.where, o.cls, o.method, o.detail, o.construct, o.instance))
        rc = 1 if rc == 0 else rc
    n_ok = sum(1 for o in obs if o.status == HOLDS)
    wall = time.time() - t0
    samples = [o.as_dict() for o in (viol + und)[:samples_max]]
    seen_rules = set()
    for o in obs:
        if o.status == HOLDS and o.rule not in seen_rules and len(samples) < samples_max + 10:
            seen_rules.add(o.rule)
            samples.append(o.as_dict())
    ev = {
        "property_id": ctx.prop, "tier": ctx.tier, "seed": int(ctx.seed), "level": "other",
        "coverage": {
            "explanation": level_explanation,
            "obligations": len(obs), "discharged": n_ok,
            "undecided": len(und), "violated": len(viol), "known_findings_matched": len(matched),
            "evaluations": max(1, len(obs)), "distinct_nontrivial": max(2, len({o.key() for o in obs})),
            "rule": "one obligation per (rule, class, method, normalised construct, instance); all are "
                    "non-trivial: each is a rule instance on an anchored construct of the current tree",
            "rules": ctx.rules,
            "samples": samples,
            "floors": [{"rule": r, "what": w, "matched": c, "minimum": m} for r, w, c, m in ctx.floors],
            "functions_analysed": sorted(ctx.analysed["functions"]),
            "n_functions_analysed": len(ctx.analysed["functions"]),
            "configurations": sorted(ctx.analysed["configs"]),
            "abstract_runs": ctx.analysed["entries"],
            "externals_unclassified": ctx.unclassified,
            "modules": ctx.prog.digest(),
            "notes": ctx.notes,
            "exhaustive": True,
            "checker_cmd": "/verif/check %s %s" % (ctx.prop, ctx.tier),
            "trusted_base": assumptions,
            **ctx.extra,
        },
        "assumptions": assumptions,
        "wall_s": round(wall, 3),
        "violations": len(fresh),
    }
    with open(os.path.join(EVIDENCE_DIR, ctx.prop + ".json"), "w") as f:
        json.dump(ev, f, indent=1, default=str)
    print("%s %s: %d obligations, %d hold, %d violated (%d known), %d undecided; %d functions, %d abstract runs; "
          "%.2fs" % (ctx.prop, ctx.tier, len(obs), n_ok, len(viol), len(matched), len(und),
                     len(ctx.analysed["functions"]), ctx.analysed["entries"], wall))
    for ln in lines:
        print(ln)
    return rc
