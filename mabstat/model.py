# -*- coding: utf-8 -*-
"""Program model: loads /repo/mabwiser/*.py into ASTs, builds the class table (with C3 MRO),
the import tables and the function table.  Nothing in /repo is imported or executed."""

import ast
import hashlib
import os
from typing import Dict, List, Optional

REPO = os.environ.get("MABSTAT_REPO", "/repo")
PACKAGE = "mabwiser"

# modules that must exist (anchors of the 20 properties); a missing one is an ANALYSIS-ERROR
REQUIRED_MODULES = ["approximate", "base_mab", "clusters", "greedy", "linear", "mab", "neighbors", "popularity",
                    "rand", "simulator", "softmax", "thompson", "treebandit", "ucb", "utils"]


class AnalysisError(Exception):
    """The analysis cannot be carried out soundly (missing anchor, unsupported construct, internal error)."""


class FunctionInfo:
    def __init__(self, module, cls, node: ast.FunctionDef):
        self.module = module            # ModuleInfo
        self.cls = cls                  # ClassInfo or None
        self.node = node
        self.name = node.name
        self.decorators = [ast.unparse(d) for d in node.decorator_list]
        self.is_static = "staticmethod" in self.decorators
        self.is_property = "property" in self.decorators
        self.is_abstract = any(d.endswith("abstractmethod") for d in self.decorators)

    @property
    def qualname(self):
        return (self.cls.name + "." if self.cls else "") + self.name

    @property
    def params(self) -> List[str]:
        a = self.node.args
        return [x.arg for x in a.posonlyargs + a.args]

    def is_trivial(self) -> bool:
        """Body is only a docstring and/or pass."""
        for st in self.node.body:
            if isinstance(st, ast.Pass):
                continue
            if isinstance(st, ast.Expr) and isinstance(st.value, ast.Constant):
                continue
            return False
        return True

    def __repr__(self):
        return "<fn %s.%s>" % (self.module.name, self.qualname)


class ClassInfo:
    def __init__(self, module, node: ast.ClassDef, outer=None):
        self.module = module
        self.node = node
        self.outer = outer
        self.name = (outer.name + "." if outer else "") + node.name
        self.base_exprs = [ast.unparse(b) for b in node.bases]
        self.bases: List["ClassInfo"] = []          # resolved program classes
        self.external_bases: List[str] = []
        self.methods: Dict[str, FunctionInfo] = {}
        self.class_attrs: Dict[str, ast.AST] = {}   # name -> value expression (class level assignments)
        self.class_ann: Dict[str, ast.AST] = {}     # annotated class-level fields (NamedTuple fields) -> default
        self.field_order: List[str] = []
        self.inner: Dict[str, "ClassInfo"] = {}
        self.mro: List["ClassInfo"] = []

    @property
    def is_namedtuple(self):
        return "NamedTuple" in self.external_bases

    def resolve(self, name) -> Optional[FunctionInfo]:
        for c in self.mro:
            if name in c.methods:
                return c.methods[name]
        return None

    def resolve_after(self, defining: "ClassInfo", name) -> Optional[FunctionInfo]:
        """super().name seen in a method defined in `defining`, receiver class self."""
        seen = False
        for c in self.mro:
            if seen and name in c.methods:
                return c.methods[name]
            if c is defining:
                seen = True
        return None

    def is_subclass_of(self, other: "ClassInfo") -> bool:
        return other in self.mro

    def class_attr(self, name):
        for c in self.mro:
            if name in c.class_attrs:
                return c, c.class_attrs[name]
        return None, None

    def __repr__(self):
        return "<class %s>" % self.name


def canon_eq(a: str, b: str, op="==") -> str:
    """canonical spelling of a symmetric comparison: the textually larger operand first (this happens to be the
    spelling the package uses: `decisions == arm`, `len(x) == 1`)"""
    x, y = (a, b) if a >= b else (b, a)
    return "%s %s %s" % (x, op, y)


def _items_max(call):
    """D when call is max/min(D.items(), key=itemgetter(1)) or key=lambda kv: kv[1]; else None"""
    if not (isinstance(call, ast.Call) and isinstance(call.func, ast.Name) and call.func.id in ("max", "min") and
            len(call.args) == 1 and len(call.keywords) == 1 and call.keywords[0].arg == "key"):
        return None
    a = call.args[0]
    if not (isinstance(a, ast.Call) and isinstance(a.func, ast.Attribute) and a.func.attr == "items" and
            not a.args and not a.keywords and _simple_ref(a.func.value)):
        return None
    k = call.keywords[0].value
    ks = ast.unparse(k)
    ok = ks in ("itemgetter(1)", "operator.itemgetter(1)")
    if isinstance(k, ast.Lambda) and len(k.args.args) == 1 and isinstance(k.body, ast.Subscript) and \
            isinstance(k.body.value, ast.Name) and k.body.value.id == k.args.args[0].arg and \
            isinstance(k.body.slice, ast.Constant) and k.body.slice.value == 1:
        ok = True
    return a.func.value if ok else None


def _max_by_get(d, fname):
    import copy as _copy
    return ast.fix_missing_locations(ast.Call(
        func=ast.Name(id=fname, ctx=ast.Load()), args=[_copy.deepcopy(d)],
        keywords=[ast.keyword(arg="key", value=ast.Attribute(value=_copy.deepcopy(d), attr="get", ctx=ast.Load()))]))


def _simple_ref(e):
    while isinstance(e, ast.Attribute):
        e = e.value
    return isinstance(e, (ast.Name, ast.Constant))


def _as_list(x):
    return x if isinstance(x, list) else [x]


class _Canon(ast.NodeTransformer):
    """Orientation-free form of the analysed tree, applied in place right after parsing (positions are kept):
    `a == b` / `a != b` with the textually larger operand first; `if not T: A else: B` as `if T: B else: A`
    (also for conditional expressions); `d[k] = d[k] op v` as `d[k] op= v`. The idiom rules then need to know one
    spelling only."""

    def visit_Compare(self, node):
        self.generic_visit(node)
        if len(node.ops) == 1 and isinstance(node.ops[0], (ast.Eq, ast.NotEq)):
            l, r = node.left, node.comparators[0]
            if ast.unparse(l) < ast.unparse(r):
                node.left, node.comparators = r, [l]
        return node

    def visit_If(self, node):
        self.generic_visit(node)
        if node.orelse and isinstance(node.test, ast.UnaryOp) and isinstance(node.test.op, ast.Not):
            node.test = node.test.operand
            node.body, node.orelse = node.orelse, node.body
        # if not a or not b: A else: B   ->   if a and b: B else: A      (likewise `not a and not b`)
        t = node.test
        if node.orelse and isinstance(t, ast.BoolOp) and all(isinstance(v, ast.UnaryOp) and isinstance(v.op, ast.Not)
                                                             for v in t.values):
            node.test = ast.copy_location(ast.BoolOp(op=ast.And() if isinstance(t.op, ast.Or) else ast.Or(),
                                                     values=[v.operand for v in t.values]), t)
            node.body, node.orelse = node.orelse, node.body
        # if x is None: A else: B   ->   if x is not None: B else: A
        t = node.test
        if node.orelse and isinstance(t, ast.Compare) and len(t.ops) == 1 and isinstance(t.ops[0], ast.Is) and \
                isinstance(t.comparators[0], ast.Constant) and t.comparators[0].value is None:
            t.ops = [ast.IsNot()]
            node.body, node.orelse = node.orelse, node.body
        return node

    def visit_Assign(self, node):
        self.generic_visit(node)
        # k, _ = max(d.items(), key=itemgetter(1))   ->   k = max(d, key=d.get)      (when _ is a throw-away name)
        if len(node.targets) == 1 and isinstance(node.targets[0], ast.Tuple) and len(node.targets[0].elts) == 2 and \
                isinstance(node.targets[0].elts[1], ast.Name) and node.targets[0].elts[1].id.startswith("_") and \
                _items_max(node.value) is not None:
            new = ast.Assign(targets=[node.targets[0].elts[0]], value=_max_by_get(_items_max(node.value),
                                                                                  node.value.func.id))
            return ast.fix_missing_locations(ast.copy_location(new, node))
        # x = dict(p, k=v)   ->   x = dict(p); x['k'] = v
        if len(node.targets) == 1 and isinstance(node.targets[0], (ast.Name, ast.Attribute)) and \
                isinstance(node.value, ast.Call) and isinstance(node.value.func, ast.Name) and \
                node.value.func.id == "dict" and len(node.value.args) == 1 and node.value.keywords and \
                all(k.arg is not None for k in node.value.keywords) and _simple_ref(node.targets[0]):
            import copy as _copy
            t = node.targets[0]
            first = ast.Assign(targets=[t], value=ast.Call(func=node.value.func, args=node.value.args, keywords=[]))
            out = [ast.fix_missing_locations(ast.copy_location(first, node))]
            for k in node.value.keywords:
                tl = _copy.deepcopy(t)
                tl.ctx = ast.Load()
                st = ast.Assign(targets=[ast.Subscript(value=tl, slice=ast.Constant(value=k.arg), ctx=ast.Store())],
                                value=k.value)
                out.append(ast.fix_missing_locations(ast.copy_location(st, node)))
            return out
        # a, b = (x, y)  ->  a = x; b = y     (when no value reads a target and, for non-local targets, the values
        # are pure: the order of evaluations and stores is then immaterial)
        if len(node.targets) == 1 and isinstance(node.targets[0], ast.Tuple) and isinstance(node.value, ast.Tuple) \
                and len(node.targets[0].elts) == len(node.value.elts) and len(node.value.elts) > 1 and \
                not any(isinstance(e, ast.Starred) for e in node.targets[0].elts + node.value.elts):
            tg, vs = node.targets[0].elts, node.value.elts
            ttxt = {ast.unparse(t) for t in tg}
            roots = set()
            for t in tg:
                b = t
                while isinstance(b, (ast.Attribute, ast.Subscript)):
                    b = b.value
                if isinstance(b, ast.Name) and not isinstance(t, ast.Name):
                    roots.add(ast.unparse(t.value))
            reads = {ast.unparse(n) for v in vs for n in ast.walk(v) if isinstance(n, (ast.Name, ast.Attribute,
                                                                                         ast.Subscript))}
            local = all(isinstance(t, ast.Name) for t in tg)
            # a value may read its own target and the targets still to be assigned, not one assigned before it
            early = any(ast.unparse(n) == ast.unparse(tg[j]) for i, v in enumerate(vs) for n in ast.walk(v)
                        if isinstance(n, (ast.Name, ast.Attribute, ast.Subscript)) for j in range(i))
            # (values that can fail must all be evaluated before the first store into the bandit)
            if (local and not early or not (ttxt & reads)) and not (roots & reads) and \
                    (local or all(_pure_expr(v) for v in vs) and not any(_may_raise(v) for v in vs[1:])) and \
                    all(isinstance(t, (ast.Name, ast.Attribute, ast.Subscript)) for t in tg):
                out = []
                for t, v in zip(tg, vs):
                    out.extend(_as_list(self.visit_Assign(ast.copy_location(ast.Assign(targets=[t], value=v), node))))
                return out
        # d[k] = d[k] op v  ->  d[k] op= v   (entries of containers; whole names / attributes keep their spelling)
        if len(node.targets) == 1 and isinstance(node.targets[0], ast.Subscript) and \
                isinstance(node.value, ast.BinOp) and not isinstance(node.targets[0].slice, ast.Slice) and \
                ast.unparse(node.value.left) == ast.unparse(node.targets[0]):
            return ast.copy_location(ast.AugAssign(target=node.targets[0], op=node.value.op, value=node.value.right),
                                     node)
        return node

    def visit_Expr(self, node):
        self.generic_visit(node)
        # X.update({K: V for K in IT})  ->  for K in IT: X[K] = V      (V does not read X, so the order of the
        # evaluations and the stores does not matter)
        c = node.value
        if isinstance(c, ast.Call) and isinstance(c.func, ast.Attribute) and c.func.attr == "update" and \
                len(c.args) == 1 and not c.keywords and isinstance(c.args[0], ast.DictComp):
            dc = c.args[0]
            x = ast.unparse(c.func.value)
            if len(dc.generators) == 1 and not dc.generators[0].ifs and not dc.generators[0].is_async and \
                    isinstance(dc.generators[0].target, ast.Name) and isinstance(dc.key, ast.Name) and \
                    dc.key.id == dc.generators[0].target.id and \
                    not any(isinstance(n, (ast.Attribute, ast.Name)) and ast.unparse(n) == x
                            for n in ast.walk(dc.value)) and \
                    not any(isinstance(n, (ast.Call, ast.Lambda, ast.NamedExpr)) for n in ast.walk(c.func.value)):
                g = dc.generators[0]
                tgt = ast.Subscript(value=c.func.value, slice=ast.Name(id=dc.key.id, ctx=ast.Load()), ctx=ast.Store())
                st = ast.Assign(targets=[tgt], value=dc.value, lineno=node.lineno)
                loop = ast.For(target=g.target, iter=g.iter, body=[st], orelse=[], lineno=node.lineno)
                ast.copy_location(loop, node)
                ast.copy_location(st, node)
                ast.fix_missing_locations(loop)
                return loop
        return node

    def visit_Subscript(self, node):
        self.generic_visit(node)
        # max(d.items(), key=itemgetter(1))[0]  ->  max(d, key=d.get)       (the first key with the largest value)
        if isinstance(node.slice, ast.Constant) and node.slice.value == 0 and isinstance(node.ctx, ast.Load):
            d = _items_max(node.value)
            if d is not None:
                return ast.copy_location(_max_by_get(d, node.value.func.id), node)
        return node

    def visit_Call(self, node):
        self.generic_visit(node)
        # f((x for x in xs))  ->  f(xs)      (an identity generator handed to a consumer of iterables)
        for i, a in enumerate(node.args):
            if isinstance(a, ast.GeneratorExp) and len(a.generators) == 1 and not a.generators[0].ifs and \
                    isinstance(a.generators[0].target, ast.Name) and isinstance(a.elt, ast.Name) and \
                    a.elt.id == a.generators[0].target.id and isinstance(node.func, ast.Attribute) and \
                    node.func.attr in ("from_iterable",):
                node.args[i] = a.generators[0].iter
        # np.concatenate([a, b], axis=0)  ->  np.concatenate((a, b))
        if isinstance(node.func, ast.Attribute) and node.func.attr == "concatenate" and node.args and \
                isinstance(node.args[0], (ast.List, ast.Tuple)) and len(node.args) == 1:
            kws = [k for k in node.keywords if not (k.arg == "axis" and isinstance(k.value, ast.Constant) and
                                                    k.value.value == 0)]
            node.keywords = kws
            if isinstance(node.args[0], ast.List):
                node.args[0] = ast.copy_location(ast.Tuple(elts=node.args[0].elts, ctx=ast.Load()), node.args[0])
        # min / max / sorted(xs, key=d.__getitem__)  ->  key=d.get   (the elements are keys of d in either spelling)
        if isinstance(node.func, ast.Name) and node.func.id in ("min", "max", "sorted"):
            for k in node.keywords:
                if k.arg == "key" and isinstance(k.value, ast.Attribute) and k.value.attr == "__getitem__":
                    k.value = ast.copy_location(ast.Attribute(value=k.value.value, attr="get", ctx=ast.Load()),
                                                k.value)
        # map(f, xs) -> (f(x) for x in xs) ;  list(<generator expression>) -> [ ... ]
        if isinstance(node.func, ast.Name) and node.func.id == "map" and len(node.args) == 2 and \
                not node.keywords and isinstance(node.args[0], (ast.Name, ast.Attribute)):
            var = "_m%d" % getattr(node, "lineno", 0)
            elt = ast.Call(func=node.args[0], args=[ast.Name(id=var, ctx=ast.Load())], keywords=[])
            gen = ast.GeneratorExp(elt=elt, generators=[ast.comprehension(
                target=ast.Name(id=var, ctx=ast.Store()), iter=node.args[1], ifs=[], is_async=0)])
            return ast.fix_missing_locations(ast.copy_location(gen, node))
        if isinstance(node.func, ast.Name) and node.func.id == "dict" and len(node.args) == 1 and \
                not node.keywords and isinstance(node.args[0], (ast.GeneratorExp, ast.ListComp)) and \
                isinstance(node.args[0].elt, ast.Tuple) and len(node.args[0].elt.elts) == 2:
            g = node.args[0]
            return ast.copy_location(ast.DictComp(key=g.elt.elts[0], value=g.elt.elts[1], generators=g.generators),
                                     node)
        if isinstance(node.func, ast.Name) and node.func.id == "list" and len(node.args) == 1 and \
                not node.keywords and isinstance(node.args[0], ast.GeneratorExp):
            g = node.args[0]
            return ast.copy_location(ast.ListComp(elt=g.elt, generators=g.generators), node)
        return node

    def visit_For(self, node):
        self.generic_visit(node)
        # for k in d: d[k] = v   (v a name, constant or attribute chain that does not mention k)
        #     ->  d.update({}.fromkeys(d, v))        every key of d is mapped to the one value
        it0 = node.iter
        if isinstance(it0, ast.Call) and isinstance(it0.func, ast.Attribute) and it0.func.attr == "keys" and \
                not it0.args and not it0.keywords:
            it0 = it0.func.value
        if isinstance(node.target, ast.Name) and not node.orelse and len(node.body) == 1 and _simple_ref(it0) and \
                not isinstance(it0, ast.Constant) and isinstance(node.body[0], ast.Assign) and \
                len(node.body[0].targets) == 1 and isinstance(node.body[0].targets[0], ast.Subscript):
            t, v = node.body[0].targets[0], node.body[0].value
            if ast.unparse(t.value) == ast.unparse(it0) and isinstance(t.slice, ast.Name) and \
                    t.slice.id == node.target.id and _simple_ref(v) and \
                    not any(isinstance(n, ast.Name) and n.id == node.target.id for n in ast.walk(v)):
                import copy as _copy
                d = _copy.deepcopy(it0)
                call = ast.Call(func=ast.Attribute(value=d, attr="update", ctx=ast.Load()), args=[ast.Call(
                    func=ast.Attribute(value=ast.Dict(keys=[], values=[]), attr="fromkeys", ctx=ast.Load()),
                    args=[_copy.deepcopy(it0), v], keywords=[])], keywords=[])
                return ast.fix_missing_locations(ast.copy_location(ast.Expr(value=call), node))
        # for k in d: v = d[k]; ...   ->   for k, v in d.items(): ...
        if isinstance(node.target, ast.Name) and not node.orelse and len(node.body) >= 2 and _simple_ref(it0) and \
                not isinstance(it0, ast.Constant) and isinstance(node.body[0], ast.Assign) and \
                len(node.body[0].targets) == 1 and isinstance(node.body[0].targets[0], ast.Name) and \
                isinstance(node.body[0].value, ast.Subscript) and \
                ast.unparse(node.body[0].value.value) == ast.unparse(it0) and \
                isinstance(node.body[0].value.slice, ast.Name) and node.body[0].value.slice.id == node.target.id:
            k, v, dt = node.target.id, node.body[0].targets[0].id, ast.unparse(it0)
            rest = node.body[1:]
            clash = any(isinstance(n, ast.Name) and n.id in (k, v) and isinstance(n.ctx, (ast.Store, ast.Del))
                        for st in rest for n in ast.walk(st)) or k == v
            touched = any(isinstance(n, (ast.Subscript, ast.Attribute)) and isinstance(n.ctx, (ast.Store, ast.Del))
                          and ast.unparse(n).startswith(dt) for st in rest for n in ast.walk(st))
            if not clash and not touched:
                import copy as _copy
                node.target = ast.Tuple(elts=[ast.Name(id=k, ctx=ast.Store()), ast.Name(id=v, ctx=ast.Store())],
                                        ctx=ast.Store())
                node.iter = ast.Call(func=ast.Attribute(value=_copy.deepcopy(it0), attr="items", ctx=ast.Load()),
                                     args=[], keywords=[])
                node.body = rest
                return ast.fix_missing_locations(node)
        # for x in (a, b, c): body  ->  body[x := a]; body[x := b]; body[x := c]     (a, b, c names or attribute chains)
        it = node.iter
        if isinstance(it, (ast.Tuple, ast.List)) and 0 < len(it.elts) <= 8 and isinstance(node.target, ast.Name) and \
                not node.orelse and all(_simple_ref(e) for e in it.elts):
            x = node.target.id
            inner = [n for st in node.body for n in ast.walk(st)]
            if not any(isinstance(n, (ast.Break, ast.Continue, ast.FunctionDef, ast.Lambda, ast.Return)) for n in inner) \
                    and not any(isinstance(n, ast.Name) and n.id == x and isinstance(n.ctx, (ast.Store, ast.Del))
                                for n in inner):
                import copy as _copy
                out = []
                for e in it.elts:
                    for st in node.body:
                        out.append(_Subst({x: e}).visit(_copy.deepcopy(st)))
                return out
        return node

    def visit_Return(self, node):
        self.generic_visit(node)
        # return a if c else b   ->   if c: return a else: return b
        if isinstance(node.value, ast.IfExp):
            v = node.value
            new = ast.If(test=v.test, body=[ast.copy_location(ast.Return(value=v.body), node)],
                         orelse=[ast.copy_location(ast.Return(value=v.orelse), node)])
            return self.visit_If(ast.fix_missing_locations(ast.copy_location(new, node)))
        return node

    def visit_UnaryOp(self, node):
        self.generic_visit(node)
        # not (a or b) -> not a and not b ;  not (a and b) -> not a or not b
        # not (a is b) -> a is not b ; not (a == b) -> a != b ; not (a in b) -> a not in b   (and the reverse)
        if isinstance(node.op, ast.Not) and isinstance(node.operand, ast.Compare) and len(node.operand.ops) == 1:
            flip = {ast.Is: ast.IsNot, ast.IsNot: ast.Is, ast.Eq: ast.NotEq, ast.NotEq: ast.Eq, ast.In: ast.NotIn,
                    ast.NotIn: ast.In}.get(type(node.operand.ops[0]))
            if flip is not None:
                c = node.operand
                c.ops = [flip()]
                return c
        if isinstance(node.op, ast.Not) and isinstance(node.operand, ast.BoolOp):
            inner = node.operand
            vals = [ast.UnaryOp(op=ast.Not(), operand=v) for v in inner.values]
            new = ast.BoolOp(op=ast.And() if isinstance(inner.op, ast.Or) else ast.Or(), values=vals)
            return ast.fix_missing_locations(ast.copy_location(new, node))
        return node

    def visit_IfExp(self, node):
        self.generic_visit(node)
        if isinstance(node.test, ast.UnaryOp) and isinstance(node.test.op, ast.Not):
            node.test = node.test.operand
            node.body, node.orelse = node.orelse, node.body
        t = node.test
        if isinstance(t, ast.BoolOp) and all(isinstance(v, ast.UnaryOp) and isinstance(v.op, ast.Not)
                                             for v in t.values):
            node.test = ast.copy_location(ast.BoolOp(op=ast.And() if isinstance(t.op, ast.Or) else ast.Or(),
                                                     values=[v.operand for v in t.values]), t)
            node.body, node.orelse = node.orelse, node.body
        return node


def _terminates(body):
    if not body:
        return False
    last = body[-1]
    if isinstance(last, (ast.Return, ast.Raise, ast.Continue, ast.Break)):
        return True
    if isinstance(last, ast.If) and last.orelse:
        return _terminates(last.body) and _terminates(last.orelse)
    return False


def _nest_block(block, in_loop):
    """`if T: ...; return/raise/continue` followed by more statements  ==  `if T: ... else: <the rest>`.
    Guard clauses and early exits are brought into the if/else form (a trailing `continue` that the nesting makes
    redundant is dropped), so that both spellings of a branch look alike to the idiom rules."""
    for st in block:
        for fld in ("body", "orelse", "finalbody"):
            sub = getattr(st, fld, None)
            if isinstance(sub, list) and sub and isinstance(sub[0], ast.stmt):
                loop = in_loop
                if isinstance(st, (ast.For, ast.While, ast.AsyncFor)) and fld == "body":
                    loop = True
                elif isinstance(st, (ast.FunctionDef, ast.AsyncFunctionDef, ast.ClassDef)):
                    loop = False
                setattr(st, fld, _nest_block(sub, loop))
        if isinstance(st, ast.Try):
            for h in st.handlers:
                h.body = _nest_block(h.body, in_loop)
    out = []
    i = 0
    while i < len(block):
        st = block[i]
        rest = block[i + 1:]
        if isinstance(st, ast.If) and not st.orelse and rest and _terminates(st.body) and \
                not isinstance(st.body[-1], ast.Break):
            st.orelse = _nest_block(rest, in_loop)
            if in_loop and isinstance(st.body[-1], ast.Continue):
                st.body = st.body[:-1] or [ast.copy_location(ast.Pass(), st.body[-1])]
            if isinstance(st.test, ast.UnaryOp) and isinstance(st.test.op, ast.Not):
                st.test = st.test.operand
                st.body, st.orelse = st.orelse, st.body
            if len(st.body) == 1 and isinstance(st.body[0], ast.Pass) and st.orelse:
                # `if T: pass else: R`  ->  `if not T: R`
                st.test = ast.copy_location(ast.UnaryOp(op=ast.Not(), operand=st.test), st.test)
                st.body, st.orelse = st.orelse, []
            out.append(st)
            break
        out.append(st)
        i += 1
    return out


PURE_FUNCS = {"len", "int", "float", "str", "bool", "min", "max", "sum", "abs", "range", "list", "tuple", "sorted", "zip",
              "enumerate", "isinstance", "hasattr", "round", "any", "all", "slice", "argmax", "argmin", "delayed"}
PURE_MODULES = {"np", "math", "numpy"}
PURE_METHODS = {"sum", "mean", "std", "min", "max", "copy", "reshape", "tolist", "keys", "values", "items", "get",
                "astype", "nonzero", "any", "all", "apply", "ravel", "squeeze", "transpose", "dot", "argmax", "argmin",
                "flatten", "cumsum", "round", "index", "count", "format", "startswith", "endswith", "intersection",
                "union", "difference", "tocsr", "item"}
MUTATING_METHODS = {"append", "extend", "insert", "remove", "pop", "clear", "sort", "reverse", "update", "setdefault",
                    "add", "discard", "fill", "resize", "put", "popitem", "partition", "shuffle", "fit", "partial_fit"}


def _pure_expr(e):
    """no call in e can have a side effect, draw a random number or create an object whose identity matters"""
    for n in ast.walk(e):
        if isinstance(n, (ast.Lambda, ast.Yield, ast.YieldFrom, ast.Await, ast.NamedExpr)):
            return False
        if isinstance(n, ast.Call):
            f = n.func
            if isinstance(f, ast.Name):
                if f.id not in PURE_FUNCS:
                    return False
            elif isinstance(f, ast.Attribute):
                base = f.value
                if isinstance(base, ast.Name) and base.id in PURE_MODULES:
                    if f.attr in ("random", "seterr"):
                        return False
                elif isinstance(base, ast.Attribute) and isinstance(base.value, ast.Name) and \
                        base.value.id in PURE_MODULES:
                    if base.attr == "random":
                        return False            # np.random.*
                elif f.attr not in PURE_METHODS:
                    return False
                elif isinstance(base, ast.Attribute) and ast.unparse(base).endswith(".rng"):
                    return False
            else:
                return False
    return True


def _shape_only(e):
    """e reads nothing but the dimensions of arrays held in locals (len(x), x.shape[1], x.size, x.ndim): numpy
    arrays are never resized in place here, so no statement between definition and use can change the value"""
    if isinstance(e, ast.Constant):
        return True
    if isinstance(e, ast.Name):
        return False                    # the array itself is not a dimension
    if isinstance(e, ast.Attribute):
        return e.attr in ("shape", "size", "ndim") and isinstance(e.value, ast.Name)
    if isinstance(e, ast.Subscript):
        return isinstance(e.value, ast.Attribute) and e.value.attr == "shape" and \
            isinstance(e.value.value, ast.Name) and isinstance(e.slice, ast.Constant)
    if isinstance(e, ast.Call):
        return isinstance(e.func, ast.Name) and e.func.id == "len" and len(e.args) == 1 and not e.keywords and \
            isinstance(e.args[0], ast.Name)
    if isinstance(e, ast.BinOp):
        return _shape_only(e.left) and _shape_only(e.right)
    if isinstance(e, ast.Compare):
        return _shape_only(e.left) and all(_shape_only(c) for c in e.comparators)
    return False


def _self_field_of(target):
    """X when target is self.X, self.X[..], self.X.y ... (the field of self a store through target goes into)"""
    b = target
    fld = None
    while isinstance(b, (ast.Attribute, ast.Subscript)):
        if isinstance(b, ast.Attribute) and isinstance(b.value, ast.Name) and b.value.id == "self":
            fld = b.attr
        b = b.value
    return fld if isinstance(b, ast.Name) and b.id == "self" else None


RAISING_CALLS = {"concatenate", "append", "dot", "matmul", "inv", "solve", "pinv", "vstack", "hstack", "stack",
                 "column_stack", "reshape", "cdist", "transform", "predict", "apply", "multivariate_normal",
                 "cholesky", "astype", "asarray", "array", "fromiter", "argpartition"}


def _may_raise(e):
    """can evaluating the (otherwise pure) expression fail on ill-shaped input? Such an evaluation must keep its
    place relative to the stores into the bandit: where it stands decides what state an exception leaves behind"""
    for n in ast.walk(e):
        if isinstance(n, ast.Call):
            f = n.func
            name = f.attr if isinstance(f, ast.Attribute) else (f.id if isinstance(f, ast.Name) else None)
            if name in RAISING_CALLS:
                return True
    return False


def _stores_state(st):
    for n in ast.walk(st):
        tgt = None
        if isinstance(n, (ast.Attribute, ast.Subscript)) and isinstance(n.ctx, (ast.Store, ast.Del)):
            tgt = n
        elif isinstance(n, ast.AugAssign) and not isinstance(n.target, ast.Name):
            tgt = n.target
        if tgt is not None and _self_field_of(tgt) is not None:
            return True
    return False


def _stable_self_path(e):
    """self.F, self.F[k], self.F[k].g ... with names / constants as keys"""
    if not isinstance(e, (ast.Attribute, ast.Subscript)) or _self_field_of(e) is None:
        return False
    return not any(isinstance(n, (ast.Call, ast.Slice, ast.BinOp, ast.Lambda, ast.IfExp, ast.Compare, ast.BoolOp))
                   for n in ast.walk(e))


def _is_barrier(st, reads_self, expr=None, alias=None):
    """can executing st change what a pure expression (reading self.* iff reads_self) evaluates to? With `expr`
    given, a store into field X of self only matters when expr reads an attribute called X (two differently named
    fields of one object are taken not to alias)."""
    fields = {n.attr for n in ast.walk(expr) if isinstance(n, ast.Attribute)} if expr is not None else None
    for n in ast.walk(st):
        tgt = None
        if isinstance(n, (ast.Attribute, ast.Subscript)) and isinstance(n.ctx, (ast.Store, ast.Del)):
            tgt = n
        elif isinstance(n, ast.AugAssign) and not isinstance(n.target, ast.Name):
            tgt = n.target
        if tgt is not None:
            root = tgt
            while isinstance(root, (ast.Attribute, ast.Subscript)):
                root = root.value
            if alias is not None and isinstance(root, ast.Name) and root.id == alias:
                continue        # written through the alias itself: the entry's content, not which entry it is
            fld = _self_field_of(tgt)
            if fields is None or fld is None or fld in fields:
                return True
        if isinstance(n, ast.Call) and not _pure_expr(n):
            if alias is not None and isinstance(n.func, ast.Attribute) and isinstance(n.func.value, ast.Name) and \
                    n.func.value.id == alias and n.func.attr in MUTATING_METHODS and \
                    n.func.attr not in ("fit", "partial_fit") and all(_pure_expr(a) for a in n.args):
                continue        # x.append(v) on the alias
            return True
    return False


def _forward_stores(fn):
    """Equalities between a local and an entry of a field of self, as a forward must-analysis over the structured
    body: after `x = self.F[k]` or `self.F[k] = x` the two hold the same value until x is rebound, field F is written
    or a call may write it; at the end of an if/else an equality holds if it holds on both branches. Where an
    equality holds, reads of the local are spelled as reads of the entry. With dead and single-use temporaries
    removed afterwards, `x = self.F[k] + e; self.F[k] = x; ... x ...` reads like `self.F[k] += e; ... self.F[k] ...`
    (two differently named fields of self are taken not to alias)."""
    import copy as _copy
    for n in ast.walk(fn):
        if isinstance(n, (ast.FunctionDef, ast.AsyncFunctionDef, ast.Lambda, ast.ClassDef)) and n is not fn:
            return
        if isinstance(n, (ast.Global, ast.Nonlocal, ast.Try, ast.With)):
            return

    a_ = fn.args
    params = {x.arg for x in a_.posonlyargs + a_.args + a_.kwonlyargs}

    def stable(t):
        if not isinstance(t, (ast.Attribute, ast.Subscript)) or _self_field_of(t) is None:
            return False
        for n in ast.walk(t):
            if isinstance(n, (ast.Call, ast.Slice, ast.BinOp, ast.Lambda, ast.IfExp, ast.Compare, ast.BoolOp)):
                return False
        return True

    def impure_calls(node):
        return [n for n in ast.walk(node) if isinstance(n, ast.Call) and
                not _pure_expr(ast.Call(func=n.func, args=[], keywords=[])) and
                not (isinstance(n.func, ast.Name) and n.func.id in EFFECT_FREE_CONSTRUCTORS)]

    # eq maps a local name to the field entry it equals, and "#<field path>" to the expression over locals that was
    # just stored into that field
    def rewrite(node, eq):
        if not eq:
            return node
        rev = {k[1:]: v for k, v in eq.items() if k.startswith("#")}

        class R(ast.NodeTransformer):
            def generic_visit(self, n):
                if rev and isinstance(n, (ast.Attribute, ast.Subscript)) and isinstance(n.ctx, ast.Load) and \
                        _self_field_of(n) is not None:
                    k = " ".join(ast.unparse(n).split())
                    if k in rev:
                        return ast.copy_location(_copy.deepcopy(rev[k]), n)
                return super().generic_visit(n)

            def visit_Name(self, n):
                if isinstance(n.ctx, ast.Load) and n.id in eq and not n.id.startswith("#"):
                    new = _copy.deepcopy(eq[n.id])
                    for m in ast.walk(new):
                        if hasattr(m, "ctx"):
                            m.ctx = ast.Load()
                    return ast.copy_location(new, n)
                return n

            def visit_Lambda(self, n):
                return n                # evaluated later (list / dict / set comprehensions are evaluated in place)
            visit_GeneratorExp = visit_Lambda
        return R().visit(node)

    def kill_name(eq, name):
        eq.pop(name, None)
        for k in list(eq):
            if any(isinstance(x, ast.Name) and x.id == name for x in ast.walk(eq[k])):
                del eq[k]

    def kill_field(eq, fld):
        for k in list(eq):
            if k.startswith("#"):
                p_ = k[1:]
                if fld is None or ("self." + fld) == p_ or p_.startswith("self." + fld + "[") or \
                        p_.startswith("self." + fld + "."):
                    del eq[k]
            elif fld is None or _self_field_of(eq[k]) == fld:
                del eq[k]

    def effects(node, eq):
        """apply what executing the expressions / simple statement `node` can change"""
        for n in ast.walk(node):
            if isinstance(n, ast.Name) and isinstance(n.ctx, (ast.Store, ast.Del)):
                kill_name(eq, n.id)
            tgt = None
            if isinstance(n, (ast.Attribute, ast.Subscript)) and isinstance(n.ctx, (ast.Store, ast.Del)):
                tgt = n
            elif isinstance(n, ast.AugAssign) and not isinstance(n.target, ast.Name):
                tgt = n.target
            if tgt is not None:
                kill_field(eq, _self_field_of(tgt))
            if isinstance(n, ast.Call) and not _pure_expr(n):
                eq.clear()
            if isinstance(n, ast.Call) and isinstance(n.func, ast.Attribute) and n.func.attr in MUTATING_METHODS:
                b = n.func.value
                while isinstance(b, (ast.Attribute, ast.Subscript)):
                    b = b.value
                if isinstance(b, ast.Name):
                    kill_name(eq, b.id)

    def locals_only(v):
        """a small pure expression over locals (no read of self): what a field holds right after `self.F = v`"""
        if isinstance(v, (ast.Name, ast.Constant)) or not _pure_expr(v):
            return False
        if any(isinstance(x, ast.Name) and x.id == "self" for x in ast.walk(v)):
            return False
        if any(isinstance(x, (ast.Call, ast.Lambda, ast.ListComp, ast.DictComp, ast.SetComp, ast.GeneratorExp,
                              ast.List, ast.Dict, ast.Set)) for x in ast.walk(v)):
            return False        # the field must hold the very object the expression denotes
        return True

    def loads_ok(value):
        """every read in `value` happens before any effect of it: no impure call, or just one at the top"""
        imp = impure_calls(value)
        return not imp or (len(imp) == 1 and imp[0] is value)

    def block(stmts, eq):
        for i, st in enumerate(stmts):
            if isinstance(st, ast.If):
                if loads_ok(st.test):
                    st.test = rewrite(st.test, eq)
                effects(st.test, eq)
                a = block(st.body, dict(eq))
                b = block(st.orelse, dict(eq))
                eq.clear()
                eq.update({k: v for k, v in a.items() if k in b and ast.dump(b[k]) == ast.dump(v)})
            elif isinstance(st, (ast.For, ast.While)):
                head = st.iter if isinstance(st, ast.For) else None
                if head is not None and loads_ok(head):
                    st.iter = rewrite(st.iter, eq)
                inner = dict(eq)
                effects(st, inner)              # whatever any turn of the loop can change does not hold inside it
                out = block(st.body, dict(inner))
                block(st.orelse, dict(inner))
                eq.clear()
                eq.update({k: v for k, v in inner.items() if k in out and ast.dump(out[k]) == ast.dump(v)})
            elif isinstance(st, ast.Assign) and len(st.targets) == 1:
                t, v = st.targets[0], st.value
                if loads_ok(v) and not any(isinstance(n, ast.Call) for n in ast.walk(t)):
                    st.value = v = rewrite(v, eq)
                    if isinstance(t, ast.Subscript):
                        t.slice = rewrite(t.slice, eq)
                effects(st, eq)
                if stable(t) and isinstance(t, ast.Attribute) and isinstance(t.value, ast.Name) and \
                        t.value.id == "self" and locals_only(v):
                    eq["#" + " ".join(ast.unparse(t).split())] = v
                if isinstance(t, ast.Name) and t.id not in params and stable(v) and not any(
                        isinstance(x, ast.Name) and x.id == t.id for x in ast.walk(v)):
                    eq[t.id] = v
                elif isinstance(v, ast.Name) and v.id not in params and stable(t) and not any(
                        isinstance(x, ast.Name) and x.id == v.id for x in ast.walk(t)):
                    tl = _copy.deepcopy(t)
                    for m in ast.walk(tl):
                        if hasattr(m, "ctx"):
                            m.ctx = ast.Load()
                    eq[v.id] = tl
            elif isinstance(st, (ast.AugAssign, ast.Expr, ast.Return, ast.AnnAssign)) and \
                    getattr(st, "value", None) is not None:
                if loads_ok(st.value) and not (isinstance(st, ast.AugAssign) and impure_calls(st.target)):
                    st.value = rewrite(st.value, eq)
                effects(st, eq)
            else:
                effects(st, eq)
        return eq

    block(fn.body, {})
    ast.fix_missing_locations(fn)


def _drop_dead_assignments(fn):
    """`x = <pure expression>` whose value no path reads (backward liveness over the structured body)"""
    for n in ast.walk(fn):
        if isinstance(n, (ast.FunctionDef, ast.AsyncFunctionDef, ast.Lambda, ast.ClassDef)) and n is not fn:
            return False
        if isinstance(n, (ast.Global, ast.Nonlocal, ast.Try, ast.With)):
            return False
    everything = {n.id for n in ast.walk(fn) if isinstance(n, ast.Name)}
    dead = []

    def loads(node):
        return {n.id for n in ast.walk(node) if isinstance(n, ast.Name) and isinstance(n.ctx, ast.Load)}

    def stores(node):
        return {n.id for n in ast.walk(node) if isinstance(n, ast.Name) and isinstance(n.ctx, (ast.Store, ast.Del))}

    def block(stmts, live, mark):
        for st in reversed(stmts):
            live = transfer(st, live, mark)
        return live

    def transfer(st, live, mark):
        if isinstance(st, ast.Assign) and len(st.targets) == 1 and isinstance(st.targets[0], ast.Name):
            x = st.targets[0].id
            if x not in live and _pure_expr(st.value) and not _may_raise(st.value):
                if mark:
                    dead.append(st)
                return live
            return (live - {x}) | loads(st.value)
        if isinstance(st, ast.If):
            return loads(st.test) | block(st.body, live, mark) | block(st.orelse, live, mark)
        if isinstance(st, (ast.For, ast.While)):
            after = live | block(st.orelse, live, False)
            head = loads(st.iter) if isinstance(st, ast.For) else loads(st.test)
            tgt = stores(st.target) if isinstance(st, ast.For) else set()
            inner = after | head
            for _ in range(3):
                inner = inner | (block(st.body, inner | after, False) - tgt) | head
            block(st.body, inner | after, mark)
            block(st.orelse, live, mark)
            return inner | after
        if isinstance(st, (ast.Return, ast.Raise)):
            return loads(st)
        if isinstance(st, (ast.Break, ast.Continue)):
            return set(everything)
        if isinstance(st, ast.AugAssign):
            return live | loads(st) | stores(st)
        return (live - stores(st)) | loads(st)

    block(fn.body, set(), True)
    if not dead:
        return False
    ids = {id(d) for d in dead}

    def prune(stmts):
        out = [s2 for s2 in stmts if id(s2) not in ids]
        for s2 in out:
            for fld in ("body", "orelse"):
                b = getattr(s2, fld, None)
                if isinstance(b, list) and b and isinstance(b[0], ast.stmt):
                    nb = prune(b)
                    if not nb and fld == "body":
                        nb = [ast.copy_location(ast.Pass(), s2)]
                    setattr(s2, fld, nb)
        return out
    fn.body = prune(fn.body) or [ast.Pass()]
    return True


def _inline_temporaries(fn):
    """Removes single-assignment locals that merely name a pure expression: every use gets the expression itself.
    (Done on the analysed copy only; evaluation is pure and its inputs cannot change between definition and uses, so
    the meaning of the function is unchanged.) Rules then see `rewards[decisions == arm].size` whether or not the
    author gave the selection a name."""
    changed = True
    rounds = 0
    while changed and rounds < 12:
        changed = False
        rounds += 1
        stores, loads = {}, {}
        nested = False
        for n in ast.walk(fn):
            if isinstance(n, (ast.FunctionDef, ast.AsyncFunctionDef, ast.Lambda, ast.ClassDef)) and n is not fn:
                nested = True
            if isinstance(n, (ast.Global, ast.Nonlocal)):
                nested = True
            if isinstance(n, ast.Name):
                (stores if isinstance(n.ctx, (ast.Store, ast.Del)) else loads).setdefault(n.id, []).append(n)
        if nested:
            return
        a = fn.args
        params = {x.arg for x in a.posonlyargs + a.args + a.kwonlyargs}
        if a.vararg:
            params.add(a.vararg.arg)
        if a.kwarg:
            params.add(a.kwarg.arg)
        mutated = set()
        for n in ast.walk(fn):
            if isinstance(n, (ast.Subscript, ast.Attribute)) and isinstance(n.ctx, (ast.Store, ast.Del)):
                b = n.value
                while isinstance(b, (ast.Subscript, ast.Attribute)):
                    b = b.value
                if isinstance(b, ast.Name):
                    mutated.add(b.id)
            if isinstance(n, ast.AugAssign):
                b = n.target
                while isinstance(b, (ast.Subscript, ast.Attribute)):
                    b = b.value
                if isinstance(b, ast.Name):
                    mutated.add(b.id)
            if isinstance(n, ast.Call) and isinstance(n.func, ast.Attribute) and n.func.attr in MUTATING_METHODS:
                b = n.func.value
                while isinstance(b, (ast.Subscript, ast.Attribute)):
                    b = b.value
                if isinstance(b, ast.Name):
                    mutated.add(b.id)
            if isinstance(n, ast.keyword) and n.arg == "out" and isinstance(n.value, ast.Name):
                mutated.add(n.value.id)

        def blocks(node):
            for fld in ("body", "orelse", "finalbody"):
                b = getattr(node, fld, None)
                if isinstance(b, list) and b and isinstance(b[0], ast.stmt):
                    yield b
            if isinstance(node, ast.Try):
                for h in node.handlers:
                    yield h.body
        todo = [fn]
        while todo and not changed:
            node = todo.pop()
            for blk in blocks(node):
                for i, st in enumerate(blk):
                    todo.append(st)
                    if not (isinstance(st, ast.Assign) and len(st.targets) == 1 and isinstance(st.targets[0], ast.Name)):
                        continue
                    t = st.targets[0].id
                    if t in params or len(stores.get(t, [])) != 1 or not loads.get(t):
                        continue
                    e = st.value
                    # a local that is written through (x[k] = v, x.append(v)) can only be a name for an entry of a
                    # field of self: `x = self.F[k]` - the entry is then written under its own name
                    alias = None
                    if t in mutated:
                        if not _stable_self_path(e):
                            continue
                        alias = t
                    if isinstance(e, (ast.List, ast.Dict, ast.Set, ast.ListComp, ast.DictComp, ast.SetComp,
                                      ast.GeneratorExp, ast.Constant)) and not isinstance(e, ast.Constant):
                        # a new container is built once: only `x = [...]` directly followed by `return x` / `y = x`
                        nxt_ = blk[i + 1] if i + 1 < len(blk) else None
                        moved = isinstance(nxt_, (ast.Return, ast.Assign)) and isinstance(nxt_.value, ast.Name) and \
                            nxt_.value.id == t and len(loads.get(t, [])) == 1 and not isinstance(e, ast.GeneratorExp)
                        if not moved or alias is not None:
                            continue
                        import copy as _copy2
                        nxt_.value = e
                        blk.pop(i)
                        changed = True
                        break
                    if not _pure_expr(e):
                        continue
                    names = {x.id for x in ast.walk(e) if isinstance(x, ast.Name)}
                    if any(len(stores.get(x, [])) > 1 or x in mutated and x not in params for x in names):
                        continue
                    if t in names:
                        continue
                    reads_self = any(isinstance(x, (ast.Attribute, ast.Subscript)) for x in ast.walk(e)) and \
                        not _shape_only(e)
                    # every use lies in the statements that follow the definition in its own block
                    rest = blk[i + 1:]
                    uses_after = [x for s2 in rest for x in ast.walk(s2) if isinstance(x, ast.Name) and x.id == t
                                  and isinstance(x.ctx, ast.Load)]
                    if len(uses_after) != len(loads[t]):
                        continue
                    last = max((k for k, s2 in enumerate(rest) if any(isinstance(x, ast.Name) and x.id == t
                                                                      for x in ast.walk(s2))), default=-1)
                    if reads_self and any(_is_barrier(s2, True, e, alias) for s2 in rest[:last]):
                        continue
                    if alias is not None and any(_is_barrier(s2, True, e, alias) for s2 in rest[:last + 1]):
                        continue
                    if _may_raise(e) and any(_stores_state(s2) for s2 in rest[:last]):
                        continue        # a failing evaluation must not move behind a store into the bandit
                    if reads_self and last >= 0:
                        # within the last using statement the use must not follow a barrier either: accept simple
                        # statements, and compound ones only if they contain no barrier at all
                        s_last = rest[last]
                        if isinstance(s_last, (ast.If, ast.For, ast.While, ast.With, ast.Try)) and \
                                _is_barrier(s_last, True, e, alias):
                            continue
                    import copy as _copy
                    for u in uses_after:
                        new = _copy.deepcopy(e)
                        par = getattr(u, "_p", None)
                        u.__class__ = new.__class__
                        u.__dict__.clear()
                        u.__dict__.update(new.__dict__)
                    blk.pop(i)
                    if not blk:
                        blk.append(ast.copy_location(ast.Pass(), st))
                    changed = True
                    break
                if changed:
                    break


# ---------------------------------------------------------------------------------------------- helper inlining
class _Subst(ast.NodeTransformer):
    def __init__(self, mapping):
        self.mapping = mapping

    def visit_Name(self, node):
        if node.id in self.mapping:
            import copy as _copy
            new = self.mapping[node.id]
            if isinstance(new, str):
                return ast.copy_location(ast.Name(id=new, ctx=node.ctx), node)
            if isinstance(node.ctx, ast.Load):
                return ast.copy_location(_copy.deepcopy(new), node)
        return node


def _helper_candidates(trees):
    """private methods / functions that the rules do not know by name (see anchors.py), defined exactly once"""
    from .anchors import KNOWN_FUNCTIONS
    defs = {}
    for mod, tree in trees.items():
        for n in ast.walk(tree):
            if isinstance(n, ast.ClassDef):
                for m in n.body:
                    if isinstance(m, (ast.FunctionDef, ast.AsyncFunctionDef)):
                        defs.setdefault(m.name, []).append((mod, n, m))
            elif isinstance(n, ast.Module):
                for m in n.body:
                    if isinstance(m, ast.FunctionDef):
                        defs.setdefault(m.name, []).append((mod, None, m))
    out = {}
    for name, ds in defs.items():
        if name in KNOWN_FUNCTIONS or len(ds) != 1 or not name.startswith("_") or name.startswith("__"):
            continue
        mod, cls, fn = ds[0]
        a = fn.args
        if a.vararg or a.kwarg or a.kwonlyargs or a.posonlyargs:
            continue
        decos = {ast.unparse(d) for d in fn.decorator_list}
        if decos - {"staticmethod"}:
            continue
        if any(isinstance(x, (ast.Yield, ast.YieldFrom, ast.Await, ast.Global, ast.Nonlocal, ast.Lambda,
                              ast.FunctionDef, ast.ClassDef, ast.Try, ast.With))
               for b in fn.body for x in ast.walk(b)):
            continue
        if any(isinstance(x, ast.Call) and isinstance(x.func, ast.Attribute) and x.func.attr == name or
               isinstance(x, ast.Call) and isinstance(x.func, ast.Name) and x.func.id == name
               for b in fn.body for x in ast.walk(b)):
            continue        # recursive
        out[name] = (mod, cls, fn, "staticmethod" in decos)
    return out


def _helper_body(fn):
    return [s for s in fn.body if not (isinstance(s, ast.Expr) and isinstance(s.value, ast.Constant))]


def _returns_at_leaves(stmts):
    """every path through stmts ends in `return <expr>` at a leaf of an if/else tree, and there is no other return"""
    if not stmts:
        return False
    for s in stmts[:-1]:
        if any(isinstance(x, ast.Return) for x in ast.walk(s)):
            return False
    last = stmts[-1]
    if isinstance(last, ast.Return):
        return last.value is not None
    if isinstance(last, ast.If) and last.orelse:
        return _returns_at_leaves(last.body) and _returns_at_leaves(last.orelse)
    return False


def _no_return(stmts):
    return not any(isinstance(x, ast.Return) for s in stmts for x in ast.walk(s))


def _replace_leaf_returns(stmts, make):
    out = list(stmts[:-1])
    last = stmts[-1]
    if isinstance(last, ast.Return):
        out.extend(make(last.value, last))
    else:
        last.body = _replace_leaf_returns(last.body, make)
        last.orelse = _replace_leaf_returns(last.orelse, make)
        out.append(last)
    if not out:
        out = [ast.copy_location(ast.Pass(), last)]
    return out


_INLINE_COUNTER = [0]


def _instantiate(helper, call, is_static):
    """(prologue statements binding the parameters, body statements with locals renamed) or None"""
    import copy as _copy
    fn = helper
    params = [a.arg for a in fn.args.args]
    if not is_static:
        if not params:
            return None
        params = params[1:]
    if any(isinstance(a, ast.Starred) for a in call.args) or any(k.arg is None for k in call.keywords):
        return None
    defaults = fn.args.defaults
    dmap = dict(zip([a.arg for a in fn.args.args][len(fn.args.args) - len(defaults):], defaults))
    actual = {}
    for pname, a in zip(params, call.args):
        actual[pname] = a
    if len(call.args) > len(params):
        return None
    for k in call.keywords:
        if k.arg not in params or k.arg in actual:
            return None
        actual[k.arg] = k.value
    for pname in params:
        if pname not in actual:
            if pname not in dmap:
                return None
            actual[pname] = dmap[pname]
    _INLINE_COUNTER[0] += 1
    tag = "_h%d" % _INLINE_COUNTER[0]
    body = [_copy.deepcopy(s) for s in _helper_body(fn)]
    locals_ = {x.id for s in body for x in ast.walk(s) if isinstance(x, ast.Name) and isinstance(x.ctx, ast.Store)}
    mapping = {n: n + tag for n in locals_ | set(params)}
    pro = []
    for pname in params:
        if isinstance(actual[pname], ast.Name) and pname not in locals_:
            mapping[pname] = actual[pname].id       # a parameter the helper never rebinds is the caller's local
            continue
        tgt = ast.Name(id=pname + tag, ctx=ast.Store())
        pro.append(ast.copy_location(ast.Assign(targets=[tgt], value=_copy.deepcopy(actual[pname]), lineno=call.lineno),
                                     call))
    sub = _Subst(mapping)
    body = [sub.visit(s) for s in body]
    for s in pro + body:
        for x in ast.walk(s):
            if hasattr(x, "lineno"):
                x.lineno = call.lineno
                x.end_lineno = getattr(call, "end_lineno", call.lineno)
                x.col_offset = getattr(call, "col_offset", 0)
                x.end_col_offset = getattr(call, "end_col_offset", 0)
    return pro, body


def _is_helper_call(node, helpers):
    if not isinstance(node, ast.Call):
        return None
    f = node.func
    if isinstance(f, ast.Attribute) and f.attr in helpers and isinstance(f.value, ast.Name):
        mod, cls, fn, is_static = helpers[f.attr]
        if f.value.id == "self" and cls is not None:
            return f.attr
        if cls is not None and f.value.id == cls.name and is_static:
            return f.attr
    if isinstance(f, ast.Name) and f.id in helpers and helpers[f.id][1] is None:
        return f.id
    return None


def inline_helpers(trees):
    """Calls of simple helper methods that the rules do not know (extracted by a refactoring) are replaced by the
    helper's body on the analysed copy: statement calls, `x = self._h(..)`, `return self._h(..)` for helpers whose
    returns sit at the leaves of an if/else tree, and calls inside expressions for helpers that consist of a single
    `return <expr>`. The helper definitions themselves stay where they are."""
    helpers = _helper_candidates(trees)
    if not helpers:
        return
    for rounds in range(4):
        changed = False
        for tree in trees.values():
            for fn in [n for n in ast.walk(tree) if isinstance(n, (ast.FunctionDef, ast.AsyncFunctionDef))]:
                changed |= _inline_in_function(fn, helpers)
        if not changed:
            break
    # code spliced in from another module keeps meaning what it meant there: copy the imports it relies on
    src_of = {name: trees[mod] for name, (mod, cls, hfn, st) in helpers.items()}

    def bound_names(tree):
        out = {}
        for st in tree.body:
            if isinstance(st, ast.ImportFrom):
                for a in st.names:
                    out[a.asname or a.name] = st
            elif isinstance(st, ast.Import):
                for a in st.names:
                    out[(a.asname or a.name).split(".")[0]] = st
            elif isinstance(st, (ast.FunctionDef, ast.ClassDef)):
                out[st.name] = None
            elif isinstance(st, ast.Assign):
                for t in st.targets:
                    if isinstance(t, ast.Name):
                        out[t.id] = None
        return out
    import copy as _copy
    all_imports = {}
    for tree in trees.values():
        for k, v in bound_names(tree).items():
            if v is not None:
                all_imports.setdefault(k, v)
    for tree in trees.values():
        have = bound_names(tree)
        used = {x.id for x in ast.walk(tree) if isinstance(x, ast.Name) and isinstance(x.ctx, ast.Load)}
        import builtins as _b
        for name in sorted(used):
            if name in have or hasattr(_b, name) or name not in all_imports:
                continue
            # only names that are not locals anywhere in this module: a missing module-level binding
            if any(isinstance(x, ast.Name) and x.id == name and isinstance(x.ctx, ast.Store) for x in ast.walk(tree)) \
                    or any(isinstance(x, ast.arg) and x.arg == name for x in ast.walk(tree)):
                continue
            st = all_imports[name]
            if isinstance(st, ast.ImportFrom):
                new = ast.ImportFrom(module=st.module, names=[_copy.deepcopy(a) for a in st.names
                                                              if (a.asname or a.name) == name], level=st.level)
            else:
                new = _copy.deepcopy(st)
            ast.copy_location(new, tree.body[0])
            tree.body.insert(0, new)


def _inline_in_function(fn, helpers):
    changed = False

    def do_block(block):
        nonlocal changed
        out = []
        for st in block:
            for fld in ("body", "orelse", "finalbody"):
                sub = getattr(st, fld, None)
                if isinstance(sub, list) and sub and isinstance(sub[0], ast.stmt):
                    setattr(st, fld, do_block(sub))
            if isinstance(st, ast.Try):
                for h in st.handlers:
                    h.body = do_block(h.body)
            call = None
            kind = None
            if isinstance(st, ast.Expr) and _is_helper_call(st.value, helpers):
                call, kind = st.value, "stmt"
            elif isinstance(st, ast.Assign) and _is_helper_call(st.value, helpers):
                call, kind = st.value, "assign"
            elif isinstance(st, ast.Return) and st.value is not None and _is_helper_call(st.value, helpers):
                call, kind = st.value, "return"
            if call is not None:
                name = _is_helper_call(call, helpers)
                mod, cls, hfn, is_static = helpers[name]
                hb = _helper_body(hfn)
                okform = (kind == "stmt" and (_no_return(hb) or _returns_at_leaves(hb))) or \
                         (kind in ("assign", "return") and _returns_at_leaves(hb))
                inst = _instantiate(hfn, call, is_static) if okform and hfn is not fn else None
                if inst is not None:
                    pro, body = inst
                    if kind == "assign":
                        import copy as _copy
                        body = _replace_leaf_returns(body, lambda e, r: [ast.copy_location(ast.Assign(
                            targets=[_copy.deepcopy(t) for t in st.targets], value=e, lineno=st.lineno), st)])
                    elif kind == "stmt" and not _no_return(body):
                        body = _replace_leaf_returns(body, lambda e, r: [] if isinstance(e, (ast.Constant, ast.Name))
                                                     else [ast.copy_location(ast.Expr(value=e), st)])
                    out.extend(pro + body)
                    changed = True
                    continue
            # f(*self._h(x)) where _h is a single `return (a, b, c)`: the elements are the arguments
            for c in [n for n in ast.walk(st) if isinstance(n, ast.Call)]:
                new_args = []
                touched = False
                for a in c.args:
                    hname = _is_helper_call(a.value, helpers) if isinstance(a, ast.Starred) else None
                    if hname is not None:
                        mod, cls, hfn, is_static = helpers[hname]
                        hb = _helper_body(hfn)
                        params = [x.arg for x in hfn.args.args][0 if is_static else 1:]
                        call = a.value
                        if len(hb) == 1 and isinstance(hb[0], ast.Return) and isinstance(hb[0].value, ast.Tuple) and \
                                hfn is not fn and not call.keywords and len(call.args) == len(params) and \
                                not any(isinstance(x, ast.Starred) for x in call.args):
                            import copy as _copy
                            uses = {p: sum(1 for x in ast.walk(hb[0].value) if isinstance(x, ast.Name) and x.id == p)
                                    for p in params}
                            if all(uses[p] == 1 or _pure_expr(x) for p, x in zip(params, call.args)):
                                tup = _Subst(dict(zip(params, call.args))).visit(_copy.deepcopy(hb[0].value))
                                for x in ast.walk(tup):
                                    if hasattr(x, "lineno"):
                                        x.lineno, x.col_offset = c.lineno, c.col_offset
                                        x.end_lineno = getattr(c, "end_lineno", c.lineno)
                                        x.end_col_offset = getattr(c, "end_col_offset", 0)
                                new_args.extend(tup.elts)
                                touched = True
                                continue
                    new_args.append(a)
                if touched:
                    c.args = new_args
                    changed = True
            # helper calls nested in expressions: single `return <expr>` helpers only
            for node in list(ast.walk(st)):
                name = _is_helper_call(node, helpers)
                if name is None:
                    continue
                mod, cls, hfn, is_static = helpers[name]
                hb = _helper_body(hfn)
                if len(hb) != 1 or not isinstance(hb[0], ast.Return) or hb[0].value is None or hfn is fn:
                    continue
                params = [a.arg for a in hfn.args.args][0 if is_static else 1:]
                if node.keywords or len(node.args) != len(params) or any(isinstance(a, ast.Starred) for a in node.args):
                    continue
                import copy as _copy
                uses = {p: sum(1 for x in ast.walk(hb[0].value) if isinstance(x, ast.Name) and x.id == p)
                        for p in params}
                if any(uses[p] != 1 and not _pure_expr(a) for p, a in zip(params, node.args)):
                    continue
                new = _Subst(dict(zip(params, node.args))).visit(_copy.deepcopy(hb[0].value))
                for x in ast.walk(new):
                    if hasattr(x, "lineno"):
                        x.lineno, x.col_offset = node.lineno, node.col_offset
                        x.end_lineno, x.end_col_offset = getattr(node, "end_lineno", node.lineno), \
                            getattr(node, "end_col_offset", 0)
                node.__class__ = new.__class__
                node.__dict__.clear()
                node.__dict__.update(new.__dict__)
                changed = True
            out.append(st)
        return out

    fn.body = do_block(fn.body)
    return changed


def _append_tree(stmts, name):
    """the expression appended to list `name` when stmts is a tree of if/else whose leaves are one
    `name.append(<expr>)` each; else None"""
    if len(stmts) != 1:
        return None
    st = stmts[0]
    if isinstance(st, ast.Expr) and isinstance(st.value, ast.Call) and isinstance(st.value.func, ast.Attribute) and \
            st.value.func.attr == "append" and isinstance(st.value.func.value, ast.Name) and \
            st.value.func.value.id == name and len(st.value.args) == 1 and not st.value.keywords:
        return st.value.args[0]
    if isinstance(st, ast.If) and st.orelse:
        a, b = _append_tree(st.body, name), _append_tree(st.orelse, name)
        if a is not None and b is not None:
            return ast.IfExp(test=st.test, body=a, orelse=b)
    return None


EFFECT_FREE_CONSTRUCTORS = {"defaultdict", "dict", "list", "set", "tuple", "partial", "OrderedDict", "Counter"}


def _effect_free(e):
    """evaluating e changes nothing and draws nothing (it may build new containers)"""
    class Hide(ast.NodeTransformer):
        def visit_Call(self, n):
            self.generic_visit(n)
            if isinstance(n.func, ast.Name) and n.func.id in EFFECT_FREE_CONSTRUCTORS and not n.keywords:
                return ast.Tuple(elts=[a for a in n.args if not isinstance(a, ast.Starred)], ctx=ast.Load())
            return n
    import copy as _copy
    return _pure_expr(Hide().visit(_copy.deepcopy(e)))


def _empty_dict_assign(st):
    return isinstance(st, ast.Assign) and len(st.targets) == 1 and isinstance(st.targets[0], ast.Name) and \
        (isinstance(st.value, ast.Dict) and not st.value.keys or
         isinstance(st.value, ast.Call) and ast.unparse(st.value) == "dict()")


def _dict_loops_to_comprehensions(block):
    """`A = {}` [`B = {}` ...] directly followed by `for T in IT: A[K] = Va [; B[K] = Vb ...]` (K a name bound by the
    loop, the values read none of the dictionaries, at most one value has an effect, IT is a plain reference or a
    keys()/items()/range() call)   ->   `A = {K: Va for T in IT}` [`B = {K: Vb for T in IT}` ...]"""
    import copy as _copy
    out = []
    i = 0
    while i < len(block):
        j = i
        names = []
        while j < len(block) and _empty_dict_assign(block[j]):
            names.append(block[j].targets[0].id)
            j += 1
        loop = block[j] if j < len(block) else None
        ok = bool(names) and isinstance(loop, ast.For) and not loop.orelse and len(set(names)) == len(names) and \
            len(loop.body) == len(names)
        if ok:
            bound = {n.id for n in ast.walk(loop.target) if isinstance(n, ast.Name)}
            it = loop.iter
            plain = _simple_ref(it) and not isinstance(it, ast.Constant) or (
                isinstance(it, ast.Call) and not it.keywords and (
                    isinstance(it.func, ast.Attribute) and it.func.attr in ("keys", "items", "values") and
                    not it.args and _simple_ref(it.func.value) or
                    isinstance(it.func, ast.Name) and it.func.id in ("range", "enumerate", "sorted", "list") and
                    all(_pure_expr(a) for a in it.args)))
            stores = {}
            for st in loop.body:
                if not (isinstance(st, ast.Assign) and len(st.targets) == 1 and
                        isinstance(st.targets[0], ast.Subscript) and isinstance(st.targets[0].value, ast.Name) and
                        st.targets[0].value.id in names and isinstance(st.targets[0].slice, ast.Name) and
                        st.targets[0].slice.id in bound and st.targets[0].value.id not in stores):
                    ok = False
                    break
                stores[st.targets[0].value.id] = st
            ok = ok and plain and set(stores) == set(names)
            if ok:
                vals = [st.value for st in loop.body]
                reads = {n.id for v in vals + [it] for n in ast.walk(v) if isinstance(n, ast.Name)}
                impure = sum(1 for v in vals if not _effect_free(v))
                ok = not (reads & set(names)) and (len(names) == 1 or impure <= 1)
        if ok:
            for nm in names:
                st = stores[nm]
                comp = ast.DictComp(key=ast.Name(id=st.targets[0].slice.id, ctx=ast.Load()), value=st.value,
                                    generators=[ast.comprehension(target=_copy.deepcopy(loop.target),
                                                                  iter=_copy.deepcopy(loop.iter), ifs=[], is_async=0)])
                new = ast.Assign(targets=[ast.Name(id=nm, ctx=ast.Store())], value=comp, lineno=loop.lineno)
                out.append(ast.fix_missing_locations(ast.copy_location(new, loop)))
            i = j + 1
            continue
        out.append(block[i])
        i += 1
    return out


def _loops_to_comprehensions(block):
    """`L = []` directly followed by `for T in IT: L.append(E)` (E possibly chosen by if/else)  ->  `L = [E for T in IT]`"""
    for st in block:
        for fld in ("body", "orelse", "finalbody"):
            sub = getattr(st, fld, None)
            if isinstance(sub, list) and sub and isinstance(sub[0], ast.stmt):
                setattr(st, fld, _loops_to_comprehensions(sub))
        if isinstance(st, ast.Try):
            for h in st.handlers:
                h.body = _loops_to_comprehensions(h.body)
    block = _dict_loops_to_comprehensions(block)
    out = []
    i = 0
    while i < len(block):
        st = block[i]
        nxt = block[i + 1] if i + 1 < len(block) else None
        if isinstance(st, ast.Assign) and len(st.targets) == 1 and isinstance(st.targets[0], ast.Name) and \
                (isinstance(st.value, ast.List) and not st.value.elts or
                 isinstance(st.value, ast.Call) and ast.unparse(st.value) == "list()") and \
                isinstance(nxt, ast.For) and not nxt.orelse:
            name = st.targets[0].id
            e = _append_tree(nxt.body, name)
            flt = None
            if e is None and len(nxt.body) == 1 and isinstance(nxt.body[0], ast.If) and not nxt.body[0].orelse:
                # for T in IT: if C: L.append(E)   ->   [E for T in IT if C]
                e = _append_tree(nxt.body[0].body, name)
                flt = nxt.body[0].test if e is not None else None
                if flt is not None and any(isinstance(n, ast.Name) and n.id == name for n in ast.walk(flt)):
                    e = None
            if e is not None and not any(isinstance(n, ast.Name) and n.id == name
                                         for x in (e, nxt.iter, nxt.target) for n in ast.walk(x)):
                comp = ast.ListComp(elt=e, generators=[ast.comprehension(target=nxt.target, iter=nxt.iter,
                                                                         ifs=[flt] if flt is not None else [],
                                                                         is_async=0)])
                new = ast.Assign(targets=[ast.Name(id=name, ctx=ast.Store())], value=comp, lineno=nxt.lineno)
                out.append(ast.fix_missing_locations(ast.copy_location(new, nxt)))
                i += 2
                continue
        out.append(st)
        i += 1
    return out


def _raise_guards_to_checks(tree):
    """`if c: raise E` / `if not c: raise E` (no else)  ->  check_false(c, E) / check_true(c, E) in modules that
    import those two helpers (utils.check_true / check_false raise their second argument when the test fails)"""
    have = set()
    for n in tree.body:
        if isinstance(n, ast.ImportFrom):
            have |= {a.asname or a.name for a in n.names if a.name in ("check_true", "check_false")}
    if not {"check_true", "check_false"} <= have:
        return

    class R(ast.NodeTransformer):
        def visit_If(self, node):
            self.generic_visit(node)
            if not node.orelse and len(node.body) == 1 and isinstance(node.body[0], ast.Raise) and \
                    node.body[0].exc is not None and node.body[0].cause is None and \
                    isinstance(node.body[0].exc, ast.Call) and _pure_expr(
                        ast.Tuple(elts=list(node.body[0].exc.args), ctx=ast.Load())):
                t, name = node.test, "check_false"
                if isinstance(t, ast.UnaryOp) and isinstance(t.op, ast.Not):
                    t, name = t.operand, "check_true"
                call = ast.Call(func=ast.Name(id=name, ctx=ast.Load()), args=[t, node.body[0].exc], keywords=[])
                return ast.fix_missing_locations(ast.copy_location(ast.Expr(value=call), node))
            return node
    R().visit(tree)


def _drop_trailing_returns(fn):
    """a bare `return` that ends a function (directly, or as the last statement of the branches of its last `if`)
    does nothing"""
    if any(isinstance(n, ast.Return) and n.value is not None for n in ast.walk(fn)) or \
            any(isinstance(n, (ast.Yield, ast.YieldFrom)) for n in ast.walk(fn)):
        return

    def trim(block):
        while block and isinstance(block[-1], ast.Return) and block[-1].value is None:
            block.pop()
        if block and isinstance(block[-1], ast.If):
            last = block[-1]
            trim(last.body)
            trim(last.orelse)
            if not last.body:
                if last.orelse:
                    last.test = ast.UnaryOp(op=ast.Not(), operand=last.test)
                    last.body, last.orelse = last.orelse, []
                else:
                    last.body = [ast.copy_location(ast.Pass(), last)]
        return block
    trim(fn.body)
    if not fn.body:
        fn.body = [ast.Pass()]


def _adjacent_single_use(fn):
    """`x = E` directly followed by the one statement that reads x, once, where nothing with an effect is evaluated
    between E and the read: the statement gets E itself (E may be any expression: it is still evaluated once, at
    the same point of the effect order)."""
    import copy as _copy
    for n in ast.walk(fn):
        if isinstance(n, (ast.FunctionDef, ast.AsyncFunctionDef, ast.Lambda, ast.ClassDef)) and n is not fn:
            return
    a = fn.args
    params = {x.arg for x in a.posonlyargs + a.args + a.kwonlyargs}
    changed = True
    while changed:
        changed = False
        stores, loads = {}, {}
        for n in ast.walk(fn):
            if isinstance(n, ast.Name):
                (stores if isinstance(n.ctx, (ast.Store, ast.Del)) else loads).setdefault(n.id, []).append(n)
        todo = [fn]
        while todo and not changed:
            node = todo.pop()
            for fld in ("body", "orelse", "finalbody"):
                blk = getattr(node, fld, None)
                if not (isinstance(blk, list) and blk and isinstance(blk[0], ast.stmt)):
                    continue
                todo.extend(blk)
                for i in range(len(blk) - 1):
                    st, nxt = blk[i], blk[i + 1]
                    if not (isinstance(st, ast.Assign) and len(st.targets) == 1 and
                            isinstance(st.targets[0], ast.Name)):
                        continue
                    t = st.targets[0].id
                    if t in params or len(stores.get(t, [])) != 1 or len(loads.get(t, [])) != 1:
                        continue
                    if _pure_expr(st.value):
                        continue            # the temporaries pass deals with those
                    if not isinstance(nxt, (ast.Assign, ast.Return, ast.Expr, ast.AugAssign)) or nxt.value is None:
                        continue
                    use = loads[t][0]
                    if not any(x is use for x in ast.walk(nxt.value)):
                        continue
                    if isinstance(nxt, ast.Assign) and any(isinstance(x, ast.Call) for tg in nxt.targets
                                                           for x in ast.walk(tg)):
                        continue
                    if isinstance(nxt, ast.AugAssign):
                        continue
                    # every impure call of the statement must enclose the read (its arguments are evaluated first),
                    # and the read must be the first thing evaluated among the impure parts: no impure call elsewhere
                    anc = set()
                    def mark(n, path):
                        if n is use:
                            anc.update(id(p) for p in path)
                            return True
                        for ch in ast.iter_child_nodes(n):
                            if mark(ch, path + [n]):
                                return True
                        return False
                    mark(nxt.value, [])
                    bad = [c for c in ast.walk(nxt.value) if isinstance(c, ast.Call) and id(c) not in anc and
                           not _pure_expr(ast.Call(func=c.func, args=[], keywords=[]))]
                    bad += [c for c in ast.walk(nxt.value) if isinstance(c, (ast.Lambda, ast.ListComp, ast.SetComp,
                                                                             ast.DictComp, ast.GeneratorExp))
                            and any(x is use for x in ast.walk(c))]
                    if bad:
                        continue
                    new = _copy.deepcopy(st.value)
                    use.__class__ = new.__class__
                    use.__dict__.clear()
                    use.__dict__.update(new.__dict__)
                    blk.pop(i)
                    changed = True
                    break
                if changed:
                    break
    ast.fix_missing_locations(fn)


def _local_round(tree, after_helpers=True):
    _Canon().visit(tree)
    tree.body = _loops_to_comprehensions(tree.body)
    ast.fix_missing_locations(tree)
    for n in ast.walk(tree):
        if isinstance(n, (ast.FunctionDef, ast.AsyncFunctionDef)):
            _forward_stores(n)
            _drop_dead_assignments(n)
            _inline_temporaries(n)
            if after_helpers:
                # (before the helpers are inlined this would move `x = self._helper(..)` into an expression, where
                # a multi-statement helper can no longer be expanded)
                _adjacent_single_use(n)
    _Canon().visit(tree)
    tree.body = _nest_block(tree.body, False)
    for n in ast.walk(tree):
        if isinstance(n, (ast.FunctionDef, ast.AsyncFunctionDef)):
            _drop_trailing_returns(n)
    _Canon().visit(tree)
    ast.fix_missing_locations(tree)


def canonicalise_program(trees):
    """whole-program part of the canonical form: temporaries, early exits, helper inlining (the later steps uncover
    forms for the earlier ones, so the local steps run before and twice after the helpers are inlined)"""
    if os.environ.get("MABSTAT_NO_INLINE") == "1":
        for tree in trees.values():
            _Canon().visit(tree)
            tree.body = _nest_block(tree.body, False)
            ast.fix_missing_locations(tree)
        return
    for tree in trees.values():
        _local_round(tree, after_helpers=False)     # helpers get their own single-return form first
    inline_helpers(trees)
    for tree in trees.values():
        for _round in range(2):
            _local_round(tree)
        _raise_guards_to_checks(tree)
        ast.fix_missing_locations(tree)


def canonicalise(tree):
    _Canon().visit(tree)
    canonicalise_program({"_": tree})
    return tree


class ModuleInfo:
    def __init__(self, name, path, source):
        self.name = name
        self.path = path
        self.source = source
        self.sha256 = hashlib.sha256(source.encode()).hexdigest()
        try:
            self.tree = ast.parse(source, filename=path)
        except SyntaxError as e:
            raise AnalysisError("syntax error in %s: %s" % (path, e))
        _Canon().visit(self.tree)
        self.imports: Dict[str, tuple] = {}     # local name -> (module, symbol or None)
        self.classes: Dict[str, ClassInfo] = {}
        self.functions: Dict[str, FunctionInfo] = {}
        self.globals: Dict[str, ast.AST] = {}   # module-level assignments name -> value expr

    def link_parents(self):
        for n in ast.walk(self.tree):
            for ch in ast.iter_child_nodes(n):
                ch._parent = n


class Program:
    def __init__(self, sources: Dict[str, str], paths: Optional[Dict[str, str]] = None, root=REPO):
        self.root = root
        self.modules: Dict[str, ModuleInfo] = {}
        for name, src in sorted(sources.items()):
            path = (paths or {}).get(name, os.path.join(root, PACKAGE, name + ".py"))
            self.modules[name] = ModuleInfo(name, path, src)
        for req in REQUIRED_MODULES:
            if req not in self.modules:
                raise AnalysisError("required module %s/%s.py is missing" % (PACKAGE, req))
        canonicalise_program({m.name: m.tree for m in self.modules.values()})
        for m in self.modules.values():
            m.link_parents()
        self.classes: Dict[str, ClassInfo] = {}
        self.functions: Dict[str, FunctionInfo] = {}    # module-level functions by name
        self._owner_fn = {}
        for m in self.modules.values():
            self._index_module(m)
        self._resolve_bases()
        for c in self.classes.values():
            c.mro = self._c3(c)
        self._index_owner()

    # ------------------------------------------------------------------ loading
    @classmethod
    def load(cls, root=None, overrides: Optional[Dict[str, str]] = None) -> "Program":
        root = root or os.environ.get("MABSTAT_REPO", REPO)
        pkg = os.path.join(root, PACKAGE)
        if not os.path.isdir(pkg):
            raise AnalysisError("package directory %s not found" % pkg)
        sources, paths = {}, {}
        for fn in sorted(os.listdir(pkg)):
            if fn.endswith(".py"):
                name = fn[:-3]
                p = os.path.join(pkg, fn)
                with open(p, encoding="utf-8") as f:
                    sources[name] = f.read()
                paths[name] = p
        if overrides:
            sources.update(overrides)
        return cls(sources, paths, root)

    def relpath(self, module: ModuleInfo) -> str:
        return "%s/%s.py" % (PACKAGE, module.name)

    # ------------------------------------------------------------------ indexing
    def _index_module(self, m: ModuleInfo):
        for st in m.tree.body:
            if isinstance(st, ast.ImportFrom):
                mod = st.module or ""
                for a in st.names:
                    m.imports[a.asname or a.name] = (mod, a.name)
            elif isinstance(st, ast.Import):
                for a in st.names:
                    m.imports[a.asname or a.name.split(".")[0]] = (a.name, None)
            elif isinstance(st, ast.ClassDef):
                self._index_class(m, st, None)
            elif isinstance(st, (ast.FunctionDef, ast.AsyncFunctionDef)):
                fi = FunctionInfo(m, None, st)
                m.functions[st.name] = fi
                self.functions.setdefault(st.name, fi)
            elif isinstance(st, ast.Assign):
                for t in st.targets:
                    if isinstance(t, ast.Name):
                        m.globals[t.id] = st.value
            elif isinstance(st, ast.AnnAssign) and isinstance(st.target, ast.Name) and st.value is not None:
                m.globals[st.target.id] = st.value

    def _index_class(self, m, node, outer):
        ci = ClassInfo(m, node, outer)
        m.classes[ci.name] = ci
        if ci.name in self.classes:
            raise AnalysisError("duplicate class name %s (%s and %s)" % (ci.name, self.classes[ci.name].module.name,
                                                                         m.name))
        self.classes[ci.name] = ci
        if outer is not None:
            outer.inner[node.name] = ci
        for st in node.body:
            if isinstance(st, (ast.FunctionDef, ast.AsyncFunctionDef)):
                fi = FunctionInfo(m, ci, st)
                # property setters share the name: keep the getter under name, setter under name + '.setter'
                if any(d.endswith(".setter") for d in fi.decorators):
                    ci.methods[st.name + ".setter"] = fi
                else:
                    ci.methods[st.name] = fi
            elif isinstance(st, ast.ClassDef):
                self._index_class(m, st, ci)
            elif isinstance(st, ast.Assign):
                for t in st.targets:
                    if isinstance(t, ast.Name):
                        ci.class_attrs[t.id] = st.value
            elif isinstance(st, ast.AnnAssign) and isinstance(st.target, ast.Name):
                ci.class_ann[st.target.id] = st.value
                ci.field_order.append(st.target.id)
                if st.value is not None:
                    ci.class_attrs[st.target.id] = st.value

    def lookup_class(self, module: ModuleInfo, expr: str, scope: Optional[ClassInfo] = None) -> Optional[ClassInfo]:
        """Resolve a (possibly dotted) class expression as seen from `module`."""
        if expr in module.classes:
            return module.classes[expr]
        head = expr.split(".")[0]
        if head in module.imports:
            mod, sym = module.imports[head]
            if mod.startswith(PACKAGE + ".") and sym is not None:
                target = self.modules.get(mod[len(PACKAGE) + 1:])
                if target is not None:
                    full = ".".join([sym] + expr.split(".")[1:])
                    if full in target.classes:
                        return target.classes[full]
        if scope is not None:
            s = scope
            while s is not None:
                if expr in s.inner:
                    return s.inner[expr]
                s = s.outer
        return None

    def lookup_function(self, module: ModuleInfo, name: str) -> Optional[FunctionInfo]:
        if name in module.functions:
            return module.functions[name]
        if name in module.imports:
            mod, sym = module.imports[name]
            if mod.startswith(PACKAGE + ".") and sym is not None:
                target = self.modules.get(mod[len(PACKAGE) + 1:])
                if target is not None and sym in target.functions:
                    return target.functions[sym]
        return None

    def lookup_global(self, module: ModuleInfo, name: str):
        if name in module.globals:
            return module, module.globals[name]
        if name in module.imports:
            mod, sym = module.imports[name]
            if mod.startswith(PACKAGE + ".") and sym is not None:
                target = self.modules.get(mod[len(PACKAGE) + 1:])
                if target is not None and sym in target.globals:
                    return target, target.globals[sym]
        return None, None

    def external_name(self, module: ModuleInfo, name: str) -> Optional[str]:
        """Fully qualified name of an imported non-package symbol, e.g. 'np' -> 'numpy', 'cdist' ->
        'scipy.spatial.distance.cdist'."""
        if name in module.imports:
            mod, sym = module.imports[name]
            if mod.startswith(PACKAGE):
                return None
            return mod if sym is None else mod + "." + sym
        return None

    def _resolve_bases(self):
        for c in self.classes.values():
            for b in c.base_exprs:
                bc = self.lookup_class(c.module, b, c.outer)
                if bc is not None:
                    c.bases.append(bc)
                else:
                    c.external_bases.append(b.split(".")[-1])

    def _c3(self, c: ClassInfo, _stack=()) -> List[ClassInfo]:
        if c in _stack:
            raise AnalysisError("inheritance cycle at %s" % c.name)
        seqs = [self._c3(b, _stack + (c,)) for b in c.bases] + [list(c.bases)]
        res = [c]
        seqs = [list(s) for s in seqs if s]
        while seqs:
            for s in seqs:
                cand = s[0]
                if not any(cand in t[1:] for t in seqs):
                    break
            else:
                raise AnalysisError("inconsistent MRO for %s" % c.name)
            res.append(cand)
            for s in seqs:
                if s and s[0] is cand:
                    del s[0]
            seqs = [s for s in seqs if s]
        return res

    def _index_owner(self):
        for m in self.modules.values():
            for c in m.classes.values():
                for f in c.methods.values():
                    for n in ast.walk(f.node):
                        self._owner_fn[id(n)] = f
            for f in m.functions.values():
                for n in ast.walk(f.node):
                    self._owner_fn[id(n)] = f

    # ------------------------------------------------------------------ helpers
    def cls(self, name) -> ClassInfo:
        if name not in self.classes:
            raise AnalysisError("anchored class %s not found" % name)
        return self.classes[name]

    def method(self, cls_name, meth) -> FunctionInfo:
        c = self.cls(cls_name)
        if meth not in c.methods:
            inherited = c.resolve(meth)         # the class may simply inherit it: that is then its behaviour
            if inherited is None:
                raise AnalysisError("anchored method %s.%s not found" % (cls_name, meth))
            return inherited
        return c.methods[meth]

    def function(self, module, name) -> FunctionInfo:
        m = self.modules.get(module)
        if m is None or name not in m.functions:
            raise AnalysisError("anchored function %s.%s not found" % (module, name))
        return m.functions[name]

    def owner(self, node) -> Optional[FunctionInfo]:
        return self._owner_fn.get(id(node))

    def subclasses(self, base: ClassInfo) -> List[ClassInfo]:
        return [c for c in self.classes.values() if base in c.mro]

    def all_functions(self) -> List[FunctionInfo]:
        out = []
        for m in self.modules.values():
            out.extend(m.functions.values())
            for c in m.classes.values():
                out.extend(c.methods.values())
        return out

    def loc(self, fn: Optional[FunctionInfo], node) -> str:
        if fn is None:
            return "?:%s" % getattr(node, "lineno", "?")
        return "%s:%s" % (self.relpath(fn.module), getattr(node, "lineno", fn.node.lineno))

    def digest(self) -> Dict[str, str]:
        return {self.relpath(m): m.sha256 for m in self.modules.values()}


_LOCALS_CACHE = {}


def local_names_of(fn) -> frozenset:
    """Names bound inside the function other than its parameters (their spelling is not behaviour)."""
    if fn is None or getattr(fn, "node", None) is None:
        return frozenset()
    k = id(fn.node)
    if k not in _LOCALS_CACHE:
        a = fn.node.args
        params = {x.arg for x in a.posonlyargs + a.args + a.kwonlyargs}
        names = set()
        for n in ast.walk(fn.node):
            if isinstance(n, ast.Name) and isinstance(n.ctx, (ast.Store, ast.Del)) and n.id not in params:
                names.add(n.id)
        _LOCALS_CACHE[k] = frozenset(names)
    return _LOCALS_CACHE[k]


_NORM_CACHE = {}


def norm_stmt(node, fn=None) -> str:
    """Normalised statement text used to key findings (never line numbers).  With `fn`, local variable names are
    replaced by positional placeholders so that renaming a local does not change the key."""
    k = (id(node), id(getattr(fn, "node", None)))
    if isinstance(node, ast.AST) and k in _NORM_CACHE and _NORM_CACHE[k][0] is node:
        return _NORM_CACHE[k][1]
    s = _norm_stmt(node, fn)
    if isinstance(node, ast.AST):
        _NORM_CACHE[k] = (node, s)
    return s


def _norm_stmt(node, fn=None) -> str:
    try:
        if fn is not None and isinstance(node, ast.AST):
            loc = local_names_of(fn)
            if loc:
                import copy
                node = copy.deepcopy(node)
                order = {}
                for n in ast.walk(node):
                    if isinstance(n, ast.Name) and n.id in loc:
                        if n.id not in order:
                            order[n.id] = "L%d" % (len(order) + 1)
                for n in ast.walk(node):
                    if isinstance(n, ast.Name) and n.id in order:
                        n.id = order[n.id]
        s = ast.unparse(node)
    except Exception:
        s = type(node).__name__
    s = " ".join(s.split())
    return s if len(s) <= 160 else s[:157] + "..."
