# -*- coding: utf-8 -*-
"""Program model: loads /repo/mabwiser/*.py into ASTs, builds the class table (with C3 MRO),
the import tables and the function table.  Nothing in /repo is imported or executed."""

import ast
import hashlib
import os
from typing import Dict, List, Optional

REPO = os.environ.get("MABSTAT_REPO", "/repo")
PACKAGE = "mabwiser"

# modules that must exist (anchors of the 20 properties); a missing one is an ANALYSIS-ERROR
REQUIRED_MODULES = ["approximate", "base_mab", "clusters", "greedy", "linear", "mab", "neighbors", "popularity",
                    "rand", "simulator", "softmax", "thompson", "treebandit", "ucb", "utils"]


class AnalysisError(Exception):
    """The analysis cannot be carried out soundly (missing anchor, unsupported construct, internal error)."""


class FunctionInfo:
    def __init__(self, module, cls, node: ast.FunctionDef):
        self.module = module            # ModuleInfo
        self.cls = cls                  # ClassInfo or None
        self.node = node
        self.name = node.name
        self.decorators = [ast.unparse(d) for d in node.decorator_list]
        self.is_static = "staticmethod" in self.decorators
        self.is_property = "property" in self.decorators
        self.is_abstract = any(d.endswith("abstractmethod") for d in self.decorators)

    @property
    def qualname(self):
        return (self.cls.name + "." if self.cls else "") + self.name

    @property
    def params(self) -> List[str]:
        a = self.node.args
        return [x.arg for x in a.posonlyargs + a.args]

    def is_trivial(self) -> bool:
        """Body is only a docstring and/or pass."""
        for st in self.node.body:
            if isinstance(st, ast.Pass):
                continue
            if isinstance(st, ast.Expr) and isinstance(st.value, ast.Constant):
                continue
            return False
        return True

    def __repr__(self):
        return "<fn %s.%s>" % (self.module.name, self.qualname)


class ClassInfo:
    def __init__(self, module, node: ast.ClassDef, outer=None):
        self.module = module
        self.node = node
        self.outer = outer
        self.name = (outer.name + "." if outer else "") + node.name
        self.base_exprs = [ast.unparse(b) for b in node.bases]
        self.bases: List["ClassInfo"] = []          # resolved program classes
        self.external_bases: List[str] = []
        self.methods: Dict[str, FunctionInfo] = {}
        self.class_attrs: Dict[str, ast.AST] = {}   # name -> value expression (class level assignments)
        self.class_ann: Dict[str, ast.AST] = {}     # annotated class-level fields (NamedTuple fields) -> default
        self.field_order: List[str] = []
        self.inner: Dict[str, "ClassInfo"] = {}
        self.mro: List["ClassInfo"] = []

    @property
    def is_namedtuple(self):
        return "NamedTuple" in self.external_bases

    def resolve(self, name) -> Optional[FunctionInfo]:
        for c in self.mro:
            if name in c.methods:
                return c.methods[name]
        return None

    def resolve_after(self, defining: "ClassInfo", name) -> Optional[FunctionInfo]:
        """super().name seen in a method defined in `defining`, receiver class self."""
        seen = False
        for c in self.mro:
            if seen and name in c.methods:
                return c.methods[name]
            if c is defining:
                seen = True
        return None

    def is_subclass_of(self, other: "ClassInfo") -> bool:
        return other in self.mro

    def class_attr(self, name):
        for c in self.mro:
            if name in c.class_attrs:
                return c, c.class_attrs[name]
        return None, None

    def __repr__(self):
        return "<class %s>" % self.name


def canon_eq(a: str, b: str, op="==") -> str:
    """canonical spelling of a symmetric comparison: the textually larger operand first (this happens to be the
    spelling the package uses: `decisions == arm`, `len(x) == 1`)"""
    x, y = (a, b) if a >= b else (b, a)
    return "%s %s %s" % (x, op, y)


class _Canon(ast.NodeTransformer):
    """Orientation-free form of the analysed tree, applied in place right after parsing (positions are kept):
    `a == b` / `a != b` with the textually larger operand first; `if not T: A else: B` as `if T: B else: A`
    (also for conditional expressions); `d[k] = d[k] op v` as `d[k] op= v`. The idiom rules then need to know one
    spelling only."""

    def visit_Compare(self, node):
        self.generic_visit(node)
        if len(node.ops) == 1 and isinstance(node.ops[0], (ast.Eq, ast.NotEq)):
            l, r = node.left, node.comparators[0]
            if ast.unparse(l) < ast.unparse(r):
                node.left, node.comparators = r, [l]
        return node

    def visit_If(self, node):
        self.generic_visit(node)
        if node.orelse and isinstance(node.test, ast.UnaryOp) and isinstance(node.test.op, ast.Not):
            node.test = node.test.operand
            node.body, node.orelse = node.orelse, node.body
        return node

    def visit_Assign(self, node):
        self.generic_visit(node)
        # d[k] = d[k] op v  ->  d[k] op= v   (entries of containers; whole names / attributes keep their spelling)
        if len(node.targets) == 1 and isinstance(node.targets[0], ast.Subscript) and \
                isinstance(node.value, ast.BinOp) and not isinstance(node.targets[0].slice, ast.Slice) and \
                ast.unparse(node.value.left) == ast.unparse(node.targets[0]):
            return ast.copy_location(ast.AugAssign(target=node.targets[0], op=node.value.op, value=node.value.right),
                                     node)
        return node

    def visit_IfExp(self, node):
        self.generic_visit(node)
        if isinstance(node.test, ast.UnaryOp) and isinstance(node.test.op, ast.Not):
            node.test = node.test.operand
            node.body, node.orelse = node.orelse, node.body
        return node


def canonicalise(tree):
    _Canon().visit(tree)
    return tree


class ModuleInfo:
    def __init__(self, name, path, source):
        self.name = name
        self.path = path
        self.source = source
        self.sha256 = hashlib.sha256(source.encode()).hexdigest()
        try:
            self.tree = ast.parse(source, filename=path)
        except SyntaxError as e:
            raise AnalysisError("syntax error in %s: %s" % (path, e))
        canonicalise(self.tree)
        self.imports: Dict[str, tuple] = {}     # local name -> (module, symbol or None)
        self.classes: Dict[str, ClassInfo] = {}
        self.functions: Dict[str, FunctionInfo] = {}
        self.globals: Dict[str, ast.AST] = {}   # module-level assignments name -> value expr
        for n in ast.walk(self.tree):
            for ch in ast.iter_child_nodes(n):
                ch._parent = n


class Program:
    def __init__(self, sources: Dict[str, str], paths: Optional[Dict[str, str]] = None, root=REPO):
        self.root = root
        self.modules: Dict[str, ModuleInfo] = {}
        for name, src in sorted(sources.items()):
            path = (paths or {}).get(name, os.path.join(root, PACKAGE, name + ".py"))
            self.modules[name] = ModuleInfo(name, path, src)
        for req in REQUIRED_MODULES:
            if req not in self.modules:
                raise AnalysisError("required module %s/%s.py is missing" % (PACKAGE, req))
        self.classes: Dict[str, ClassInfo] = {}
        self.functions: Dict[str, FunctionInfo] = {}    # module-level functions by name
        self._owner_fn = {}
        for m in self.modules.values():
            self._index_module(m)
        self._resolve_bases()
        for c in self.classes.values():
            c.mro = self._c3(c)
        self._index_owner()

    # ------------------------------------------------------------------ loading
    @classmethod
    def load(cls, root=None, overrides: Optional[Dict[str, str]] = None) -> "Program":
        root = root or os.environ.get("MABSTAT_REPO", REPO)
        pkg = os.path.join(root, PACKAGE)
        if not os.path.isdir(pkg):
            raise AnalysisError("package directory %s not found" % pkg)
        sources, paths = {}, {}
        for fn in sorted(os.listdir(pkg)):
            if fn.endswith(".py"):
                name = fn[:-3]
                p = os.path.join(pkg, fn)
                with open(p, encoding="utf-8") as f:
                    sources[name] = f.read()
                paths[name] = p
        if overrides:
            sources.update(overrides)
        return cls(sources, paths, root)

    def relpath(self, module: ModuleInfo) -> str:
        return "%s/%s.py" % (PACKAGE, module.name)

    # ------------------------------------------------------------------ indexing
    def _index_module(self, m: ModuleInfo):
        for st in m.tree.body:
            if isinstance(st, ast.ImportFrom):
                mod = st.module or ""
                for a in st.names:
                    m.imports[a.asname or a.name] = (mod, a.name)
            elif isinstance(st, ast.Import):
                for a in st.names:
                    m.imports[a.asname or a.name.split(".")[0]] = (a.name, None)
            elif isinstance(st, ast.ClassDef):
                self._index_class(m, st, None)
            elif isinstance(st, (ast.FunctionDef, ast.AsyncFunctionDef)):
                fi = FunctionInfo(m, None, st)
                m.functions[st.name] = fi
                self.functions.setdefault(st.name, fi)
            elif isinstance(st, ast.Assign):
                for t in st.targets:
                    if isinstance(t, ast.Name):
                        m.globals[t.id] = st.value
            elif isinstance(st, ast.AnnAssign) and isinstance(st.target, ast.Name) and st.value is not None:
                m.globals[st.target.id] = st.value

    def _index_class(self, m, node, outer):
        ci = ClassInfo(m, node, outer)
        m.classes[ci.name] = ci
        if ci.name in self.classes:
            raise AnalysisError("duplicate class name %s (%s and %s)" % (ci.name, self.classes[ci.name].module.name,
                                                                         m.name))
        self.classes[ci.name] = ci
        if outer is not None:
            outer.inner[node.name] = ci
        for st in node.body:
            if isinstance(st, (ast.FunctionDef, ast.AsyncFunctionDef)):
                fi = FunctionInfo(m, ci, st)
                # property setters share the name: keep the getter under name, setter under name + '.setter'
                if any(d.endswith(".setter") for d in fi.decorators):
                    ci.methods[st.name + ".setter"] = fi
                else:
                    ci.methods[st.name] = fi
            elif isinstance(st, ast.ClassDef):
                self._index_class(m, st, ci)
            elif isinstance(st, ast.Assign):
                for t in st.targets:
                    if isinstance(t, ast.Name):
                        ci.class_attrs[t.id] = st.value
            elif isinstance(st, ast.AnnAssign) and isinstance(st.target, ast.Name):
                ci.class_ann[st.target.id] = st.value
                ci.field_order.append(st.target.id)
                if st.value is not None:
                    ci.class_attrs[st.target.id] = st.value

    def lookup_class(self, module: ModuleInfo, expr: str, scope: Optional[ClassInfo] = None) -> Optional[ClassInfo]:
        """Resolve a (possibly dotted) class expression as seen from `module`."""
        if expr in module.classes:
            return module.classes[expr]
        head = expr.split(".")[0]
        if head in module.imports:
            mod, sym = module.imports[head]
            if mod.startswith(PACKAGE + ".") and sym is not None:
                target = self.modules.get(mod[len(PACKAGE) + 1:])
                if target is not None:
                    full = ".".join([sym] + expr.split(".")[1:])
                    if full in target.classes:
                        return target.classes[full]
        if scope is not None:
            s = scope
            while s is not None:
                if expr in s.inner:
                    return s.inner[expr]
                s = s.outer
        return None

    def lookup_function(self, module: ModuleInfo, name: str) -> Optional[FunctionInfo]:
        if name in module.functions:
            return module.functions[name]
        if name in module.imports:
            mod, sym = module.imports[name]
            if mod.startswith(PACKAGE + ".") and sym is not None:
                target = self.modules.get(mod[len(PACKAGE) + 1:])
                if target is not None and sym in target.functions:
                    return target.functions[sym]
        return None

    def lookup_global(self, module: ModuleInfo, name: str):
        if name in module.globals:
            return module, module.globals[name]
        if name in module.imports:
            mod, sym = module.imports[name]
            if mod.startswith(PACKAGE + ".") and sym is not None:
                target = self.modules.get(mod[len(PACKAGE) + 1:])
                if target is not None and sym in target.globals:
                    return target, target.globals[sym]
        return None, None

    def external_name(self, module: ModuleInfo, name: str) -> Optional[str]:
        """Fully qualified name of an imported non-package symbol, e.g. 'np' -> 'numpy', 'cdist' ->
        'scipy.spatial.distance.cdist'."""
        if name in module.imports:
            mod, sym = module.imports[name]
            if mod.startswith(PACKAGE):
                return None
            return mod if sym is None else mod + "." + sym
        return None

    def _resolve_bases(self):
        for c in self.classes.values():
            for b in c.base_exprs:
                bc = self.lookup_class(c.module, b, c.outer)
                if bc is not None:
                    c.bases.append(bc)
                else:
                    c.external_bases.append(b.split(".")[-1])

    def _c3(self, c: ClassInfo, _stack=()) -> List[ClassInfo]:
        if c in _stack:
            raise AnalysisError("inheritance cycle at %s" % c.name)
        seqs = [self._c3(b, _stack + (c,)) for b in c.bases] + [list(c.bases)]
        res = [c]
        seqs = [list(s) for s in seqs if s]
        while seqs:
            for s in seqs:
                cand = s[0]
                if not any(cand in t[1:] for t in seqs):
                    break
            else:
                raise AnalysisError("inconsistent MRO for %s" % c.name)
            res.append(cand)
            for s in seqs:
                if s and s[0] is cand:
                    del s[0]
            seqs = [s for s in seqs if s]
        return res

    def _index_owner(self):
        for m in self.modules.values():
            for c in m.classes.values():
                for f in c.methods.values():
                    for n in ast.walk(f.node):
                        self._owner_fn[id(n)] = f
            for f in m.functions.values():
                for n in ast.walk(f.node):
                    self._owner_fn[id(n)] = f

    # ------------------------------------------------------------------ helpers
    def cls(self, name) -> ClassInfo:
        if name not in self.classes:
            raise AnalysisError("anchored class %s not found" % name)
        return self.classes[name]

    def method(self, cls_name, meth) -> FunctionInfo:
        c = self.cls(cls_name)
        if meth not in c.methods:
            raise AnalysisError("anchored method %s.%s not found" % (cls_name, meth))
        return c.methods[meth]

    def function(self, module, name) -> FunctionInfo:
        m = self.modules.get(module)
        if m is None or name not in m.functions:
            raise AnalysisError("anchored function %s.%s not found" % (module, name))
        return m.functions[name]

    def owner(self, node) -> Optional[FunctionInfo]:
        return self._owner_fn.get(id(node))

    def subclasses(self, base: ClassInfo) -> List[ClassInfo]:
        return [c for c in self.classes.values() if base in c.mro]

    def all_functions(self) -> List[FunctionInfo]:
        out = []
        for m in self.modules.values():
            out.extend(m.functions.values())
            for c in m.classes.values():
                out.extend(c.methods.values())
        return out

    def loc(self, fn: Optional[FunctionInfo], node) -> str:
        if fn is None:
            return "?:%s" % getattr(node, "lineno", "?")
        return "%s:%s" % (self.relpath(fn.module), getattr(node, "lineno", fn.node.lineno))

    def digest(self) -> Dict[str, str]:
        return {self.relpath(m): m.sha256 for m in self.modules.values()}


_LOCALS_CACHE = {}


def local_names_of(fn) -> frozenset:
    """Names bound inside the function other than its parameters (their spelling is not behaviour)."""
    if fn is None or getattr(fn, "node", None) is None:
        return frozenset()
    k = id(fn.node)
    if k not in _LOCALS_CACHE:
        a = fn.node.args
        params = {x.arg for x in a.posonlyargs + a.args + a.kwonlyargs}
        names = set()
        for n in ast.walk(fn.node):
            if isinstance(n, ast.Name) and isinstance(n.ctx, (ast.Store, ast.Del)) and n.id not in params:
                names.add(n.id)
        _LOCALS_CACHE[k] = frozenset(names)
    return _LOCALS_CACHE[k]


_NORM_CACHE = {}


def norm_stmt(node, fn=None) -> str:
    """Normalised statement text used to key findings (never line numbers).  With `fn`, local variable names are
    replaced by positional placeholders so that renaming a local does not change the key."""
    k = (id(node), id(getattr(fn, "node", None)))
    if isinstance(node, ast.AST) and k in _NORM_CACHE and _NORM_CACHE[k][0] is node:
        return _NORM_CACHE[k][1]
    s = _norm_stmt(node, fn)
    if isinstance(node, ast.AST):
        _NORM_CACHE[k] = (node, s)
    return s


def _norm_stmt(node, fn=None) -> str:
    try:
        if fn is not None and isinstance(node, ast.AST):
            loc = local_names_of(fn)
            if loc:
                import copy
                node = copy.deepcopy(node)
                order = {}
                for n in ast.walk(node):
                    if isinstance(n, ast.Name) and n.id in loc:
                        if n.id not in order:
                            order[n.id] = "L%d" % (len(order) + 1)
                for n in ast.walk(node):
                    if isinstance(n, ast.Name) and n.id in order:
                        n.id = order[n.id]
        s = ast.unparse(node)
    except Exception:
        s = type(node).__name__
    s = " ".join(s.split())
    return s if len(s) <= 160 else s[:157] + "..."
