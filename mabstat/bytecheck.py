# -*- coding: utf-8 -*-
"""Thorough-tier cross-checks of the fact base (DESIGN 2.3 b):
 (1) every module is compiled (never executed) and the STORE_ATTR / STORE_SUBSCR / DELETE_ATTR / DELETE_SUBSCR
     instructions of every code object are counted and compared with the store sites the AST walker sees, so that
     a construct the walker does not model cannot hide a write;
 (2) every function of the package that contains a store site or a call is interpreted by at least one abstract
     run, except the frozen list of Simulator driver methods that are decided by AST rules (C15/C16) only."""

import ast
import dis
import hashlib
import json
import os

from .model import AnalysisError, Program

STORE_OPS = {"STORE_ATTR", "STORE_SUBSCR", "DELETE_ATTR", "DELETE_SUBSCR", "STORE_SLICE"}
AST_ONLY = {  # decided by AST rules, not by abstract runs (one line of reason each)
    "simulator.Simulator.__init__": "simulation set-up; C15 R15.7 / C19 read it as AST",
    "simulator.Simulator._get_partial_evaluation": "evaluation bookkeeping (C16 AST rules)",
    "simulator.Simulator._offline_test_bandits": "driver (C15 R15.2/3, C16 R16.1/4 AST rules)",
    "simulator.Simulator._online_test_bandits": "driver",
    "simulator.Simulator._online_test_bandits_chunks": "driver (C15/C16 AST rules)",
    "simulator.Simulator._run_scaler": "scaling of the data set",
    "simulator.Simulator._run_train_test_split": "split (C16 R16.3 AST rules)",
    "simulator.Simulator._set_stats": "statistics (C16 R16.4)",
    "simulator.Simulator._train_bandits": "wrapper construction: its constructor calls are interpreted (SimWorld)",
    "simulator.Simulator._validate_args": "argument validation",
    "simulator.Simulator.get_arm_stats": "statistics",
    "simulator.Simulator.get_stats": "statistics",
    "simulator.Simulator.plot": "plotting",
    "simulator.Simulator.run": "driver (C15 R15.7)",
    "simulator._NeighborsSimulator.set_distances": "cache setter used only by the drivers (C15 R15.3)",
    "simulator.default_evaluator": "evaluation (C16 R16.2 path enumeration)",
    "mab.MAB._convert_matrix": "used by Simulator.__init__ only (C18 R18.3 reads it as AST)",
    "mab.MAB.cold_arms": "read-only property",
    "mab.MAB.neighborhood_policy": "read-only property",
}


def _code_objects(co, out):
    out.append(co)
    for c in co.co_consts:
        if hasattr(c, "co_code"):
            _code_objects(c, out)


def store_agreement(prog: Program):
    """Returns (n_functions, n_sites, mismatches)."""
    mism = []
    n_fn = n_sites = 0
    for m in prog.modules.values():
        try:
            top = compile(m.source, m.path, "exec", dont_inherit=True)
        except SyntaxError as e:
            raise AnalysisError("cannot compile %s: %s" % (m.path, e))
        cos = []
        _code_objects(top, cos)
        by_key = {}
        for co in cos:
            by_key.setdefault((co.co_name, co.co_firstlineno), []).append(co)
        funcs = list(m.functions.values()) + [f for c in m.classes.values() for f in c.methods.values()]
        # the store sites are read from the source as parsed (the analysed copy is in canonical form, where e.g. a
        # dictionary-filling loop has become a comprehension)
        raw = {}
        for n in ast.walk(ast.parse(m.source, filename=m.path)):
            if isinstance(n, (ast.FunctionDef, ast.AsyncFunctionDef)):
                raw[(n.name, n.lineno)] = n
        for f in funcs:
            rnode = raw.get((f.node.name, f.node.lineno))
            if rnode is None:
                mism.append("%s.%s: definition not found in the parsed source" % (m.name, f.qualname))
                continue
            f = type("RawFn", (), {"node": rnode, "qualname": f.qualname})()
            first = min([d.lineno for d in f.node.decorator_list] + [f.node.lineno])
            cands = by_key.get((f.node.name, first)) or by_key.get((f.node.name, f.node.lineno)) or []
            if not cands:
                mism.append("%s.%s: no code object found" % (m.name, f.qualname))
                continue
            co = cands[0]
            inner = []
            _code_objects(co, inner)
            # the compiler may duplicate a store (conditional expressions), so sites are compared by source line
            byte_lines = set()
            for c in inner:
                for ins in dis.get_instructions(c):
                    if ins.opname in STORE_OPS:
                        ln = ins.positions.lineno if ins.positions is not None else None
                        byte_lines.add(ln)
            skip = {id(n.target) for n in ast.walk(f.node) if isinstance(n, ast.AnnAssign) and n.value is None}
            ast_lines = set()
            for n in ast.walk(f.node):
                if isinstance(n, (ast.Attribute, ast.Subscript)) and isinstance(n.ctx, (ast.Store, ast.Del)) and \
                        id(n) not in skip:
                    ast_lines.add(n.lineno)
                    n_sites += 1
            n_fn += 1
            if byte_lines != ast_lines:
                mism.append("%s.%s: store instructions on lines %s, AST store sites on lines %s" %
                            (m.name, f.qualname, sorted(byte_lines - ast_lines), sorted(ast_lines - byte_lines)))
    return n_fn, n_sites, mism


def interpretation_coverage(prog: Program):
    from .facts import Facts
    F = Facts(prog)
    seen = set()
    for c in F.configs():
        w = F.world(c)
        for lab in F.entry_labels(c):
            F.trace(c, lab)
        seen |= {f.module.name + "." + f.qualname for f in w.eng.functions_seen}
    for c in F.sim_configs():
        w = F.sim_world(c)
        for lab, _, _ in w.standard_entries():
            if lab == "calculate_distances" and c.np == "LSHNearest":
                continue
            F.trace(c, lab, sim=True)
        seen |= {f.module.name + "." + f.qualname for f in w.eng.functions_seen}
    missing = []
    for f in prog.all_functions():
        q = f.module.name + "." + f.qualname
        if q in seen or f.is_trivial() or q in AST_ONLY:
            continue
        missing.append(q)
    stale = [q for q in AST_ONLY if q in seen]
    return len(seen), missing, stale


def run(prog: Program, verbose=True):
    """Cached by the digest of the sources.  Returns (rc, summary)."""
    cache_dir = os.path.join(os.path.dirname(os.path.dirname(os.path.abspath(__file__))), ".cache")
    key = hashlib.sha256(json.dumps(prog.digest(), sort_keys=True).encode()).hexdigest()[:24]
    path = os.path.join(cache_dir, "bytecheck_%s.json" % key)
    summary = None
    if os.path.exists(path):
        try:
            with open(path) as fh:
                summary = json.load(fh)
        except Exception:
            summary = None
    if summary is None:
        n_fn, n_sites, mism = store_agreement(prog)
        n_seen, missing, stale = interpretation_coverage(prog)
        summary = {"functions_compiled": n_fn, "store_sites": n_sites, "store_mismatches": mism,
                   "functions_interpreted": n_seen, "uninterpreted_unlisted": missing,
                   "ast_only_functions": sorted(AST_ONLY)}
        try:
            os.makedirs(cache_dir, exist_ok=True)
            with open(path + ".tmp%d" % os.getpid(), "w") as fh:
                json.dump(summary, fh)
            os.replace(path + ".tmp%d" % os.getpid(), path)
        except OSError:
            pass
    bad = summary["store_mismatches"] + ["%s contains code but is reached by no abstract run and is not in the "
                                         "AST-only list" % q for q in summary["uninterpreted_unlisted"]]
    if verbose:
        print("fact-base cross-check: %d functions compiled, %d store sites agree with the bytecode; %d functions "
              "interpreted, %d listed as AST-only; %d problems" %
              (summary["functions_compiled"], summary["store_sites"], summary["functions_interpreted"],
               len(summary["ast_only_functions"]), len(bad)))
        for b in bad:
            print("ANALYSIS-ERROR fact-base cross-check: %s" % b)
    return (2 if bad else 0), summary
