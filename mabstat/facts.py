# -*- coding: utf-8 -*-
"""Shared fact base for the rule modules: worlds (abstract bandits per configuration), cached abstract runs and
trace queries."""

import ast
from typing import Dict, List, Optional

from .engine import Config, World, SimWorld, all_configs, BINARIZER_VAL
from .model import AnalysisError, Program
from .values import Ev, Val

IMPLEMENTORS = ["_EpsilonGreedy", "_UCB1", "_Softmax", "_ThompsonSampling", "_Popularity", "_Random", "_Linear",
                "_Radius", "_KNearest", "_LSHNearest", "_Clusters", "_TreeBandit"]
CONTEXT_FREE = ["_EpsilonGreedy", "_UCB1", "_Softmax", "_ThompsonSampling", "_Popularity", "_Random"]
LP_CLASS = {"EpsilonGreedy": "_EpsilonGreedy", "Popularity": "_Popularity", "Random": "_Random",
            "Softmax": "_Softmax", "ThompsonSampling": "_ThompsonSampling", "UCB1": "_UCB1",
            "LinGreedy": "_Linear", "LinTS": "_Linear", "LinUCB": "_Linear"}
NP_CLASS = {"Clusters": "_Clusters", "KNearest": "_KNearest", "LSHNearest": "_LSHNearest", "Radius": "_Radius",
            "TreeBandit": "_TreeBandit"}


def syntactic_forget(prog: Program):
    """(class, field) pairs whose binding may change after construction: every attribute stored through `self`
    outside __init__ (for the class, its bases and subclasses), and every attribute name stored through a
    receiver other than `self` outside __init__ (for all classes)."""
    by_self = {}        # class name -> set of fields
    by_other = set()
    for f in prog.all_functions():
        if f.name == "__init__":
            continue
        for n in ast.walk(f.node):
            tgts = []
            if isinstance(n, ast.Assign):
                tgts = n.targets
            elif isinstance(n, (ast.AugAssign, ast.AnnAssign)):
                tgts = [n.target]
            elif isinstance(n, ast.Delete):
                tgts = n.targets
            elif isinstance(n, (ast.For, ast.comprehension)):
                tgts = [n.target]
            elif isinstance(n, ast.With):
                tgts = [i.optional_vars for i in n.items if i.optional_vars is not None]
            flat = []
            for t in tgts:
                flat.extend(t.elts if isinstance(t, (ast.Tuple, ast.List)) else [t])
            for t in flat:
                if isinstance(t, ast.Attribute):
                    if isinstance(t.value, ast.Name) and t.value.id == "self" and f.cls is not None:
                        by_self.setdefault(f.cls.name, set()).add(t.attr)
                    else:
                        by_other.add(t.attr)
    out = set()
    for c in prog.classes.values():
        fields = set(by_other)
        for c2 in prog.classes.values():
            if c2 in c.mro or c in c2.mro:
                fields |= by_self.get(c2.name, set())
        for fld in fields:
            out.add((c.name, fld))
    return out


class Facts:
    def __init__(self, prog: Program, ctx=None):
        self.prog = prog
        self.ctx = ctx
        self.forget = syntactic_forget(prog)
        self._worlds: Dict[str, World] = {}
        self._traces = {}

    def world(self, config: Config) -> World:
        w = self._worlds.get(config.name)
        if w is None:
            w = World(self.prog, config, self.forget)
            self._worlds[config.name] = w
            if self.ctx is not None:
                self.ctx.analysed["configs"].add(config.name)
        return w

    def sim_world(self, config: Config) -> SimWorld:
        k = "sim:" + config.name
        w = self._worlds.get(k)
        if w is None:
            w = SimWorld(self.prog, config, self.forget)
            self._worlds[k] = w
            if self.ctx is not None:
                self.ctx.analysed["configs"].add(k)
        return w

    def sim_configs(self) -> List[Config]:
        return [c for c in all_configs() if c.np in ("Radius", "KNearest", "LSHNearest")]

    def trace(self, config: Config, label: str, sim=False) -> Ev:
        k = (("sim:" if sim else "") + config.name, label)
        if k not in self._traces:
            w = self.sim_world(config) if sim else self.world(config)
            for lab, method, args in w.standard_entries():
                if lab == label:
                    root = w.run(method, args)
                    self._traces[k] = root
                    if self.ctx is not None:
                        self.ctx.analysed["entries"] += 1
                        for f in w.eng.functions_seen:
                            self.ctx.saw_fn(f)
                        for q, n in w.eng.unclassified.items():
                            self.ctx.unclassified[q] = max(self.ctx.unclassified.get(q, 0), n)
                    break
            else:
                raise AnalysisError("no entry %s for configuration %s" % (label, config.name))
        return self._traces[k]

    def init_trace(self, config: Config) -> Ev:
        w = self.world(config)
        if self.ctx is not None:
            for f in w.eng.functions_seen:
                self.ctx.saw_fn(f)
        w.init_trace.a.setdefault("entry", "MAB.__init__")
        w.init_trace.a.setdefault("config", config.name)
        return w.init_trace

    def focus(self, config: Config, root: Ev, sim=False):
        """Make the engine's heap the one at the end of this run (object lookups for its events)."""
        w = self.sim_world(config) if sim else self.world(config)
        w.eng.heap = root.a["heap"]
        return w

    def entry_labels(self, config: Config) -> List[str]:
        return [lab for lab, _, _ in self.world(config).standard_entries()]

    def configs(self, lp=None, np_=None, binarizer=None) -> List[Config]:
        out = []
        for c in all_configs():
            if lp is not None and c.lp not in (lp if isinstance(lp, (list, tuple, set)) else [lp]):
                continue
            if np_ is not None:
                want = np_ if isinstance(np_, (list, tuple, set)) else [np_]
                if (c.np or "-") not in [x or "-" for x in want]:
                    continue
            if binarizer is not None and c.binarizer != binarizer:
                continue
            out.append(c)
        return out

    def configs_for_class(self, cls_name: str) -> List[Config]:
        """Configurations in which an object of this implementor class is MAB._imp."""
        out = []
        for c in all_configs():
            imp = NP_CLASS[c.np] if c.np else LP_CLASS[c.lp]
            if imp == cls_name or (c.np is None and cls_name == "_Linear" and LP_CLASS[c.lp] == "_Linear"):
                out.append(c)
        return out


# ------------------------------------------------------------------------------------------------ trace queries
def walk(ev: Ev, anc=()):
    """Yields (event, ancestors) depth-first in program order."""
    yield ev, anc
    a2 = anc + (ev,)
    for blk in ev.blocks():
        for c in blk:
            yield from walk(c, a2)


def calls_of(root: Ev, qualname: str = None, name: str = None):
    for ev, anc in walk(root):
        if ev.kind == "call":
            f = ev.a["callee"]
            if (qualname is None or f.qualname == qualname) and (name is None or f.name == name):
                yield ev, anc


def first_call(root: Ev, name: str, recv_not="MAB"):
    for ev, anc in calls_of(root, name=name):
        rc = ev.a["recv_cls"]
        if rc is not None and rc.name != recv_not:
            return ev
    return None


def stores(root: Ev):
    for ev, anc in walk(root):
        if ev.kind == "store":
            yield ev, anc


def enclosing_fn(anc):
    for a in reversed(anc):
        if a.kind == "call":
            return a.a["callee"]
    return None


def call_chain(anc) -> str:
    return " -> ".join(a.a["callee"].qualname for a in anc if a.kind == "call")


def is_rng_target(eng, t) -> bool:
    """Location belongs to a random stream: the `rng` field of a holder, or state of a generator object."""
    if t.field == "rng" and not t.sub:
        return False        # rebinding a holder's generator is a state change, not a draw
    if t.ocls in ("_NumpyRNG", "ext:numpy.random.Generator"):
        return True
    return False


def fmt_target(t) -> str:
    return "%s.%s%s" % (t.ocls, t.field, "".join(t.sub))
