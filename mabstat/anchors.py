# -*- coding: utf-8 -*-
"""Inventory of the function and method names of the package as the rules know them (frozen when the rules were
written). A method whose name is NOT listed here is taken for a helper extracted by a later refactoring: when it is
simple enough, the analysed copy has it inlined at its call sites (model.inline_helpers), so that the rules keep seeing
the mechanism in the functions they are anchored in. Listed names are never inlined."""

KNOWN_FUNCTIONS = frozenset([
    '__convert_context', '__init__', '_add_neighbors', '_binarize_ts_rewards', '_calculate_distances_of_batch',
    '_convert_array', '_convert_matrix', '_copy_arms', '_create_leaf_lp', '_drop_existing_arm', '_effective_jobs',
    '_expectation_operation', '_fit_arm', '_fit_operation', '_get_arm_distances', '_get_binary_rewards',
    '_get_cold_arm_to_warm_arm', '_get_distance_threshold', '_get_neighbors', '_get_nhood_predictions',
    '_get_no_nhood_predictions', '_get_pairwise_distances', '_get_partial_evaluation', '_get_ucb', '_initialize',
    '_is_compatible', '_normalize_expectations', '_offline_test_bandits', '_online_test_bandits',
    '_online_test_bandits_chunks', '_parallel_fit', '_parallel_predict', '_partition_contexts',
    '_predict_contexts', '_predict_operation', '_reset_arm_to_status', '_run_scaler', '_run_train_test_split',
    '_scale_predict_context', '_set_arms_as_trained', '_set_stats', '_train_bandits', '_uptake_new_arm',
    '_validate', '_validate_args', '_validate_arm', '_validate_context_type', '_validate_fit_args',
    '_validate_mab_args', '_validate_predict_args', '_vectorized_predict_context', '_warm_start', 'add_arm',
    'argmax', 'argmin', 'beta', 'calculate_distances', 'check_false', 'check_true', 'choice', 'cold_arms',
    'create_rng', 'default_evaluator', 'dirichlet', 'fit', 'fix_small_variance', 'get_arm_stats',
    'get_context_hash', 'get_stats', 'init', 'learning_policy', 'multivariate_normal', 'neighborhood_policy',
    'partial_fit', 'plot', 'predict', 'predict_expectations', 'rand', 'randint', 'remove_arm', 'reset', 'run',
    'set_distances', 'standard_normal', 'trained_arms', 'warm_start',
])
