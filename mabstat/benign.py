# -*- coding: utf-8 -*-
"""Whole-package behaviour-preserving transformations used by the thorough self-test: every check must stay silent
on them (DESIGN section 5: verdicts must not depend on formatting, comments, docstrings or local names)."""

import ast
import builtins

from .model import Program


def reformat(src: str) -> str:
    """parse + unparse: drops comments, normalises layout, quotes and parentheses."""
    return ast.unparse(ast.parse(src)) + "\n"


class _RenameLocals(ast.NodeTransformer):
    def visit_FunctionDef(self, node):
        params = {a.arg for a in node.args.posonlyargs + node.args.args + node.args.kwonlyargs}
        if node.args.vararg:
            params.add(node.args.vararg.arg)
        if node.args.kwarg:
            params.add(node.args.kwarg.arg)
        stored = set()
        for n in ast.walk(node):
            if isinstance(n, ast.Name) and isinstance(n.ctx, (ast.Store, ast.Del)):
                stored.add(n.id)
            if isinstance(n, (ast.FunctionDef, ast.ClassDef)) and n is not node:
                return node         # nested definitions: leave the function alone
            if isinstance(n, (ast.Global, ast.Nonlocal)):
                return node
        handlers = {h.name for h in ast.walk(node) if isinstance(h, ast.ExceptHandler) and h.name}
        rename = {n: n + "_loc" for n in stored if n not in params and n not in handlers
                  and not hasattr(builtins, n) and not n.startswith("__")}
        for n in ast.walk(node):
            if isinstance(n, ast.Name) and n.id in rename:
                n.id = rename[n.id]
        return node

    visit_AsyncFunctionDef = visit_FunctionDef

    def visit_ClassDef(self, node):
        self.generic_visit(node)
        return node


def rename_locals(src: str) -> str:
    tree = ast.parse(src)
    tree = _RenameLocals().visit(tree)
    ast.fix_missing_locations(tree)
    return ast.unparse(tree) + "\n"


class _Docstrings(ast.NodeTransformer):
    def visit_FunctionDef(self, node):
        self.generic_visit(node)
        has = node.body and isinstance(node.body[0], ast.Expr) and isinstance(node.body[0].value, ast.Constant) \
            and isinstance(node.body[0].value.value, str)
        if not has:
            node.body.insert(0, ast.Expr(value=ast.Constant(value="Added documentation for %s." % node.name)))
        return node


def add_docstrings(src: str) -> str:
    tree = _Docstrings().visit(ast.parse(src))
    ast.fix_missing_locations(tree)
    return ast.unparse(tree) + "\n"


class _SwapEq(ast.NodeTransformer):
    """a == b  ->  b == a  (single comparisons only; numpy's == is symmetric, also against scalars and str)"""

    def visit_Compare(self, node):
        self.generic_visit(node)
        if len(node.ops) == 1 and isinstance(node.ops[0], (ast.Eq, ast.NotEq)) and not isinstance(
                node.comparators[0], ast.Constant):
            node.left, node.comparators = node.comparators[0], [node.left]
        return node


def swap_eq(src: str) -> str:
    tree = _SwapEq().visit(ast.parse(src))
    ast.fix_missing_locations(tree)
    return ast.unparse(tree) + "\n"


class _SwapBranches(ast.NodeTransformer):
    """if T: A else: B  ->  if not T: B else: A  (plain if/else without elif)"""

    def visit_If(self, node):
        self.generic_visit(node)
        if node.orelse and not (len(node.orelse) == 1 and isinstance(node.orelse[0], ast.If)):
            node.test = ast.UnaryOp(op=ast.Not(), operand=node.test)
            node.body, node.orelse = node.orelse, node.body
        return node


def swap_branches(src: str) -> str:
    tree = _SwapBranches().visit(ast.parse(src))
    ast.fix_missing_locations(tree)
    return ast.unparse(tree) + "\n"


class _AugExpand(ast.NodeTransformer):
    """self.d[k] op= v  ->  self.d[k] = self.d[k] op v   (entries of dictionaries held by self: numbers or lists,
    for which the two spellings behave alike; plain names and whole arrays are left alone)"""

    def visit_AugAssign(self, node):
        t = node.target
        if isinstance(t, ast.Subscript) and isinstance(t.value, (ast.Attribute, ast.Subscript)) and \
                ast.unparse(t).startswith("self."):
            import copy
            load = copy.deepcopy(t)
            for n in ast.walk(load):
                if hasattr(n, "ctx"):
                    n.ctx = ast.Load()
            return ast.copy_location(ast.Assign(targets=[t], value=ast.BinOp(left=load, op=node.op, right=node.value)),
                                     node)
        return node


def aug_expand(src: str) -> str:
    tree = _AugExpand().visit(ast.parse(src))
    ast.fix_missing_locations(tree)
    return ast.unparse(tree) + "\n"


EXPERIMENTAL = {}
WHOLE_PROGRAM = {}
TRANSFORMS = {"reformat": reformat, "add-docstrings": add_docstrings, "rename-locals": rename_locals,
              "swap-eq": swap_eq, "swap-branches": swap_branches, "aug-expand": aug_expand}


def overrides(prog: Program, name: str):
    if name in WHOLE_PROGRAM:
        return WHOLE_PROGRAM[name]({m.name: m.source for m in prog.modules.values() if m.source.strip()})
    f = TRANSFORMS.get(name) or EXPERIMENTAL[name]
    return {m.name: f(m.source) for m in prog.modules.values() if m.source.strip()}
