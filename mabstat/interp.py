# -*- coding: utf-8 -*-
"""Abstract interpreter over the mabwiser sources.

It never executes repository code.  It walks the ASTs with an abstract heap (one abstract object per allocation
site and calling context), inlines every call whose callee is part of the package (resolving `self.m()`,
`super().m()`, `Cls.m()`, typed receivers and the joblib `Parallel(...)(delayed(f)(..) for ..)` idiom), and
produces a *trace tree* of events (stores, loads, external calls, generator draws, allocations, control
structure).  Values carry may-alias information (refs/locs), data dependences (deps) and known constants.
The rule modules query the trace trees."""

import ast
from typing import Dict, List, Optional

from . import externals as X
from .model import AnalysisError, ClassInfo, FunctionInfo, Program
from .values import EMPTY, NOCONST, Ev, Guard, Heap, Obj, Target, Val, join, join_all

MAX_DEPTH = 40
CONTAINER_CLS = {"dict", "list", "tuple", "set"}


class Frame:
    def __init__(self, fn: Optional[FunctionInfo], recv_cls: Optional[ClassInfo], env: Dict[str, Val]):
        self.fn = fn
        self.recv_cls = recv_cls        # class of `self` (receiver), for super() resolution
        self.env = env
        self.ret: Optional[Val] = None
        self.ret_heaps = []             # heap snapshots at the return points
        self.returned = False           # all paths so far returned/raised


class Interp:
    def __init__(self, prog: Program):
        self.prog = prog
        self.heap = Heap()
        self.next_oid = 1
        self.alloc_cache = {}           # allocation context -> oid
        self.frames: List[Frame] = []
        self.out: List[Ev] = []         # current event list
        self.guards = ()
        self.loops = ()                 # tuple of (loop_id, generation)
        self.loop_counter = 0
        self.callstack = ()             # tuple of (FunctionInfo, call node)
        self.epoch = 0
        self.unclassified = {}          # external name -> count
        self.unresolved = []            # (fn, node, text)
        self.class_attr_objs = {}       # (class name, attr) -> Val (class-level objects, region 'global')
        self.narrow = {}                # (oid, field) -> set of class names (isinstance narrowing)
        self.stats = {"calls_inlined": 0, "ext_calls": 0, "stores": 0, "loads": 0, "allocs": 0}
        self.functions_seen = set()
        self.persistent = {}            # oid -> Obj for 'global' region objects (class attributes, defaults)
        self.typestate_mode = False     # C14: loops run at least once; all-elements loops update summaries strongly
        self.loop_iters = {}            # loop id -> iterable value
        self.constructing = False       # inside the bandit's constructor (World._build)

    # ============================================================================================ allocation
    def alloc(self, cls, region, site, label=None, key=None) -> Obj:
        # during construction the elements a loop creates are one abstract element (as those of a comprehension are)
        loops = tuple(l for l, _ in self.loops) if self.constructing else self.loops
        ctx = (key if key is not None else id(site), tuple(id(n) for _, n in self.callstack), loops, self.epoch,
               cls, region)
        oid = self.alloc_cache.get(ctx)
        if oid is None or oid not in self.heap.objs:
            oid = self.next_oid
            self.next_oid += 1
            self.alloc_cache[ctx] = oid
        o = Obj(oid, cls, region, site, self.loops, self.epoch, label)
        self.heap.add(o)
        if region == "global":
            self.persistent[oid] = o
        self.stats["allocs"] += 1
        return o

    def obj(self, oid) -> Obj:
        o = self.heap.objs.get(oid)
        if o is None:
            o = self.persistent[oid]
            self.heap.objs[oid] = o
        return o

    def mobj(self, oid) -> Obj:
        """The record of oid, made exclusive to the current heap (call before mutating it)."""
        if oid not in self.heap.objs:
            self.heap.objs[oid] = self.persistent[oid]
        return self.heap.mut(oid)

    def ref(self, o: Obj, deps=()) -> Val:
        return Val(refs=[o.oid], deps=deps)

    # ============================================================================================ emit
    def emit(self, kind, node=None, **a) -> Ev:
        fn = self.frames[-1].fn if self.frames else None
        ev = Ev(kind, fn, node, self.guards, self.loops, self.callstack, **a)
        self.out.append(ev)
        return ev

    def ctrl_deps(self):
        d = frozenset()
        for g in self.guards:
            d |= g.val.deps
        return d

    # ============================================================================================ heap access
    def read_field(self, base: Val, name: str, node=None, quiet=False) -> Val:
        parts = []
        targets = []
        for oid in base.refs:
            o = self.obj(oid)
            targets.append(Target(oid, name, (), o.region, o.cls, "ref"))
            if name in o.fields:
                v = o.fields[name]
                if "maybe-unset" in v.tags and o.cls not in CONTAINER_CLS:
                    v = join(v, Val(locs=[(oid, ("." + name,))]))
                parts.append(v.add_deps([(oid, ("." + name,))]))
            else:
                pc = self.prog.classes.get(o.cls) if o.cls else None
                got = None
                if pc is not None:
                    owner, expr = pc.class_attr(name)
                    if expr is not None and not (pc.resolve(name)):
                        got = self.class_attr_val(owner, name, expr)
                        if pc.is_namedtuple and o.region == "caller":
                            # a caller may pass the default or their own value
                            got = join(got, Val(locs=[(oid, ("." + name,))], deps=[(oid, ("." + name,))]))
                    elif pc.is_namedtuple and name in pc.class_ann:
                        got = Val(locs=[(oid, ("." + name,))], deps=[(oid, ("." + name,))])
                if got is None:
                    got = Val(locs=[(oid, ("." + name,))], deps=[(oid, ("." + name,))])
                    if pc is not None and not quiet and o.region != "caller" and not pc.is_namedtuple and \
                            pc.resolve(name) is None and name not in self.known_attrs(pc):
                        # no method, class attribute or assignment anywhere gives an instance of this class the
                        # attribute: the read raises AttributeError
                        self.emit("missing-attr", node, cls=o.cls, name=name)
                parts.append(got)
        for (oid, steps) in base.locs:
            o = self.obj(oid)
            ns = steps + ("." + name,)
            targets.append(Target(oid, steps[0][1:] if steps and steps[0].startswith(".") else None, ns[1:], o.region,
                                  o.cls, "loc"))
            parts.append(Val(locs=[(oid, ns)], deps=[(oid, ns)]))
        if not parts:
            v = Val(deps=base.deps, tags=["attr:" + name])
        else:
            v = join_all(parts).add_deps(base.deps)
        # isinstance narrowing of the types behind this exact location
        if len(base.refs) == 1 and not base.locs:
            nk = (next(iter(base.refs)), name)
            if nk in self.narrow and v.refs:
                keep = frozenset(r for r in v.refs if self.obj(r).cls in self.narrow[nk])
                if keep:
                    v = v.with_(refs=keep)
        if not quiet and targets:
            self.stats["loads"] += 1
            self.emit("load", node, targets=targets, name=name, val=v)
        return v

    def known_attrs(self, pc: ClassInfo):
        """Attribute names an instance of pc can have: stored on self by a method of its MRO, declared at class level,
        or stored on some object from outside (x.name = ...) anywhere in the package."""
        cache = self.__dict__.setdefault("_known_attrs", {})
        if pc.name in cache:
            return cache[pc.name]
        ext = self.__dict__.get("_ext_attr_stores")
        if ext is None:
            ext = set()
            for m in self.prog.modules.values():
                for n in ast.walk(m.tree):
                    if isinstance(n, ast.Attribute) and isinstance(n.ctx, ast.Store) and not (
                            isinstance(n.value, ast.Name) and n.value.id == "self"):
                        ext.add(n.attr)
                    if isinstance(n, ast.Call) and isinstance(n.func, ast.Name) and n.func.id == "setattr" and \
                            len(n.args) >= 2 and isinstance(n.args[1], ast.Constant):
                        ext.add(n.args[1].value)
            self.__dict__["_ext_attr_stores"] = ext
        names = set(ext)
        for k in pc.mro:
            for st in k.node.body:
                if isinstance(st, (ast.Assign, ast.AnnAssign)):
                    for t in (st.targets if isinstance(st, ast.Assign) else [st.target]):
                        if isinstance(t, ast.Name):
                            names.add(t.id)
            for f in k.methods.values():
                for n in ast.walk(f.node):
                    if isinstance(n, ast.Attribute) and isinstance(n.ctx, ast.Store) and \
                            isinstance(n.value, ast.Name) and n.value.id == "self":
                        names.add(n.attr)
        cache[pc.name] = names
        return names

    def class_attr_val(self, owner: ClassInfo, name: str, expr) -> Val:
        k = (owner.name, name)
        if k not in self.class_attr_objs:
            saved = (self.out, self.guards, self.loops, self.callstack, self.frames)
            self.out, self.guards, self.loops, self.callstack = [], (), (), ()
            self.frames = [Frame(None, owner, {})]
            self._module_ctx = owner.module
            try:
                v = self.eval_in_module(expr, owner.module, region="global", label="%s.%s" % (owner.name, name))
            finally:
                self.out, self.guards, self.loops, self.callstack, self.frames = saved
            self.class_attr_objs[k] = v
        return self.class_attr_objs[k]

    def eval_in_module(self, expr, module, region="global", label=None) -> Val:
        old = getattr(self, "_force_region", None), getattr(self, "_force_label", None)
        self._force_region, self._force_label = region, label
        f = Frame(FunctionInfo.__new__(FunctionInfo), None, {})
        f.fn.module, f.fn.cls, f.fn.node, f.fn.name = module, None, None, "<module %s>" % module.name
        f.fn.decorators, f.fn.is_static, f.fn.is_property, f.fn.is_abstract = [], False, False, False
        self.frames.append(f)
        try:
            return self.eval(expr)
        finally:
            self.frames.pop()
            self._force_region, self._force_label = old

    def adopt(self, parent_oid, step, value: Val, force=False):
        for r in value.refs:
            if r == parent_oid or r not in self.heap.objs:
                continue
            ro = self.obj(r)
            if (ro.owner is None or force) and ro.region not in ("caller", "global"):
                self.mobj(r).owner = (parent_oid, step)

    def anchor(self, oid):
        """(anchor object, steps from it) following owner links up to the nearest program-class object."""
        steps = ()
        cur = self.obj(oid)
        seen = set()
        while cur.cls in CONTAINER_CLS or cur.cls is None:
            if cur.owner is None or cur.owner[0] not in self.heap.objs or cur.oid in seen:
                break
            seen.add(cur.oid)
            steps = (cur.owner[1],) + steps
            cur = self.obj(cur.owner[0])
        return cur, steps

    def store_targets(self, base: Val, step: str) -> List[Target]:
        """Normalised targets for a store `base<step> = ..` where step is '.name' or '[*]'."""
        ts = []
        for oid in base.refs:
            o = self.obj(oid)
            a, steps = self.anchor(oid)
            steps = steps + (step,)
            region = o.region
            if steps[0].startswith("."):
                ts.append(Target(a.oid, steps[0][1:], steps[1:], region, a.cls, "ref"))
            else:
                ts.append(Target(a.oid, None, steps, region, a.cls, "ref"))
        for (oid, steps) in base.locs:
            o = self.obj(oid)
            ns = steps + (step,)
            if not (steps and steps[0].startswith(".")):
                a, st = self.anchor(oid)
                if st:
                    ns = st + ns
                    oid = a.oid
                    region = o.region
                    o = a
                    ts.append(Target(oid, ns[0][1:] if ns[0].startswith(".") else None,
                                     ns[1:] if ns[0].startswith(".") else ns, region, o.cls, "loc"))
                    continue
            if ns[0].startswith("."):
                ts.append(Target(oid, ns[0][1:], ns[1:], o.region, o.cls, "loc"))
            else:
                ts.append(Target(oid, None, ns, o.region, o.cls, "loc"))
        return ts

    def write_field(self, base: Val, name: str, value: Val, node, kind="rebind"):
        targets = self.store_targets(base, "." + name)
        strong = len(base.refs) == 1 and not base.locs
        if strong and self.typestate_mode:
            so = self.obj(next(iter(base.refs)))
            if so.owner is not None and so.owner[1] == "[*]":
                # one abstract object for all elements: strong only inside a loop over all of them
                strong = any(t.startswith("loopvar:") and so.owner[0] in self.loop_iters.get(
                    int(t.split(":")[1]), Val()).refs for t in base.tags) or any(
                    t.startswith("idx:loopvar:") for t in base.tags)
        old_refs = frozenset()
        for oid in base.refs:
            ov = self.obj(oid).fields.get(name)
            if ov is not None:
                old_refs |= ov.refs
        for oid in base.refs:
            o = self.mobj(oid)
            if strong:
                o.fields[name] = value
            else:
                o.fields[name] = join(o.fields.get(name) or Val(locs=[(oid, ("." + name,))]), value)
            self.adopt(oid, "." + name, value)
            self.narrow.pop((oid, name), None)
        self.stats["stores"] += 1
        self.emit("store", node, targets=targets, skind=kind, value=value, base=base, step="." + name,
                  old_refs=old_refs)

    def write_elem(self, base: Val, key: Optional[Val], value: Val, node, kind="setitem"):
        targets = self.store_targets(base, "[*]")
        for oid in base.refs:
            o = self.mobj(oid)
            o.elem = join(o.elem, value)
            self.adopt(oid, "[*]", value)
            if key is not None:
                o.keys = join(o.keys, key)
                if key.has_const and len(base.refs) == 1 and not base.locs:
                    try:
                        o.mustkeys[key.const] = value
                    except TypeError:
                        pass
            if o.dictkeys is not None:
                if key is not None and key.has_const:
                    o.dictkeys[key.const] = value
                else:
                    o.dictkeys = None
        self.stats["stores"] += 1
        self.emit("store", node, targets=targets, skind=kind, value=value, base=base, step="[*]", key=key)

    def read_elem(self, base: Val, key: Optional[Val] = None, node=None, fancy=False) -> Val:
        parts = []
        deps = set(base.deps)       # the key selects the element; it is not a data source of the value
        for oid in base.refs:
            o = self.obj(oid)
            if o.dictkeys is not None and key is not None and key.has_const and key.const in o.dictkeys:
                parts.append(o.dictkeys[key.const])
            elif o.elem is not None:
                parts.append(o.elem)
                if (o.cls not in CONTAINER_CLS or o.region != "fresh") and not self._holds_objects(o.elem):
                    parts.append(Val(locs=[(oid, ("[*]",))]))
            else:
                parts.append(Val(locs=[(oid, ("[*]",))]))
            deps.add((oid, ("[*]",)))
        for (oid, steps) in base.locs:
            ns = steps + ("[*]",)
            parts.append(Val(locs=[(oid, ns)]))
            deps.add((oid, ns))
        v = join_all(parts) if parts else Val()
        if fancy:
            v = Val(deps=v.deps, tags=v.tags)
        if key is not None:
            idx = frozenset("idx:" + t for t in key.tags if t.startswith("loopvar:"))
            if idx:
                v = v.with_(tags=v.tags | idx)
        return v.add_deps(deps)

    def _holds_objects(self, v: Val) -> bool:
        """The value references program / estimator objects (type invariance: the slot keeps holding those)."""
        for r in v.refs:
            c = self.obj(r).cls
            if c and c not in CONTAINER_CLS:
                return True
        return False

    # ============================================================================================ deepcopy
    def deep_clone(self, v: Val, site, memo=None) -> Val:
        memo = {} if memo is None else memo
        refs = set()
        for oid in v.refs:
            refs.add(self._clone_obj(oid, site, memo))
        for (oid, steps) in v.locs:
            # unknown content below a location: the copy is a fresh object standing for "copy of that content"
            k = ("loc", oid, steps)
            if k not in memo:
                src = self.obj(oid)
                o = self.alloc(None, "fresh", site, label="copy of %s%s" % (src.cls, "".join(steps)), key=k)
                o.copy_of = (oid, steps)
                memo[k] = o.oid
            refs.add(memo[k])
        return Val(refs=refs, deps=v.deps, const=v.const, tags=v.tags | {"deepcopy"}, callee=v.callee)

    def _clone_obj(self, oid, site, memo):
        if oid in memo:
            return memo[oid]
        src = self.obj(oid)
        if src.cls and src.cls.startswith("ext:") and False:
            return oid
        o = self.alloc(src.cls, "fresh", site, label="copy of " + (src.label or str(src.cls)), key=("clone", oid))
        memo[oid] = o.oid
        o.copy_of = (oid, ())
        o.dictkeys = None
        for f, fv in src.fields.items():
            o.fields[f] = self.deep_clone(fv, site, memo).with_(tags=fv.tags - {"maybe-unset"})
            self.adopt(o.oid, "." + f, o.fields[f])
        if src.elem is not None:
            o.elem = self.deep_clone(src.elem, site, memo)
            self.adopt(o.oid, "[*]", o.elem)
        if src.keys is not None:
            o.keys = src.keys
        return o.oid

    def shallow_copy(self, v: Val, site, cls=None) -> Val:
        o = self.alloc(cls, "fresh", site, label="shallow copy")
        o.shallow = True
        elems = []
        keys = []
        for oid in v.refs:
            s = self.obj(oid)
            if cls is None:
                o.cls = s.cls
            if s.elem is not None:
                elems.append(s.elem)
            if s.cls not in CONTAINER_CLS or s.region != "fresh":
                elems.append(Val(locs=[(oid, ("[*]",))]))
            if s.keys is not None:
                keys.append(s.keys)
            o.mustkeys = dict(s.mustkeys) if len(v.refs) == 1 and not v.locs else {}
            if s.cls is not None and s.cls not in CONTAINER_CLS and not s.cls.startswith("ext:"):
                # copy.copy of a program object: fields alias
                for f, fv in s.fields.items():
                    o.fields[f] = fv
            o.copy_of = (oid, ())
        for (oid, steps) in v.locs:
            elems.append(Val(locs=[(oid, steps + ("[*]",))]))
            o.copy_of = (oid, steps)
        if v.extra is not None and v.extra[0] in ("enumerate", "zip", "items", "tuple"):
            pass
        o.elem = join_all(elems).add_deps(v.deps) if elems else Val(deps=v.deps)
        o.keys = join_all(keys) if keys else None
        return Val(refs=[o.oid], deps=v.deps, tags=["shallow"])
