# -*- coding: utf-8 -*-
"""Cardinality interpreter: abstract interpretation of the prediction methods over the *kinds and lengths* of their
values (dictionary keyed by the arms, list of m, array of shape (m, k), scalar ...), one scenario at a time:
contexts is None / one row / m > 1 rows. Nothing is executed; random draws are values of a known shape; tests that
depend on the scenario only (contexts is None, len(contexts) == 1, isinstance(x, dict), len(result) > 1) are decided,
all other tests are explored on both sides. The result is the kind of every value a method can return in the
scenario, however the method spells its branches, loops and temporaries."""

import ast

M = "M"         # number of query rows (more than one when it appears as a symbol)
K = "K"         # number of arms


class V:
    __slots__ = ("kind", "n", "elem", "shape", "const", "src")

    def __init__(self, kind, n=None, elem=None, shape=None, const=None, src=None):
        self.kind, self.n, self.elem, self.shape, self.const, self.src = kind, n, elem, shape, const, src

    def __repr__(self):
        if self.kind == "list":
            return "list[%s] of %r" % (self.n, self.elem)
        if self.kind == "gen":
            return "iter[%s] of %r" % (self.n, self.elem)
        if self.kind == "arr":
            return "array%r" % (tuple(self.shape),)
        if self.kind == "dict":
            return "dict[%s]" % self.n + (" <%s>" % (self.src,) if self.src else "")
        if self.kind in ("int", "bool") and self.const is not None:
            return "%s %r" % (self.kind, self.const)
        if self.kind == "scalar" and self.src:
            return "scalar <%s>" % (self.src,)
        return self.kind


UNKNOWN = V("unknown")
SCALAR = V("scalar")
NONE = V("none")


def same_dim(a, b):
    return a is not None and b is not None and a == b


def join(a, b):
    if a is None:
        return b
    if b is None:
        return a
    if a.kind != b.kind:
        if {a.kind, b.kind} <= {"scalar", "int", "bool"}:
            return SCALAR
        return UNKNOWN
    if a.kind in ("list", "gen"):
        return V(a.kind, a.n if same_dim(a.n, b.n) else None, join(a.elem, b.elem))
    if a.kind == "dict":
        return V("dict", a.n if same_dim(a.n, b.n) else None, join(a.elem, b.elem), src=a.src if a.src == b.src else None)
    if a.kind == "arr":
        return a if a.shape == b.shape else V("arr", shape=(None,) * len(a.shape) if len(a.shape) == len(b.shape)
                                              else None)
    if a.kind in ("int", "bool"):
        return a if a.const == b.const else V(a.kind, n=a.n if same_dim(a.n, b.n) else None)
    if a.kind == "tuple":
        if a.elem is not None and b.elem is not None and len(a.elem) == len(b.elem):
            return V("tuple", elem=[join(x, y) for x, y in zip(a.elem, b.elem)])
        return V("tuple")
    if a.kind == "scalar":
        return a if a.src == b.src else SCALAR
    return a


class Return(Exception):
    pass


class CardInterp:
    def __init__(self, prog, cls_name, scenario, depth=0):
        """scenario: 'none' | 'one' | 'many'"""
        self.prog = prog
        self.cls = prog.cls(cls_name) if cls_name else None
        self.scenario = scenario
        self.depth = depth
        self.notes = []

    # ------------------------------------------------------------------------------------------------ dims
    def rows(self):
        return {"none": None, "one": 1, "many": M}[self.scenario]

    def int_of(self, v):
        """dimension an integer value stands for: python int, symbol, or None"""
        if v.kind in ("int", "bool") and v.const is not None:
            return int(v.const)
        if v.kind == "int":
            return v.n
        return None

    def mk_int(self, d):
        if isinstance(d, int):
            return V("int", const=d)
        return V("int", n=d)

    def contexts_value(self):
        r = self.rows()
        if r is None:
            return NONE
        return V("arr", shape=(r, "D"))

    # ------------------------------------------------------------------------------------------------ functions
    def run_method(self, name, args, kwargs=None):
        fn = self.cls.resolve(name) if self.cls is not None else None
        if fn is None or self.depth > 4:
            return UNKNOWN
        owner = fn.cls.name if fn.cls is not None else None
        sub = CardInterp(self.prog, self.cls.name, self.scenario, self.depth + 1)
        env = {}
        params = fn.params[0 if fn.is_static else 1:]
        for p, a in zip(params, args):
            env[p] = a
        for k, v in (kwargs or {}).items():
            env[k] = v
        d = fn.node.args.defaults
        for p, dv in zip(params[len(params) - len(d):], d):
            if p not in env:
                env[p] = sub.ev(dv, {})
        for p in params:
            env.setdefault(p, UNKNOWN)
        out = sub.run(fn.node.body, env)
        self.notes.extend(sub.notes)
        return out

    def run(self, body, env):
        """join of the values the body can return (NONE for falling off the end)"""
        rets = []
        self.block(body, env, rets)
        out = None
        for r in rets:
            out = join(out, r)
        return out if out is not None else NONE

    # ------------------------------------------------------------------------------------------------ statements
    def block(self, stmts, env, rets):
        """False when every path through stmts has returned"""
        for st in stmts:
            if not self.stmt(st, env, rets):
                return False
        return True

    def stmt(self, st, env, rets):
        if isinstance(st, ast.Return):
            rets.append(self.ev(st.value, env) if st.value is not None else NONE)
            return False
        if isinstance(st, ast.Raise):
            return False
        if isinstance(st, (ast.Pass, ast.Assert, ast.Import, ast.ImportFrom)):
            return True
        if isinstance(st, ast.Expr):
            c = st.value
            if isinstance(c, ast.Call) and isinstance(c.func, ast.Attribute) and isinstance(c.func.value, ast.Name) \
                    and c.func.value.id in env and env[c.func.value.id].kind == "list":
                lst = env[c.func.value.id]
                if c.func.attr == "append" and len(c.args) == 1:
                    n = lst.n + 1 if isinstance(lst.n, int) else None
                    env[c.func.value.id] = V("list", n, join(lst.elem, self.ev(c.args[0], env)))
                    return True
                if c.func.attr == "extend" and len(c.args) == 1:
                    x = self.iterable(self.ev(c.args[0], env))
                    n = lst.n + x.n if isinstance(lst.n, int) and isinstance(x.n, int) else (
                        x.n if lst.n == 0 else None)
                    env[c.func.value.id] = V("list", n, join(lst.elem, x.elem))
                    return True
            if isinstance(c, ast.Call) and isinstance(c.func, ast.Attribute) and isinstance(c.func.value, ast.Name) \
                    and c.func.value.id in env and env[c.func.value.id].kind == "dict" and \
                    c.func.attr in ("setdefault", "update", "pop", "popitem", "clear"):
                cur = env[c.func.value.id]
                env[c.func.value.id] = V("dict", None, cur.elem, src=None)      # keys added / removed: order unknown
                return True
            self.ev(c, env)
            return True
        if isinstance(st, ast.Assign):
            v = self.ev(st.value, env)
            for t in st.targets:
                if isinstance(t, ast.Subscript) and isinstance(t.value, ast.Name) and t.value.id in env:
                    cur = env[t.value.id]
                    if cur.kind == "list":
                        # L[i] = v: a slot of a pre-sized list is filled (the placeholder None is not an element)
                        old = cur.elem if cur.elem is not None and cur.elem.kind != "none" else None
                        env[t.value.id] = V("list", cur.n, join(old, v), src=cur.src)
                        continue
                    if cur.kind == "dict":
                        k = self.ev(t.slice, env)
                        # an entry written under one of the arms keeps the keys (and their order); any other key may
                        # be a new one, appended behind the existing keys
                        keeps = k.kind == "scalar" and k.src == "label"
                        env[t.value.id] = V("dict", cur.n if keeps else None, join(cur.elem, v),
                                            src=cur.src if keeps else None)
                        continue
                self.bind(t, v, env)
            return True
        if isinstance(st, ast.AnnAssign):
            if st.value is not None:
                self.bind(st.target, self.ev(st.value, env), env)
            return True
        if isinstance(st, ast.AugAssign):
            if isinstance(st.target, ast.Name):
                cur = env.get(st.target.id, UNKNOWN)
                add = self.ev(st.value, env)
                if cur.kind == "list" and isinstance(st.op, ast.Add):
                    x = self.iterable(add)
                    n = x.n if cur.n == 0 else (cur.n + x.n if isinstance(cur.n, int) and isinstance(x.n, int)
                                                else None)
                    env[st.target.id] = V("list", n, join(cur.elem, x.elem))
                else:
                    env[st.target.id] = self.binop(cur, add)
            return True
        if isinstance(st, ast.If):
            t = self.truth(self.ev(st.test, env))
            if t is True:
                return self.block(st.body, env, rets)
            if t is False:
                return self.block(st.orelse, env, rets)
            ea, eb = dict(env), dict(env)
            fa = self.block(st.body, ea, rets)
            fb = self.block(st.orelse, eb, rets)
            if fa and fb:
                for k in set(ea) | set(eb):
                    env[k] = join(ea.get(k, UNKNOWN), eb.get(k, UNKNOWN)) if k in ea and k in eb else UNKNOWN
            elif fa:
                env.clear()
                env.update(ea)
            elif fb:
                env.clear()
                env.update(eb)
            return fa or fb
        if isinstance(st, ast.For):
            it = self.iterable(self.ev(st.iter, env))
            return self.loop(st, it, env, rets)
        if isinstance(st, ast.While):
            self.havoc(st, env)
            return True
        if isinstance(st, (ast.With, ast.Try)):
            self.havoc(st, env)
            return True
        return True

    def havoc(self, st, env):
        for n in ast.walk(st):
            if isinstance(n, ast.Name) and isinstance(n.ctx, ast.Store):
                env[n.id] = UNKNOWN

    def loop(self, st, it, env, rets):
        """one abstract turn; lists appended to exactly c times per turn grow by c * len(iterable)"""
        from .common import _count_writes
        grown = {n.func.value.id for n in ast.walk(st) if isinstance(n, ast.Call) and
                 isinstance(n.func, ast.Attribute) and n.func.attr in ("append", "extend", "insert") and
                 isinstance(n.func.value, ast.Name)}
        lists = [k for k, v in env.items() if v.kind == "list" and k in grown]
        before = {k: env[k] for k in lists}
        for k in lists:
            env[k] = V("list", 0, None)
        self.bind(st.target, it.elem if it.elem is not None else UNKNOWN, env)
        has_exit = any(isinstance(n, (ast.Break, ast.Return)) for n in ast.walk(st))
        inner_rets = []
        self.block(st.body, env, inner_rets)
        rets.extend(inner_rets)
        for k in lists:
            def is_app(n, k=k):
                return isinstance(n, ast.Call) and isinstance(n.func, ast.Attribute) and \
                    n.func.attr == "append" and isinstance(n.func.value, ast.Name) and n.func.value.id == k
            counts = _count_writes(st.body, is_app)
            touched = any(isinstance(n, ast.Name) and n.id == k for n in ast.walk(st))
            old = before[k]
            cur = env.get(k, UNKNOWN)
            if not touched:
                env[k] = old
                continue
            if cur.kind != "list":
                continue
            if counts == {1} and not has_exit and it.n is not None and not any(
                    isinstance(n, (ast.AugAssign, ast.Assign)) and any(
                        isinstance(x, ast.Name) and x.id == k and isinstance(x.ctx, ast.Store) for x in ast.walk(n))
                    for n in ast.walk(st)):
                n = it.n if old.n == 0 else (old.n + it.n if isinstance(old.n, int) and isinstance(it.n, int) else None)
                env[k] = V("list", n, join(old.elem, cur.elem))
            elif counts == {0}:
                env[k] = V("list", old.n if cur.n == 0 else None, join(old.elem, cur.elem))
            else:
                env[k] = V("list", None, join(old.elem, cur.elem))
        if st.orelse:
            self.block(st.orelse, env, rets)
        return True

    def bind(self, t, v, env):
        if isinstance(t, ast.Name):
            env[t.id] = v
        elif isinstance(t, (ast.Tuple, ast.List)):
            parts = None
            if v.kind == "tuple" and v.elem is not None and len(v.elem) == len(t.elts):
                parts = v.elem
            elif v.kind == "arr" and v.shape:
                parts = [V("arr", shape=tuple(v.shape[1:])) if len(v.shape) > 1 else SCALAR] * len(t.elts)
            for i, e in enumerate(t.elts):
                self.bind(e, parts[i] if parts else UNKNOWN, env)
        # stores into containers / attributes do not change kinds or lengths of what we track

    # ------------------------------------------------------------------------------------------------ expressions
    def truth(self, v):
        if v.kind in ("bool", "int") and v.const is not None:
            return bool(v.const)
        if v.kind == "none":
            return False
        if v.kind in ("list", "dict") and isinstance(v.n, int):
            return v.n > 0
        if v.kind in ("list", "dict") and v.n in (M, K):
            return True
        return None

    def iterable(self, v):
        if v.kind in ("list", "gen"):
            return V("gen", v.n, v.elem)
        if v.kind == "dict":
            return V("gen", v.n, V("scalar", src="label"))
        if v.kind == "arr" and v.shape:
            return V("gen", v.shape[0], V("arr", shape=tuple(v.shape[1:])) if len(v.shape) > 1 else SCALAR)
        if v.kind == "tuple" and v.elem is not None:
            e = None
            for x in v.elem:
                e = join(e, x)
            return V("gen", len(v.elem), e)
        return V("gen", None, UNKNOWN)

    def ev(self, e, env):
        m = getattr(self, "e_" + type(e).__name__, None)
        if m is None:
            return UNKNOWN
        return m(e, env)

    def e_Constant(self, e, env):
        if e.value is None:
            return NONE
        if isinstance(e.value, bool):
            return V("bool", const=e.value)
        if isinstance(e.value, int):
            return V("int", const=e.value)
        return SCALAR

    def e_Name(self, e, env):
        if e.id in env:
            return env[e.id]
        return SCALAR if e.id in ("np", "math", "True", "False") else UNKNOWN

    def e_Attribute(self, e, env):
        s = ast.unparse(e)
        if s == "self.arms":
            return V("list", K, V("scalar", src="label"))
        if isinstance(e.value, ast.Name) and e.value.id == "self":
            if e.attr.startswith("arm_to_"):
                return V("dict", K, SCALAR, src="state")
            return SCALAR
        base = self.ev(e.value, env)
        if e.attr == "shape" and base.kind == "arr" and base.shape is not None:
            return V("tuple", elem=[self.mk_int(d) if d is not None else V("int") for d in base.shape])
        if e.attr == "size" and base.kind == "arr" and base.shape is not None and len(base.shape) == 1:
            return self.mk_int(base.shape[0]) if base.shape[0] is not None else V("int")
        if e.attr == "T" and base.kind == "arr" and base.shape is not None:
            return V("arr", shape=tuple(reversed(base.shape)))
        if e.attr in ("start", "stop"):
            return V("int")
        return SCALAR if base.kind in ("scalar", "unknown") else UNKNOWN

    def e_Tuple(self, e, env):
        return V("tuple", elem=[self.ev(x, env) for x in e.elts])

    def e_List(self, e, env):
        el = None
        for x in e.elts:
            el = join(el, self.ev(x, env))
        return V("list", len(e.elts), el)

    def e_Dict(self, e, env):
        return V("dict", len(e.keys), None)

    def e_UnaryOp(self, e, env):
        v = self.ev(e.operand, env)
        if isinstance(e.op, ast.Not):
            t = self.truth(v)
            return V("bool", const=(not t) if t is not None else None)
        if isinstance(e.op, ast.USub) and v.kind == "int" and v.const is not None:
            return V("int", const=-v.const)
        return v if v.kind == "arr" else (V("int") if v.kind == "int" else SCALAR)

    def e_BoolOp(self, e, env):
        vals = [self.ev(x, env) for x in e.values]
        ts = [self.truth(v) for v in vals]
        if isinstance(e.op, ast.Or):
            if any(t is True for t in ts):
                return V("bool", const=True)
            if all(t is False for t in ts):
                return V("bool", const=False)
        else:
            if any(t is False for t in ts):
                return V("bool", const=False)
            if all(t is True for t in ts):
                return V("bool", const=True)
        return V("bool")

    def cmp_dims(self, op, a, b):
        """a, b: python int or symbol; M > 1 in the 'many' scenario"""
        if isinstance(a, int) and isinstance(b, int):
            return {ast.Eq: a == b, ast.NotEq: a != b, ast.Lt: a < b, ast.LtE: a <= b, ast.Gt: a > b,
                    ast.GtE: a >= b}.get(type(op))
        if a == M and isinstance(b, int) and b <= 1:
            return {ast.Eq: False, ast.NotEq: True, ast.Lt: False, ast.LtE: False, ast.Gt: True,
                    ast.GtE: True}.get(type(op))
        if b == M and isinstance(a, int) and a <= 1:
            return {ast.Eq: False, ast.NotEq: True, ast.Lt: True, ast.LtE: True, ast.Gt: False,
                    ast.GtE: False}.get(type(op))
        if a == b and a is not None:
            return {ast.Eq: True, ast.NotEq: False, ast.Lt: False, ast.LtE: True, ast.Gt: False,
                    ast.GtE: True}.get(type(op))
        return None

    def e_Compare(self, e, env):
        if len(e.ops) != 1:
            return V("bool")
        l, r = self.ev(e.left, env), self.ev(e.comparators[0], env)
        op = e.ops[0]
        if isinstance(op, (ast.Is, ast.IsNot)):
            if r.kind == "none" and l.kind != "unknown":
                res = l.kind == "none"
                return V("bool", const=res if isinstance(op, ast.Is) else not res)
            return V("bool")
        if l.kind == "arr" or r.kind == "arr":
            return l if l.kind == "arr" else r
        a, b = self.int_of(l), self.int_of(r)
        if a is not None and b is not None:
            res = self.cmp_dims(op, a, b)
            if res is not None:
                return V("bool", const=res)
        return V("bool")

    def binop(self, l, r):
        if l.kind == "arr":
            return l
        if r.kind == "arr":
            return r
        if l.kind == "int" and r.kind == "int":
            return V("int")
        return SCALAR

    def e_BinOp(self, e, env):
        l, r = self.ev(e.left, env), self.ev(e.right, env)
        if l.kind == "int" and r.kind == "int" and l.const is not None and r.const is not None:
            try:
                return V("int", const={ast.Add: lambda a, b: a + b, ast.Sub: lambda a, b: a - b,
                                       ast.Mult: lambda a, b: a * b}[type(e.op)](l.const, r.const))
            except KeyError:
                return V("int")
        if isinstance(e.op, ast.Mult) and l.kind == "list" and r.kind == "int":
            d = self.int_of(r)
            return V("list", d if l.n == 1 else None, l.elem)
        if isinstance(e.op, ast.Mult) and r.kind == "list" and l.kind == "int":
            d = self.int_of(l)
            return V("list", d if r.n == 1 else None, r.elem)
        if isinstance(e.op, ast.Add) and l.kind == "list" and r.kind == "list":
            n = l.n + r.n if isinstance(l.n, int) and isinstance(r.n, int) else None
            return V("list", n, join(l.elem, r.elem))
        return self.binop(l, r)

    def e_IfExp(self, e, env):
        t = self.truth(self.ev(e.test, env))
        if t is True:
            return self.ev(e.body, env)
        if t is False:
            return self.ev(e.orelse, env)
        return join(self.ev(e.body, env), self.ev(e.orelse, env))

    def comp(self, e, env, make):
        if len(e.generators) == 2 and not e.generators[0].ifs and not e.generators[1].ifs and \
                isinstance(e.generators[0].target, ast.Name) and isinstance(e.generators[1].iter, ast.Name) and \
                e.generators[1].iter.id == e.generators[0].target.id:
            # [x for chunk in chunks for x in chunk]: the chunks laid end to end
            outer = self.ev(e.generators[0].iter, env)
            el = outer.elem if outer.kind in ("list", "gen") else None
            if el is not None and el.kind == "list" and isinstance(el.src, tuple) and el.src[0] == "chunk":
                env2 = dict(env)
                self.bind(e.generators[1].target, el.elem if el.elem is not None else UNKNOWN, env2)
                return make(el.src[1], env2, e.generators[1])
            return UNKNOWN
        if len(e.generators) != 1:
            return UNKNOWN
        g = e.generators[0]
        it = self.iterable(self.ev(g.iter, env))
        env2 = dict(env)
        self.bind(g.target, it.elem if it.elem is not None else UNKNOWN, env2)
        n = it.n if not g.ifs else None
        return make(n, env2, g)

    def e_ListComp(self, e, env):
        return self.comp(e, env, lambda n, env2, g: V("list", n, self.ev(e.elt, env2)))

    def e_GeneratorExp(self, e, env):
        return self.comp(e, env, lambda n, env2, g: V("gen", n, self.ev(e.elt, env2)))

    def e_DictComp(self, e, env):
        def mk(n, env2, g):
            k = self.ev(e.key, env2)
            src = "arms" if n == K and k.kind == "scalar" and k.src == "label" else None
            return V("dict", n, self.ev(e.value, env2), src=src)
        return self.comp(e, env, mk)

    def e_Subscript(self, e, env):
        base = self.ev(e.value, env)
        if isinstance(e.slice, ast.Slice):
            if base.kind == "list":
                return V("list", None, base.elem)
            if base.kind == "arr" and base.shape:
                # a chunk of the rows: as many rows as the chunk has (unknown here)
                return V("arr", shape=(None,) + tuple(base.shape[1:]))
            return UNKNOWN
        idx = self.ev(e.slice, env)
        if base.kind in ("list", "gen"):
            if idx.kind in ("int", "scalar", "unknown", "bool"):
                return base.elem if base.elem is not None else UNKNOWN
            return UNKNOWN
        if base.kind == "tuple" and base.elem is not None and idx.kind == "int" and idx.const is not None and \
                -len(base.elem) <= idx.const < len(base.elem):
            return base.elem[idx.const]
        if base.kind == "dict":
            return base.elem if base.elem is not None else SCALAR
        if base.kind == "arr" and base.shape is not None:
            if idx.kind == "arr" and idx.shape is not None:
                return V("arr", shape=tuple(idx.shape) + tuple(base.shape[1:]))
            if idx.kind == "tuple" and idx.elem is not None:
                shape = []
                rest = list(base.shape)
                for x in idx.elem:
                    if x.kind == "none":            # np.newaxis evaluates to None
                        shape.append(1)
                    elif x.kind == "int" and rest:
                        rest.pop(0)
                    elif rest:
                        shape.append(rest.pop(0))
                return V("arr", shape=tuple(shape + rest))
            if idx.kind in ("int", "scalar"):
                return V("arr", shape=tuple(base.shape[1:])) if len(base.shape) > 1 else SCALAR
        return UNKNOWN

    def e_Slice(self, e, env):
        return V("slice")

    def e_Lambda(self, e, env):
        return SCALAR

    def e_JoinedStr(self, e, env):
        return SCALAR

    # ------------------------------------------------------------------------------------------------ calls
    def size_arg(self, v):
        """shape denoted by a size argument: int -> (n,), tuple -> dims"""
        if v.kind == "int":
            return (self.int_of(v),)
        if v.kind == "tuple" and v.elem is not None:
            return tuple(self.int_of(x) if x.kind == "int" else None for x in v.elem)
        return None

    def e_Call(self, e, env):
        f = e.func
        fs = " ".join(ast.unparse(f).split())
        args = [self.ev(a, env) for a in e.args if not isinstance(a, ast.Starred)]
        kw = {k.arg: self.ev(k.value, env) for k in e.keywords if k.arg}
        # Parallel(...)(tasks): one entry per task
        if isinstance(f, ast.Call) and ast.unparse(f.func) == "Parallel" and len(e.args) == 1:
            g = e.args[0]
            task = g.elt if isinstance(g, (ast.GeneratorExp, ast.ListComp)) else None
            chunked = None
            if isinstance(task, ast.Call) and task.args:
                # the tasks are given consecutive chunks of the rows (R5.2 / R8.7 decide that they cover them all)
                a0 = task.args[0]
                root = a0
                while isinstance(root, ast.Subscript):
                    root = root.value
                if isinstance(root, ast.Name):
                    rv = env.get(root.id)
                    if rv is not None and rv.kind == "arr" and isinstance(a0, ast.Subscript):
                        chunked = rv.shape[0]
                    elif rv is not None and rv.kind == "arr" and rv.shape and rv.shape[0] is None:
                        chunked = env.get("contexts", UNKNOWN).shape[0] if env.get(
                            "contexts", UNKNOWN).kind == "arr" else None
            return V("list", None, V("list", None, V("row"), src=("chunk", chunked)), src=("chunks", chunked))
        if fs == "len" and len(args) == 1:
            a = args[0]
            if a.kind in ("list", "gen", "dict"):
                return self.mk_int(a.n) if a.n is not None else V("int")
            if a.kind == "arr" and a.shape:
                return self.mk_int(a.shape[0]) if a.shape[0] is not None else V("int")
            if a.kind == "tuple" and a.elem is not None:
                return V("int", const=len(a.elem))
            return V("int")
        if fs == "range":
            if len(args) == 1:
                return V("gen", self.int_of(args[0]), V("int"))
            return V("gen", None, V("int"))
        if fs == "zip":
            its = [self.iterable(a) for a in args]
            n = its[0].n if its and all(same_dim(i.n, its[0].n) for i in its) else None
            if n is None and its and any(i.n is not None for i in its):
                self.notes.append("zip of iterables of different / unknown lengths: %s" % ast.unparse(e))
            return V("gen", n, V("tuple", elem=[i.elem if i.elem is not None else UNKNOWN for i in its]))
        if fs == "enumerate" and args:
            it = self.iterable(args[0])
            return V("gen", it.n, V("tuple", elem=[V("int"), it.elem if it.elem is not None else UNKNOWN]))
        if fs in ("list", "tuple", "sorted", "reversed") and len(args) <= 1:
            if not args:
                return V("list", 0, None)
            if args[0].kind == "list" and args[0].src and isinstance(args[0].src, tuple) and \
                    args[0].src[0] == "flat":
                return args[0]
            it = self.iterable(args[0])
            el = it.elem
            if fs in ("sorted", "reversed") and el is not None:
                # the elements no longer stand at the position of their row
                el = V(el.kind, el.n, el.elem, el.shape, el.const, src=("reordered", el.src))
            return V("list", it.n, el)
        if fs in ("chain.from_iterable", "itertools.chain.from_iterable") and len(args) == 1:
            a = args[0]
            el = a.elem if a.kind in ("gen", "list") else None
            if el is not None and el.kind == "list" and isinstance(el.src, tuple) and el.src[0] == "chunk":
                # the chunks of one partition of the rows, in order: as many results as rows
                return V("gen", el.src[1], el.elem if el.elem is not None else UNKNOWN)
            return V("gen", None, el.elem if el is not None and el.kind in ("list", "gen") and el.elem is not None
                     else UNKNOWN)
        if fs == "dict":
            if not args:
                return V("dict", 0, None)
            a = args[0]
            if a.kind == "dict":
                return V("dict", a.n, a.elem, src=a.src)
            it = self.iterable(a)
            if it.elem is not None and it.elem.kind == "tuple" and it.elem.elem:
                k0 = it.elem.elem[0]
                src = "arms" if it.n == K and k0.kind == "scalar" and k0.src == "label" else None
                return V("dict", it.n, it.elem.elem[1] if len(it.elem.elem) > 1 else None, src=src)
            return V("dict", it.n, None)
        if fs == "isinstance" and len(args) == 2:
            x = args[0]
            ts = ast.unparse(e.args[1])
            kinds = {"dict": ("dict",), "list": ("list",), "np.ndarray": ("arr",), "tuple": ("tuple",),
                     "(list, np.ndarray)": ("list", "arr"), "(dict,)": ("dict",)}.get(ts)
            if kinds and x.kind in ("dict", "list", "arr", "tuple", "scalar", "none", "int"):
                return V("bool", const=x.kind in kinds)
            return V("bool")
        if fs == "map" and len(e.args) == 2:
            it = self.iterable(args[1])
            fn_ = ast.unparse(e.args[0])
            if fn_ in ("argmax", "argmin"):
                el = it.elem if it.elem is not None else UNKNOWN
                return V("gen", it.n, V("scalar", src=("argmax", el.src, el.kind)))
            return V("gen", it.n, UNKNOWN)
        if fs in ("argmax", "argmin"):
            a = args[0] if args else UNKNOWN
            return V("scalar", src=("argmax", a.src, a.kind))
        if fs == "max" and args and args[0].kind == "dict" and "key" in kw:
            return V("scalar", src=("argmax", args[0].src, "dict"))
        if fs in ("int", "float", "bool", "str", "abs", "round", "sum", "min", "max", "math.exp", "math.log",
                  "math.sqrt", "math.ceil", "math.floor"):
            return SCALAR
        # random draws
        if isinstance(f, ast.Attribute) and ast.unparse(f.value).endswith("rng"):
            size = kw.get("size")
            if f.attr in ("rand", "random", "standard_normal"):
                size = size if size is not None else (args[0] if args else None)
            elif f.attr in ("beta", "normal", "uniform", "randint"):
                size = size if size is not None else (args[2] if len(args) > 2 else None)
            elif f.attr == "dirichlet":
                size = size if size is not None else (args[1] if len(args) > 1 else None)
                al = self.iterable(args[0]) if args else V("gen", None)
                if size is None:
                    return V("arr", shape=(al.n,))
                sh = self.size_arg(size)
                return V("arr", shape=tuple(sh) + (al.n,)) if sh is not None else V("arr", shape=None)
            elif f.attr == "multivariate_normal":
                return V("arr", shape=(None,))
            elif f.attr == "choice":
                return SCALAR
            if size is None:
                return SCALAR
            if size.kind == "none":
                return SCALAR
            sh = self.size_arg(size)
            return V("arr", shape=tuple(sh)) if sh is not None else V("arr", shape=None)
        # numpy
        if fs in ("np.array", "np.asarray", "np.atleast_1d") and args:
            a = args[0]
            if a.kind == "arr":
                return a
            if a.kind == "list":
                inner = a.elem.shape if a.elem is not None and a.elem.kind == "arr" and a.elem.shape is not None \
                    else ()
                return V("arr", shape=(a.n,) + tuple(inner))
            return V("arr", shape=None)
        if fs in ("np.empty", "np.zeros", "np.ones", "np.full") and args:
            sh = self.size_arg(args[0])
            return V("arr", shape=tuple(sh)) if sh is not None else V("arr", shape=None)
        if fs in ("np.argmax", "np.argmin", "np.max", "np.min", "np.sum", "np.mean", "np.nanargmax") and args:
            a = args[0]
            ax = kw.get("axis", args[1] if len(args) > 1 else None)
            if a.kind == "arr" and a.shape is not None and ax is not None and ax.kind == "int" and \
                    ax.const is not None and -len(a.shape) <= ax.const < len(a.shape):
                sh = list(a.shape)
                sh.pop(ax.const)
                return V("arr", shape=tuple(sh))
            return SCALAR
        if fs in ("np.where", "np.nonzero", "np.flatnonzero") and len(args) == 1:
            inner = V("arr", shape=(None,))
            return inner if fs == "np.flatnonzero" else V("tuple", elem=[inner])
        if fs in ("np.finfo", "np.iinfo", "np.dot", "np.sqrt", "np.exp", "np.log", "np.isnan", "np.unique"):
            return args[0] if fs in ("np.sqrt", "np.exp", "np.log", "np.isnan") and args and args[0].kind == "arr" \
                else SCALAR
        if fs == "deepcopy" and args:
            return args[0]
        # methods
        if isinstance(f, ast.Attribute):
            recv_s = ast.unparse(f.value)
            if recv_s == "self" or recv_s == "super()" or (self.cls is not None and recv_s == self.cls.name):
                if f.attr == "_parallel_predict" and self.scenario != "none" or f.attr in (
                        "predict_expectations", "predict", "_vectorized_predict_context") or \
                        (self.cls is not None and self.cls.resolve(f.attr) is not None and f.attr.startswith("_")
                         and f.attr not in ("_predict_contexts",)):
                    r = self.run_method(f.attr, args, kw)
                    if f.attr == "predict_expectations" and r.kind in ("dict", "list"):
                        r = V(r.kind, r.n, r.elem if r.kind == "dict" else V(
                            "dict", r.elem.n if r.elem is not None else None,
                            r.elem.elem if r.elem is not None else None, src="PE[i]") if r.elem is not None and
                            r.elem.kind == "dict" else r.elem, src="PE")
                    return r
                return UNKNOWN
            recv = self.ev(f.value, env)
            if f.attr == "copy":
                return recv
            if f.attr == "tolist" and recv.kind == "arr" and recv.shape is not None:
                el = SCALAR if len(recv.shape) == 1 else V("list", recv.shape[1], SCALAR)
                return V("list", recv.shape[0], el)
            if f.attr in ("keys", "values", "items") and recv.kind == "dict":
                el = {"keys": V("scalar", src="label"), "values": recv.elem or SCALAR,
                      "items": V("tuple", elem=[V("scalar", src="label"), recv.elem or SCALAR])}[f.attr]
                return V("gen", recv.n, el)
            if f.attr in ("reshape", "ravel", "flatten", "astype", "squeeze") and recv.kind == "arr":
                return recv if f.attr == "astype" else V("arr", shape=None)
            if f.attr in ("sum", "mean", "max", "min", "item", "get", "index", "count", "predict", "dot") and \
                    recv.kind in ("arr", "dict", "list", "scalar", "unknown"):
                return SCALAR if recv.kind != "unknown" or f.attr in ("get", "predict") else UNKNOWN
            if f.attr in ("argmax", "argmin", "sum", "mean", "max", "min") and recv.kind == "arr" and \
                    recv.shape is not None:
                ax = kw.get("axis", args[0] if args else None)
                if ax is not None and ax.kind == "int" and ax.const is not None and \
                        -len(recv.shape) <= ax.const < len(recv.shape):
                    sh = list(recv.shape)
                    sh.pop(ax.const)
                    return V("arr", shape=tuple(sh))
                return SCALAR
            if f.attr == "nonzero" and recv.kind == "arr":
                return V("tuple", elem=[V("arr", shape=(None,))])
            return UNKNOWN
        return UNKNOWN


def returned(prog, cls_name, meth, scenario, arg_names=("contexts",), extra=None):
    """(value, notes): what <cls>.<meth>(contexts[, ...]) can return in the scenario"""
    ci = CardInterp(prog, cls_name, scenario)
    fn = prog.cls(cls_name).resolve(meth)
    if fn is None:
        return UNKNOWN, ["%s.%s not found" % (cls_name, meth)]
    env = {}
    for p in fn.params[0 if fn.is_static else 1:]:
        env[p] = UNKNOWN
    if "contexts" in env:
        env["contexts"] = ci.contexts_value()
    for k, v in (extra or {}).items():
        if k in env:
            env[k] = v
    d = fn.node.args.defaults
    params = fn.params[0 if fn.is_static else 1:]
    for p, dv in zip(params[len(params) - len(d):], d):
        if env.get(p) is UNKNOWN and p != "contexts":
            env[p] = ci.ev(dv, {})
    return ci.run(fn.node.body, env), ci.notes
