# -*- coding: utf-8 -*-
"""C12 - Clusters and TreeBandit condition on exactly the query's cell."""

import ast

from ..facts import calls_of, walk
from ..model import norm_stmt
from .common import facts, parent
from .c15 import _inline

EXPLANATION = (
    "Writer/reader agreement of the cell key. (R12.1 Clusters) in _fit_operation the per-cluster selector is "
    "labels_ == c of the estimator fitted on the stored contexts in the same call, decisions / rewards / contexts "
    "are indexed by that one selector and the policy trained is lp_list[c] for the same c; a query row is routed by "
    "kmeans.predict(contexts)[index] of the same estimator to lp_list[<that label>]; on the abstract traces the "
    "estimator is refitted only by _fit_operation. (R12.2 TreeBandit) the writer selects contexts and rewards with "
    "the one mask decisions == arm, obtains leaf ids from arm_to_tree[arm].apply(arm_contexts) and files rewards "
    "under [arm][leaf] with the mask leaf_indices == leaf; a tree is fitted only while its store is empty; the "
    "reader looks up arm_to_tree[arm].apply([row])[0] and reads [arm][leaf] for the same arm, fits the leaf policy "
    "on exactly that array with decisions all equal to the arm, and leaves arms with an empty store at the neutral "
    "0. Decides that training cell and query cell are computed by the same object with the same key; agreement "
    "with sklearn's assignment as numbers is not decided.")
ASSUMPTIONS = ["KMeans.labels_ are the assignments of the rows passed to fit, predict assigns by the same centres",
               "DecisionTreeRegressor.apply is a function of the fitted tree and the row", "CPython ast"]


def check_clusters(ctx, F):
    prog = ctx.prog
    fo = prog.method("_Clusters", "_fit_operation")
    pc = prog.method("_Clusters", "_predict_contexts")
    ctx.saw_fn(fo)
    ctx.saw_fn(pc)
    body = [s for s in fo.node.body if not (isinstance(s, ast.Expr) and isinstance(s.value, ast.Constant))]
    src = " ".join(ast.unparse(fo.node).split())
    fit_i = next((i for i, s in enumerate(body) if ast.unparse(s) == "self.kmeans.fit(self.contexts)"), None)
    loop = next((s for s in body if isinstance(s, ast.For)), None)
    ok = fit_i is not None and loop is not None and body.index(loop) > fit_i
    ctx.check(ok, "R12.1", "the clustering is fitted on the stored contexts before the cluster policies are trained",
              fo.node, fo, construct="kmeans fit in _fit_operation")
    if loop is not None:
        c = ast.unparse(loop.target)
        it = ast.unparse(loop.iter)
        fits = [x for x in ast.walk(loop) if isinstance(x, ast.Call) and isinstance(x.func, ast.Attribute)
                and x.func.attr == "fit" and ast.unparse(x.func.value).startswith("self.lp_list[")]
        ok2 = False
        detail = ""
        if len(fits) == 1:
            which = ast.unparse(fits[0].func.value)
            args = [" ".join(ast.unparse(_inline(loop, a)).split()) for a in fits[0].args]
            # label source
            want_sel = "np.where(self.kmeans.labels_ == %s)" % c
            sel_src = None
            for n in ast.walk(fo.node):
                if isinstance(n, ast.Assign) and ast.unparse(n.targets[0]) == "cluster_predictions":
                    sel_src = ast.unparse(n.value)
            args = [a.replace("cluster_predictions", sel_src or "cluster_predictions") for a in args]
            ok2 = which == "self.lp_list[%s]" % c and it == "range(self.n_clusters)" and args == [
                "self.decisions[%s]" % want_sel, "self.rewards[%s]" % want_sel, "self.contexts[%s]" % want_sel]
            detail = "trains %s on %s" % (which, args)
        ctx.check(ok2, "R12.1", "policy c is trained on decisions, rewards and contexts of the rows labelled c", loop,
                  fo, detail, construct="per-cluster training loop")
    # reader
    psrc = " ".join(ast.unparse(pc.node).split())
    rl = next((s for s in pc.node.body if isinstance(s, ast.For)), None)
    okr = "cluster_predictions = self.kmeans.predict(contexts)" in psrc and rl is not None
    if okr:
        idx = ast.unparse(rl.target.elts[0]) if isinstance(rl.target, ast.Tuple) else "?"
        calls = [x for x in ast.walk(rl) if isinstance(x, ast.Call) and isinstance(x.func, ast.Attribute)
                 and x.func.attr in ("predict", "predict_expectations")]
        okr = bool(calls)
        for x in calls:
            recv = " ".join(ast.unparse(_inline(rl, x.func.value)).split())
            okr = okr and recv == "lp_list[cluster_predictions[%s]]" % idx
        seeds = [x for x in ast.walk(rl) if isinstance(x, ast.Assign) and isinstance(x.targets[0], ast.Attribute)
                 and x.targets[0].attr == "rng"]
        for x in seeds:
            recv = " ".join(ast.unparse(_inline(rl, x.targets[0].value)).split())
            okr = okr and recv == "lp_list[cluster_predictions[%s]]" % idx
    ctx.check(bool(okr), "R12.1", "a query row is answered by the policy of the cluster kmeans.predict assigns it to",
              rl if rl is not None else pc.node, pc, construct="routing in _Clusters._predict_contexts")
    ctx.check("lp_list = deepcopy(self.lp_list)" in psrc, "R12.1", "the routed policies are copies of lp_list in the "
              "same order", pc.node, pc, construct="lp_list copy")
    # refit only in _fit_operation
    n = 0
    for cfg in F.configs(np_=["Clusters"], lp=["EpsilonGreedy", "LinUCB", "ThompsonSampling"]):
        for lab in F.entry_labels(cfg):
            root = F.trace(cfg, lab)
            w = F.focus(cfg, root)
            for ev, anc in walk(root):
                if ev.kind == "store" and ev.a["skind"].startswith("mutcall:") and any(
                        (t.ocls or "").startswith("ext:sklearn.") and "KMeans" in (t.ocls or "") for t in
                        ev.a["targets"]):
                    n += 1
                    ctx.check(ev.fn.qualname == "_Clusters._fit_operation", "R12.1",
                              "the clustering is (re)fitted only by _fit_operation", ev.node, ev.fn,
                              "%s fits kmeans during %s [%s]" % (ev.fn.qualname, lab, cfg.name))
    ctx.floor("R12.1", "kmeans fit events on traces", n, 6)


def check_tree(ctx):
    prog = ctx.prog
    fa = prog.method("_TreeBandit", "_fit_arm")
    pc = prog.method("_TreeBandit", "_predict_contexts")
    ctx.saw_fn(fa)
    ctx.saw_fn(pc)
    arm = fa.params[1]
    defs = {ast.unparse(s.targets[0]): s for s in ast.walk(fa.node) if isinstance(s, ast.Assign)
            and len(s.targets) == 1 and isinstance(s.targets[0], ast.Name)}
    ok_sel = ast.unparse(defs["arm_contexts"].value) == "contexts[decisions == %s]" % arm and \
        ast.unparse(defs["arm_rewards"].value) == "rewards[decisions == %s]" % arm \
        if "arm_contexts" in defs and "arm_rewards" in defs else False
    ctx.check(ok_sel, "R12.2", "the arm's contexts and rewards are selected by the one mask decisions == arm", fa.node,
              fa, construct="row selection in _TreeBandit._fit_arm")
    ok_leaf = "leaf_indices" in defs and ast.unparse(defs["leaf_indices"].value) == \
        "self.arm_to_tree[%s].apply(arm_contexts)" % arm
    ctx.check(ok_leaf, "R12.2", "leaf ids come from the arm's own tree applied to the arm's contexts",
              defs.get("leaf_indices", fa.node), fa, construct="leaf ids in _fit_arm")
    loops = [s for s in ast.walk(fa.node) if isinstance(s, ast.For)]
    ok_file = False
    detail = ""
    if loops:
        lp = loops[-1]
        lv = ast.unparse(lp.target)
        it = " ".join(ast.unparse(_inline(fa.node, lp.iter)).split())
        st = [s for s in ast.walk(lp) if isinstance(s, ast.Assign) and isinstance(s.targets[0], ast.Subscript)]
        if st:
            tgt = ast.unparse(st[-1].targets[0])
            val = " ".join(ast.unparse(_inline(lp, st[-1].value)).split())
            ok_file = tgt == "self.arm_to_leaf_to_rewards[%s][%s]" % (arm, lv) and \
                val == "np.append(self.arm_to_leaf_to_rewards[%s][%s], arm_rewards[leaf_indices == %s])" % (
                    arm, lv, lv) and it.startswith("set(") and ("self.arm_to_tree[%s].apply(" % arm) in it
            detail = "%s = %s over %s" % (tgt, val, it)
    ctx.check(ok_file, "R12.2", "rewards are filed under [arm][leaf] with the mask leaf_indices == leaf", fa.node, fa,
              detail, construct="leaf store in _fit_arm")
    tfit = [x for x in ast.walk(fa.node) if isinstance(x, ast.Call) and ast.unparse(x.func) ==
            "self.arm_to_tree[%s].fit" % arm]
    ok_tfit = False
    if len(tfit) == 1:
        g = parent(parent(tfit[0]))
        ok_tfit = isinstance(g, ast.If) and ast.unparse(g.test) in (
            "len(self.arm_to_leaf_to_rewards[%s]) == 0" % arm, "not self.arm_to_leaf_to_rewards[%s]" % arm) and \
            [ast.unparse(a) for a in tfit[0].args] == ["arm_contexts", "arm_rewards"]
    ctx.check(ok_tfit, "R12.2", "an arm's tree is fitted on the arm's rows, and only while its leaf store is empty",
              tfit[0] if tfit else fa.node, fa, construct="tree fit in _fit_arm")
    # reader
    rl = next((s for s in pc.node.body if isinstance(s, ast.For)), None)
    okr = False
    detail = ""
    if rl is not None:
        inner = next((s for s in rl.body if isinstance(s, ast.For)), None)
        if inner is not None:
            a = ast.unparse(inner.target)
            row = ast.unparse(rl.target.elts[1]) if isinstance(rl.target, ast.Tuple) else "row"
            src = " ".join(ast.unparse(inner).split())
            fits = [x for x in ast.walk(inner) if isinstance(x, ast.Call) and ast.unparse(x.func) == "leaf_lp.fit"]
            exp = [s for s in ast.walk(inner) if isinstance(s, ast.Assign) and
                   ast.unparse(s.targets[0]) == "arm_to_expectation[%s]" % a]
            okr = ("if arm_to_rewards[%s]:" % a) in src and len(fits) == 1 and len(exp) == 1
            if okr:
                args = [" ".join(ast.unparse(_inline(inner, x)).split()) for x in fits[0].args]
                leaf = "arm_to_rewards[%s][arm_to_tree[%s].apply([%s])[0]]" % (a, a, row)
                okr = args == ["np.asarray([%s] * len(%s))" % (a, leaf), leaf] and \
                    ast.unparse(exp[0].value) == "leaf_lp.predict_expectations()[%s]" % a and \
                    ("leaf_lp = self._create_leaf_lp(%s)" % a) in src
                detail = "leaf policy fitted with %s" % args
    ctx.check(okr, "R12.2", "the query reads [arm][leaf] of the arm's own tree applied to the row and trains the leaf "
              "policy on exactly that array", rl if rl is not None else pc.node, pc, detail,
              construct="leaf lookup in _TreeBandit._predict_contexts")
    psrc = " ".join(ast.unparse(pc.node).split())
    okc = "arm_to_tree = deepcopy(self.arm_to_tree)" in psrc and \
        "arm_to_rewards = deepcopy(self.arm_to_leaf_to_rewards)" in psrc and \
        "arm_to_expectation = deepcopy(self.arm_to_expectation)" in psrc
    ctx.check(okc, "R12.2", "reader works on copies of the trees, the leaf stores and the neutral expectations",
              pc.node, pc, construct="copies in _TreeBandit._predict_contexts")


def check(ctx):
    F = facts(ctx)
    ctx.rule("R12.1", "Clusters: training cell and query cell come from the same estimator with the same label")
    ctx.rule("R12.2", "TreeBandit: writer and reader use the same (arm, leaf) key of the arm's own tree")
    check_clusters(ctx, F)
    check_tree(ctx)
    # neutral expectation 0 for arms without observations (never written by training)
    n = 0
    for c in F.configs(np_=["TreeBandit"]):
        for lab in ("fit", "partial_fit"):
            root = F.trace(c, lab)
            for ev, anc in walk(root):
                if ev.kind == "store" and any(t.ocls == "_TreeBandit" and t.field == "arm_to_expectation"
                                              and t.region == "bandit" for t in ev.a["targets"]):
                    ctx.violate("R12.2", "training writes _TreeBandit.arm_to_expectation", ev.node, ev.fn,
                                "the neutral expectations that unobserved arms keep are modified [%s]" % c.name)
            n += 1
    ctx.floor("R12.2", "TreeBandit training traces", n, 8)
