# -*- coding: utf-8 -*-
"""C12 - Clusters and TreeBandit condition on exactly the query's cell."""

import ast

from ..facts import calls_of, walk
from ..model import norm_stmt
from .common import facts, parent
from .c15 import _inline

EXPLANATION = (
    "Writer/reader agreement of the cell key. (R12.1 Clusters) in _fit_operation the per-cluster selector is "
    "labels_ == c of the estimator fitted on the stored contexts in the same call, decisions / rewards / contexts "
    "are indexed by that one selector and the policy trained is lp_list[c] for the same c; a query row is routed by "
    "kmeans.predict(contexts)[index] of the same estimator to lp_list[<that label>]; on the abstract traces the "
    "estimator is refitted only by _fit_operation. (R12.2 TreeBandit) the writer selects contexts and rewards with "
    "the one mask decisions == arm, obtains leaf ids from arm_to_tree[arm].apply(arm_contexts) and files rewards "
    "under [arm][leaf] with the mask leaf_indices == leaf; a tree is fitted only while its store is empty; the "
    "reader looks up arm_to_tree[arm].apply([row])[0] and reads [arm][leaf] for the same arm, fits the leaf policy "
    "on exactly that array with decisions all equal to the arm, and leaves arms with an empty store at the neutral "
    "0. Decides that training cell and query cell are computed by the same object with the same key; agreement "
    "with sklearn's assignment as numbers is not decided.")
ASSUMPTIONS = ["KMeans.labels_ are the assignments of the rows passed to fit, predict assigns by the same centres",
               "DecisionTreeRegressor.apply is a function of the fitted tree and the row", "CPython ast"]


def T(scope, e):
    """text of e with every single-assignment local of the function replaced by its definition"""
    return " ".join(ast.unparse(_inline(scope, e)).split())


def _row_loop_of(fn):
    for s in fn.node.body:
        if isinstance(s, ast.For) and isinstance(s.target, ast.Tuple) and len(s.target.elts) == 2 and \
                all(isinstance(e, ast.Name) for e in s.target.elts) and \
                ast.unparse(s.iter) == "enumerate(%s)" % fn.params[1]:
            return s, s.target.elts[0].id, s.target.elts[1].id
    return None, None, None


def check_clusters(ctx, F):
    prog = ctx.prog
    fo = prog.method("_Clusters", "_fit_operation")
    pc = prog.method("_Clusters", "_predict_contexts")
    ctx.saw_fn(fo)
    ctx.saw_fn(pc)
    body = [s for s in fo.node.body if not (isinstance(s, ast.Expr) and isinstance(s.value, ast.Constant))]
    fit_s = next((s for s in body if ast.unparse(s) == "self.kmeans.fit(self.contexts)"), None)
    loop = next((s for s in body if isinstance(s, ast.For)), None)
    label_reads = [n for n in ast.walk(fo.node) if isinstance(n, ast.Attribute) and n.attr == "labels_"]
    ok = fit_s is not None and loop is not None and loop.lineno > fit_s.lineno and bool(label_reads) and \
        all(n.lineno > fit_s.lineno and ast.unparse(n) == "self.kmeans.labels_" for n in label_reads)
    chained = False
    if fit_s is None and loop is not None and len(label_reads) == 1 and \
            ast.unparse(label_reads[0]) == "self.kmeans.fit(self.contexts).labels_":
        # labels = self.kmeans.fit(self.contexts).labels_ : fit returns the estimator itself
        st_ = parent(label_reads[0])
        ok = isinstance(st_, ast.Assign) and st_ in body and body.index(st_) < body.index(loop) and \
            isinstance(st_.targets[0], ast.Name)
        chained = ok
    ctx.check(ok, "R12.1", "the clustering is fitted on the stored contexts before its labels are read and the "
              "cluster policies are trained", fo.node, fo,
              "expected the unconditional statement self.kmeans.fit(self.contexts) before every read of "
              "self.kmeans.labels_ and before the per-cluster loop: labels_ must describe exactly the stored rows",
              construct="kmeans fit in _fit_operation")
    if loop is not None:
        # two spellings of "for every cluster c with its policy": for c in range(self.n_clusters): self.lp_list[c]
        # / for c, lp in enumerate(self.lp_list): lp.   The row selector is read as an index (a boolean mask and the
        # positions np.where gives for it select the same rows).
        from .semantic import Env, as_index, sem_text
        env = Env(fo.node.body)
        it = " ".join(ast.unparse(loop.iter).split())
        c = pol = None
        if it == "range(self.n_clusters)" and isinstance(loop.target, ast.Name):
            c = loop.target.id
            pol = "self.lp_list[%s]" % c
        elif it == "enumerate(self.lp_list)" and isinstance(loop.target, ast.Tuple) and len(loop.target.elts) == 2 \
                and all(isinstance(e, ast.Name) for e in loop.target.elts):
            c, pol = loop.target.elts[0].id, loop.target.elts[1].id

        def stmt_of(n):
            while n is not None and id(n) not in env.env_at:
                n = parent(n)
            return n

        def X(n):
            return env.at(stmt_of(n), n)
        fits = [x for x in ast.walk(loop) if isinstance(x, ast.Call) and isinstance(x.func, ast.Attribute)
                and x.func.attr == "fit" and c is not None and sem_text(X(x.func.value)) == pol]
        ok2 = False
        detail = "loop over %s" % it
        if len(fits) == 1 and len(fits[0].args) == 3 and not fits[0].keywords:
            from ..model import canon_eq
            want_sel = canon_eq("self.kmeans.labels_", c)
            if chained:
                want_sel = canon_eq("self.kmeans.fit(self.contexts).labels_", c)
            sels = []
            bases = []
            for a in fits[0].args:
                e = X(a)
                if isinstance(e, ast.Subscript):
                    bases.append(sem_text(e.value))
                    sels.append(as_index(e.slice))
                else:
                    bases.append(sem_text(e))
                    sels.append(None)
            ok2 = bases == ["self.decisions", "self.rewards", "self.contexts"] and all(x == want_sel for x in sels)
            detail = "trains %s on %s selected by %s" % (pol, bases, sels)
        ctx.check(ok2, "R12.1", "policy c is trained on decisions, rewards and contexts of the rows labelled c", loop,
                  fo, detail, construct="per-cluster training loop")
    # reader (expressions in loop-spelling independent form: c15.RowForm)
    from .c15 import RowForm
    rf = RowForm(pc)
    rl = rf.loop
    okr = rl is not None
    okc = rl is not None
    detail = ""
    if okr:
        want = "deepcopy(self.lp_list)[self.kmeans.predict(%s)[IDX]]" % pc.params[1]
        # every use of a policy inside the row loop: <policy>.predict / .predict_expectations (called or taken as a
        # bound method) and the re-seeding store <policy>.rng = ...
        uses = [x for x in ast.walk(rl) if isinstance(x, ast.Attribute) and isinstance(x.ctx, ast.Load) and
                x.attr in ("predict", "predict_expectations") and ast.unparse(x.value) != "self.kmeans"]
        seeds = [x for x in ast.walk(rl) if isinstance(x, ast.Assign) and isinstance(x.targets[0], ast.Attribute)
                 and x.targets[0].attr == "rng"]
        recvs = [rf.text(x.value) for x in uses] + [rf.text(x.targets[0].value, at=x) for x in seeds]
        okr = bool(uses) and all(r == want for r in recvs)
        okc = bool(recvs) and all(r.startswith("deepcopy(self.lp_list)[") for r in recvs)
        detail = "receivers %s" % sorted(set(recvs))
    ctx.check(bool(okr), "R12.1", "a query row is answered by the policy of the cluster kmeans.predict assigns it to",
              rl if rl is not None else pc.node, pc, detail, construct="routing in _Clusters._predict_contexts")
    ctx.check(bool(okc), "R12.1", "the routed policies are copies of lp_list in the same order", pc.node, pc, detail,
              construct="lp_list copy")
    # refit only in _fit_operation
    n = 0
    for cfg in F.configs(np_=["Clusters"], lp=["EpsilonGreedy", "LinUCB", "ThompsonSampling"]):
        for lab in F.entry_labels(cfg):
            root = F.trace(cfg, lab)
            w = F.focus(cfg, root)
            for ev, anc in walk(root):
                if ev.kind == "store" and ev.a["skind"].startswith("mutcall:") and any(
                        (t.ocls or "").startswith("ext:sklearn.") and "KMeans" in (t.ocls or "") for t in
                        ev.a["targets"]):
                    n += 1
                    ctx.check(ev.fn.qualname == "_Clusters._fit_operation", "R12.1",
                              "the clustering is (re)fitted only by _fit_operation", ev.node, ev.fn,
                              "%s fits kmeans during %s [%s]" % (ev.fn.qualname, lab, cfg.name))
    ctx.floor("R12.1", "kmeans fit events on traces", n, 6)


def check_tree(ctx):
    prog = ctx.prog
    fa = prog.method("_TreeBandit", "_fit_arm")
    pc = prog.method("_TreeBandit", "_predict_contexts")
    ctx.saw_fn(fa)
    ctx.saw_fn(pc)
    arm, dec, rew, con = (fa.params[1:] + [None] * 4)[:4]
    a_con = "%s[%s == %s]" % (con, dec, arm)
    a_rew = "%s[%s == %s]" % (rew, dec, arm)
    tfit = [x for x in ast.walk(fa.node) if isinstance(x, ast.Call) and ast.unparse(x.func) ==
            "self.arm_to_tree[%s].fit" % arm]
    ok_sel = len(tfit) == 1 and [T(fa.node, a) for a in tfit[0].args] == [a_con, a_rew]
    ctx.check(ok_sel, "R12.2", "the arm's contexts and rewards are selected by the one mask decisions == arm",
              tfit[0] if tfit else fa.node, fa, construct="row selection in _TreeBandit._fit_arm")
    applies = [x for x in ast.walk(fa.node) if isinstance(x, ast.Call) and isinstance(x.func, ast.Attribute)
               and x.func.attr == "apply"]
    ok_leaf = bool(applies) and all(T(fa.node, x) == "self.arm_to_tree[%s].apply(%s)" % (arm, a_con) and
                                    (not tfit or x.lineno > tfit[0].lineno) for x in applies)
    ctx.check(ok_leaf, "R12.2", "leaf ids come from the arm's own tree, after it is fitted, applied to the arm's "
              "contexts", applies[0] if applies else fa.node, fa, construct="leaf ids in _fit_arm")
    loops = [s for s in ast.walk(fa.node) if isinstance(s, ast.For)]
    ok_file = False
    detail = ""
    if loops:
        lp = loops[-1]
        lv = ast.unparse(lp.target)
        it = T(fa.node, lp.iter)
        st = [s for s in ast.walk(lp) if isinstance(s, ast.Assign) and isinstance(s.targets[0], ast.Subscript)]
        if st:
            tgt = T(fa.node, st[-1].targets[0])
            val = T(fa.node, st[-1].value)
            leaves = "self.arm_to_tree[%s].apply(%s)" % (arm, a_con)
            ok_file = tgt == "self.arm_to_leaf_to_rewards[%s][%s]" % (arm, lv) and \
                val == "np.append(self.arm_to_leaf_to_rewards[%s][%s], %s[%s == %s])" % (
                    arm, lv, a_rew, leaves, lv) and it == "set(%s)" % leaves
            detail = "%s = %s over %s" % (tgt, val, it)
    ctx.check(ok_file, "R12.2", "rewards are filed under [arm][leaf] with the mask leaf_indices == leaf", fa.node, fa,
              detail, construct="leaf store in _fit_arm")
    ok_tfit = False
    if len(tfit) == 1:
        g = parent(parent(tfit[0]))
        ok_tfit = isinstance(g, ast.If) and ast.unparse(g.test) in (
            "len(self.arm_to_leaf_to_rewards[%s]) == 0" % arm, "not self.arm_to_leaf_to_rewards[%s]" % arm) and ok_sel
    ctx.check(ok_tfit, "R12.2", "an arm's tree is fitted on the arm's rows, and only while its leaf store is empty",
              tfit[0] if tfit else fa.node, fa, construct="tree fit in _fit_arm")
    # reader
    from .c15 import RowForm
    from .semantic import emptiness
    rf = RowForm(pc)
    rl = rf.loop
    okr = False
    okc = False
    detail = ""
    COPIES = ("deepcopy(%s)", "copy.deepcopy(%s)")
    SHALLOW = COPIES + ("dict(%s)", "%s.copy()", "copy.copy(%s)")
    if rl is not None:
        inner = next((s for s in rl.body if isinstance(s, ast.For)), None)
        if inner is not None and isinstance(inner.target, ast.Name):
            a = inner.target.id
            fits = [x for x in ast.walk(inner) if isinstance(x, ast.Call) and isinstance(x.func, ast.Attribute)
                    and x.func.attr == "fit"]
            exp = [s for s in ast.walk(inner) if isinstance(s, ast.Assign) and
                   isinstance(s.targets[0], ast.Subscript) and ast.unparse(s.targets[0].slice) == a]
            guard = parent(fits[0]) if len(fits) == 1 else None
            while guard is not None and not isinstance(guard, ast.If) and guard is not inner:
                guard = parent(guard)
            store = "deepcopy(self.arm_to_leaf_to_rewards)[%s]" % a
            leaf = "%s[deepcopy(self.arm_to_tree)[%s].apply([ROW])[0]]" % (store, a)
            em = emptiness(rf.expr(guard.test, at=guard)) if isinstance(guard, ast.If) else None
            in_body = isinstance(guard, ast.If) and len(fits) == 1 and any(
                fits[0] is x for st in guard.body for x in ast.walk(st))
            okr = len(fits) == 1 and len(exp) == 1 and em is not None and " ".join(em[0].split()) == store and \
                em[1] == (not in_body) and rf.text(inner.iter, at=inner) in (
                    "deepcopy(self.arms)", "self.arms", "list(self.arms)", "self.arms.copy()", "tuple(self.arms)")
            if okr:
                args = [rf.text(x) for x in fits[0].args]
                okr = args == ["np.asarray([%s] * SIZE(%s))" % (a, leaf), leaf] and \
                    rf.text(fits[0].func.value) == "self._create_leaf_lp(%s)" % a and \
                    rf.text(exp[0].value, at=exp[0]) == "self._create_leaf_lp(%s).predict_expectations()[%s]" % (a, a) \
                    and any(exp[0] is x for st in (guard.body if in_body else guard.orelse) for x in ast.walk(st))
                detail = "leaf policy fitted with %s" % args
                tgt = rf.text(exp[0].targets[0].value, at=exp[0])
                okc = tgt in [c % "self.arm_to_expectation" for c in SHALLOW]
    ctx.check(okr, "R12.2", "the query reads [arm][leaf] of the arm's own tree applied to the row and trains the leaf "
              "policy on exactly that array", rl if rl is not None else pc.node, pc, detail,
              construct="leaf lookup in _TreeBandit._predict_contexts")
    ctx.check(okc, "R12.2", "reader works on copies of the trees, the leaf stores and the neutral expectations",
              pc.node, pc, construct="copies in _TreeBandit._predict_contexts")


def check(ctx):
    F = facts(ctx)
    ctx.rule("R12.1", "Clusters: training cell and query cell come from the same estimator with the same label")
    ctx.rule("R12.2", "TreeBandit: writer and reader use the same (arm, leaf) key of the arm's own tree")
    check_clusters(ctx, F)
    check_tree(ctx)
    # neutral expectation 0 for arms without observations (never written by training)
    n = 0
    for c in F.configs(np_=["TreeBandit"]):
        for lab in ("fit", "partial_fit"):
            root = F.trace(c, lab)
            for ev, anc in walk(root):
                if ev.kind == "store" and any(t.ocls == "_TreeBandit" and t.field == "arm_to_expectation"
                                              and t.region == "bandit" for t in ev.a["targets"]):
                    ctx.violate("R12.2", "training writes _TreeBandit.arm_to_expectation", ev.node, ev.fn,
                                "the neutral expectations that unobserved arms keep are modified [%s]" % c.name)
            n += 1
    ctx.floor("R12.2", "TreeBandit training traces", n, 8)
