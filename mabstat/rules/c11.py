# -*- coding: utf-8 -*-
"""C11 - LSHNearest neighbourhoods are the sign-random-projection collisions."""

import ast

from ..facts import calls_of, first_call, walk
from ..model import norm_stmt
from .common import facts, parent
from .c06 import check_lsh_offset

EXPLANATION = (
    "Writer/reader agreement and provenance rules for the LSH tables. (R11.1) the writer (_fit_operation) hashes "
    "rows with get_context_hash(rows, table_to_plane[k]) and files them under table_to_hash_to_index[k][h]; the "
    "reader (_get_neighbors) hashes the query with the same function and the same table_to_plane[k] and reads "
    "table_to_hash_to_index[k][hash[0]], k ranging over the same key set in both. (R11.2) on the abstract traces "
    "of all LSH configurations table_to_plane is written only by the constructor and by _initialize, _initialize "
    "is called only from fit, its planes have shape (number of context columns, n_dimensions) and are drawn from "
    "the bandit generator. (R11.3) the index offset rule of C06 (read before append, passed, applied). (R11.4) the "
    "candidates of all tables are united and de-duplicated before training, the empty set takes the C03 "
    "empty-neighbourhood path. (R11.5) in get_context_hash the contexts flow only into np.dot(contexts, plane) "
    "compared with zero by one fixed operator and into .shape[0], so a positive scaling of a row cannot change its "
    "hash. Stale entries are C07's obligation. Decides the collision-set structure; injectivity of the 2^i sum in "
    "floating point and 'nearness' of collisions are not decided.")
ASSUMPTIONS = ["np.dot(c*x, p) has the sign of np.dot(x, p) for c > 0", "hash values up to 2^n_dimensions are exact "
               "in float64 for the n_dimensions in use", "CPython ast"]


def check(ctx):
    F = facts(ctx)
    prog = ctx.prog
    ctx.rule("R11.1", "writer and reader use the same hash function, plane and bucket table per table index")
    ctx.rule("R11.2", "planes are fixed at fit, drawn from the bandit generator with shape (columns, n_dimensions)")
    ctx.rule("R6.5", "(= R11.3) index offset: read before append, passed, applied")
    ctx.rule("R11.4", "union over tables, de-duplicated; empty set -> empty-neighbourhood path")
    ctx.rule("R11.5", "contexts enter the hash only through the sign of a projection")
    fo = prog.method("_LSHNearest", "_fit_operation")
    gn = prog.method("_LSHNearest", "_get_neighbors")
    an = prog.method("_LSHNearest", "_add_neighbors")
    gh = prog.method("_LSHNearest", "get_context_hash")
    for f in (fo, gn, an, gh):
        ctx.saw_fn(f)
    from .pattern import find, find_all, match
    from .c15 import _inline
    # The LSH methods are read in the statement shapes of sibling.reshaped (a dictionary is walked over its keys,
    # `for k, v in d.items()` reads d[k]; lists grow by extend; a default followed by a conditional overwrite is an
    # if/else; adjacent temporaries are substituted) and in semantic expression form (SELECT / SIZE / EMPTY).
    from .sibling import reshaped
    from .semantic import sem_text, emptiness
    from .terms import final_form
    from ..model import canon_eq
    fo_n, gn_n, an_n_ = reshaped(fo.node), reshaped(gn.node), reshaped(an.node)
    # ---- R11.1 writer
    wloop = [s for s in ast.walk(fo_n) if isinstance(s, ast.For) and "table_to_plane" in ast.unparse(s.iter)]
    wk = ast.unparse(wloop[0].target) if wloop and isinstance(wloop[0].target, ast.Name) else None
    witer = ast.unparse(wloop[0].iter) if wloop else None
    hn = hb = None
    if wloop:
        hn, hb = find("delayed(_EH_)(_EROWS_, self.table_to_plane[_K_])", wloop[0])
    par_ok = False
    if hn is not None:
        # the hash tasks are the tasks of a Parallel call of this loop (their partition is R5.2's business)
        for c in ast.walk(wloop[0]):
            if isinstance(c, ast.Call) and isinstance(c.func, ast.Call) and ast.unparse(c.func.func) == "Parallel" \
                    and any(x is hn for x in ast.walk(c)):
                par_ok = True
    w_hash_ok = hn is not None and par_ok and hb["_K_"] == wk and hb["_EH_"].endswith("get_context_hash")
    ctx.check(bool(w_hash_ok and wk is not None), "R11.1", "writer hashes the rows with get_context_hash(rows, "
              "table_to_plane[k])", fo.node, fo, "table loop `for %s in %s`" % (wk, witer),
              construct="hash call in _fit_operation")
    an_n, ab = (None, None)
    if wloop:
        an_n, ab = find("Parallel(n_jobs=_EJ_, require='sharedmem')("
                        "delayed(self._add_neighbors)(_HV_, _K_, _H_, context_start) for _H_ in _EKEYS_)", wloop[0])
    ok_file = an_n is not None and ab["_K_"] == wk
    if ok_file:
        keys = " ".join(ast.unparse(_inline(wloop[0], ast.parse(ab["_EKEYS_"], mode="eval").body)).split())
        ok_file = keys.startswith("np.unique(")
    p_hv, p_k, p_h, p_cs = (an.params[1:] + [None] * 4)[:4]
    # the bucket store, spelled over the parameters (final-state terms of the body: locals substituted, if/else as
    # conditional terms)
    bucket = "self.table_to_hash_to_index[%s][%s]" % (p_k, p_h)
    grown = []
    for st in final_form(an_n_.body):
        for x in ast.walk(st):
            if isinstance(x, ast.Call) and isinstance(x.func, ast.Attribute) and x.func.attr == "extend" and \
                    ast.unparse(x.func.value) == bucket and len(x.args) == 1:
                grown.append(x.args[0])
            if isinstance(x, ast.AugAssign) and isinstance(x.op, ast.Add) and ast.unparse(x.target) == bucket:
                grown.append(x.value)
    ok_store = len(grown) == 1
    sel_ok = ok_store
    if ok_store:
        val = sem_text(grown[0])
        want = "SELECT(%s)" % canon_eq(p_hv, p_h)
        sels = [ast.unparse(x) for x in ast.walk(ast.parse(val, mode="eval")) if isinstance(x, ast.Call) and
                isinstance(x.func, ast.Name) and x.func.id in ("SELECT", "SELECT_T")]
        sel_ok = bool(sels) and all(" ".join(x.split()) == want for x in sels)
    ctx.check(bool(ok_file and ok_store and sel_ok), "R11.1", "writer files row positions whose hash equals h under "
              "table_to_hash_to_index[k][h]", an.node, an, construct="bucket store")
    # ---- R11.1 reader
    rloop = [s for s in gn_n.body if isinstance(s, ast.For)]
    rk = ast.unparse(rloop[0].target) if rloop else None
    riter = ast.unparse(rloop[0].iter) if rloop else None
    ok_r = False
    acc_name = None
    flat = None
    if not rloop:
        # the union written as one expression: list(chain.from_iterable(<bucket> for k[, plane] in tables)) or
        # [i for k in tables for i in <bucket>]
        rets_ = [s for s in gn_n.body if isinstance(s, ast.Return) and s.value is not None]
        if len(rets_) == 1:
            v = rets_[0].value
            g = None
            if isinstance(v, ast.Call) and ast.unparse(v.func) == "list" and len(v.args) == 1 and \
                    isinstance(v.args[0], ast.Call) and ast.unparse(v.args[0].func).endswith("chain.from_iterable") \
                    and len(v.args[0].args) == 1 and isinstance(v.args[0].args[0], (ast.GeneratorExp, ast.ListComp)) \
                    and len(v.args[0].args[0].generators) == 1 and not v.args[0].args[0].generators[0].ifs:
                g = (v.args[0].args[0].generators[0], v.args[0].args[0].elt)
            elif isinstance(v, ast.ListComp) and len(v.generators) == 2 and not v.generators[0].ifs and \
                    not v.generators[1].ifs and isinstance(v.generators[1].target, ast.Name) and \
                    ast.unparse(v.elt) == v.generators[1].target.id:
                g = (v.generators[0], v.generators[1].iter)
            if g is not None:
                gen, bucket = g
                it_ = gen.iter
                tg_ = gen.target
                import copy as _copy
                bucket = _copy.deepcopy(bucket)
                if isinstance(it_, ast.Call) and isinstance(it_.func, ast.Attribute) and it_.func.attr == "items" and \
                        isinstance(tg_, ast.Tuple) and len(tg_.elts) == 2 and \
                        all(isinstance(e, ast.Name) for e in tg_.elts):
                    kname, vname = tg_.elts[0].id, tg_.elts[1].id
                    d_ = it_.func.value

                    class R(ast.NodeTransformer):
                        def visit_Name(self, n):
                            if n.id == vname and isinstance(n.ctx, ast.Load):
                                return ast.Subscript(value=_copy.deepcopy(d_), slice=ast.Name(id=kname, ctx=ast.Load()),
                                                     ctx=ast.Load())
                            return n
                    bucket = R().visit(bucket)
                    rk, riter = kname, ast.unparse(d_)
                elif isinstance(tg_, ast.Name):
                    rk = tg_.id
                    riter = ast.unparse(it_.func.value) if isinstance(it_, ast.Call) and isinstance(
                        it_.func, ast.Attribute) and it_.func.attr == "keys" else ast.unparse(it_)
                flat = " ".join(ast.unparse(ast.fix_missing_locations(bucket)).split())
                ok_r = flat == ("self.table_to_hash_to_index[%s][self.get_context_hash(row_2d, "
                                "self.table_to_plane[%s])[0]]" % (rk, rk))
    if rloop:
        grows = [x for x in ast.walk(rloop[0]) if isinstance(x, ast.Call) and isinstance(x.func, ast.Attribute) and
                 x.func.attr == "extend" and isinstance(x.func.value, ast.Name) and len(x.args) == 1]
        augs = [x for x in ast.walk(rloop[0]) if isinstance(x, ast.AugAssign) and isinstance(x.target, ast.Name)]
        if len(grows) + len(augs) == 1:
            acc_name = grows[0].func.value.id if grows else augs[0].target.id
            v = grows[0].args[0] if grows else augs[0].value
            val = " ".join(ast.unparse(_inline(rloop[0], v)).split())
            ok_r = val == ("self.table_to_hash_to_index[%s][self.get_context_hash(row_2d, self.table_to_plane[%s])[0]]"
                           % (rk, rk))
    ctx.check(ok_r, "R11.1", "reader hashes the query with the same function and plane and reads the same bucket "
              "table", gn.node, gn, construct="reader loop of _get_neighbors")
    ctx.check(witer == riter and witer == "self.table_to_plane", "R11.1",
              "writer and reader range over the same set of tables", gn.node, gn,
              "writer iterates %s, reader iterates %s" % (witer, riter), construct="table key sets")
    # ---- R11.4
    acc = [s for s in gn_n.body if isinstance(s, ast.Assign) and ast.unparse(s.targets[0]) == acc_name]
    rets = [s for s in gn_n.body if isinstance(s, ast.Return)]
    ok_u = bool(acc) and ast.unparse(acc[0].value) in ("list()", "[]") and bool(rets) and \
        ast.unparse(rets[-1].value) == acc_name
    if flat is not None:
        ok_u = ok_r         # the flattening expression is the union of the buckets of all tables
    ctx.check(ok_u, "R11.4", "the candidates of all tables are accumulated in one list", gn.node, gn,
              construct="def _LSHNearest._get_neighbors (union)")
    pc = prog.method("_ApproximateNeighbors", "_predict_contexts")
    ctx.saw_fn(pc)
    from .c15 import RowForm, _selection_arg
    rf = RowForm(pc)
    sel = _selection_arg(prog, "_ApproximateNeighbors", rf.loop) if rf.loop is not None else None
    sel_t = rf.text(sel) if sel is not None else None
    ok_d = sel_t is not None and sel_t in ("list(set(self._get_neighbors(ROW[np.newaxis, :])))",
                                           "list(set(self._get_neighbors(ROW[None, :])))",
                                           "list(set(self._get_neighbors(ROW.reshape(1, -1))))")
    ok_e = False
    if sel is not None:
        call = parent(sel)
        while call is not None and not isinstance(call, ast.Call):
            call = parent(call)
        gi = parent(call) if call is not None else None
        while gi is not None and not isinstance(gi, ast.If):
            gi = parent(gi)
        if gi is not None:
            em = emptiness(rf.expr(gi.test, at=gi))
            in_body = any(call is x for st in gi.body for x in ast.walk(st))
            other = gi.orelse if in_body else gi.body
            no_nh = any(isinstance(x, ast.Call) and isinstance(x.func, ast.Attribute) and
                        x.func.attr == "_get_no_nhood_predictions" for st in other for x in ast.walk(st))
            ok_e = no_nh and em is not None and " ".join(em[0].split()) == sel_t and em[1] == (not in_body)
    ctx.check(bool(ok_d), "R11.4", "duplicates are dropped before the neighbourhood policy is trained", pc.node, pc,
              "neighbours handed to _get_nhood_predictions: %s" % sel_t, construct="de-duplication in _predict_contexts")
    ctx.check(bool(ok_e), "R11.4", "an empty candidate set takes the empty-neighbourhood path", pc.node, pc,
              construct="empty candidate set")
    # ---- R11.5
    p_ctx, p_plane = gh.params[0], gh.params[1]
    uses = [n for n in ast.walk(gh.node) if isinstance(n, ast.Name) and n.id == p_ctx and isinstance(n.ctx, ast.Load)]
    ok5 = True
    detail = []
    for u in uses:
        p = parent(u)
        if isinstance(p, ast.Call) and ast.unparse(p.func) == "np.dot" and [ast.unparse(a) for a in p.args] == [
                p_ctx, p_plane]:
            cmp_ = parent(p)
            good = isinstance(cmp_, ast.Compare) and len(cmp_.ops) == 1 and isinstance(
                cmp_.ops[0], (ast.Gt, ast.GtE, ast.Lt, ast.LtE)) and "0" in (
                    ast.unparse(cmp_.comparators[0]), ast.unparse(cmp_.left))
            ok5 = ok5 and good
            detail.append("projection compared: %s" % (ast.unparse(cmp_) if cmp_ is not None else "?"))
        elif isinstance(p, ast.Attribute) and p.attr == "shape":
            continue
        else:
            ok5 = False
            detail.append("other use: %s" % ast.unparse(p))
    ctx.check(ok5 and len(uses) >= 2, "R11.5", "a row influences its hash only through the sign of its projections",
              gh.node, gh, "; ".join(detail), construct="def get_context_hash")
    # hash value = sum of 2^i * sign bits
    lp_n, lb = find("for _I_ in range(%s.shape[1]):\n    _HV_ = _HV_ + _EPS_[:, _I_] * 2 ** _I_" % p_plane, gh.node)
    if lp_n is None:
        lp_n, lb = find("for _I_ in range(%s.shape[1]):\n    _HV_ += _EPS_[:, _I_] * 2 ** _I_" % p_plane, gh.node)
    ok_sum = lp_n is not None
    if ok_sum:
        signs = " ".join(ast.unparse(_inline(gh.node, ast.parse(lb["_EPS_"], mode="eval").body)).split())
        proj = "np.dot(%s, %s)" % (p_ctx, p_plane)
        ok_sum = signs in ("1 * (%s > 0)" % proj, "(%s > 0) * 1" % proj, "(%s > 0).astype(int)" % proj,
                           "np.where(%s > 0, 1, 0)" % proj, "1 * (0 < %s)" % proj, "(0 < %s) * 1" % proj,
                           "(0 < %s).astype(int)" % proj, "np.where(0 < %s, 1, 0)" % proj)
    ctx.check(ok_sum, "R11.5", "hash code = sum over planes of 2^i * [projection_i > 0]", gh.node, gh,
              construct="hash code accumulation")
    # ---- R11.2 traces
    n_cfg = 0
    init_fn = prog.method("_LSHNearest", "_initialize")
    for c in F.configs(np_=["LSHNearest"]):
        n_cfg += 1
        for lab in F.entry_labels(c):
            root = F.trace(c, lab)
            w = F.focus(c, root)
            for ev, anc in walk(root):
                if ev.kind == "store" and any(t.field == "table_to_plane" and t.region == "bandit"
                                              for t in ev.a["targets"]):
                    okw = ev.fn.qualname == "_LSHNearest._initialize"
                    ctx.check(okw, "R11.2", "hyperplanes are written only by _initialize", ev.node, ev.fn,
                              "%s writes table_to_plane during %s [%s]" % (ev.fn.qualname, lab, c.name))
            for cev, anc in calls_of(root, name="_initialize"):
                caller = anc[-1].a["callee"].qualname if anc and anc[-1].kind == "call" else "?"
                ctx.check(caller == "_ApproximateNeighbors.fit", "R11.2", "_initialize is called only from fit",
                          cev.node, anc[-1].a["callee"] if anc else init_fn,
                          "called from %s during %s [%s]" % (caller, lab, c.name))
                # planes drawn from the bandit generator
                for dev, a2 in walk(cev):
                    if dev.kind == "draw":
                        okg = all(w.eng.obj(g).region == "bandit" for g in dev.a["gen"].refs)
                        ctx.check(okg and dev.a["method"] == "standard_normal", "R11.2",
                                  "hyperplanes are drawn from the bandit's generator", dev.node, dev.fn,
                                  "[%s]" % c.name)
    ctx.floor("R11.2", "LSH configurations", n_cfg, 9)
    fit = prog.method("_ApproximateNeighbors", "fit")
    fsrc = " ".join(ast.unparse(fit.node).split())
    isrc = " ".join(ast.unparse(init_fn.node).split())
    arg = init_fn.params[1]
    # one draw site; its size is (columns, n_dimensions); it runs once per table (inside a loop / comprehension over
    # the table dictionary) and its result goes to table_to_plane[<that table>]
    from .semantic import Env
    ienv = Env(init_fn.node.body)
    draws = [x for x in ast.walk(init_fn.node) if isinstance(x, ast.Call) and isinstance(x.func, ast.Attribute)
             and x.func.attr == "standard_normal"]
    sh_ok = False
    if len(draws) == 1:
        d = draws[0]
        st = d
        while st is not None and id(st) not in ienv.env_at:
            st = parent(st)
        size = next((k.value for k in d.keywords if k.arg == "size"), d.args[0] if d.args else None)
        size_t = " ".join(ast.unparse(ienv.at(st, size)).split()) if size is not None and st is not None else None
        over = None
        p_ = parent(d)
        while p_ is not None and p_ is not init_fn.node:
            if isinstance(p_, ast.DictComp):
                over = p_.generators[0].iter
                break
            if isinstance(p_, ast.For):
                over = p_.iter
                break
            p_ = parent(p_)
        over_t = ast.unparse(over) if over is not None else ""
        sh_ok = size_t == "(%s, self.n_dimensions)" % arg and over_t in (
            "self.table_to_plane", "self.table_to_plane.keys()", "self.table_to_plane.items()",
            "range(self.n_tables)")
    ok_shape = "self._initialize(contexts.shape[1])" in fsrc and sh_ok
    ctx.check(ok_shape, "R11.2", "one plane matrix of shape (context columns, n_dimensions) per table", init_fn.node,
              init_fn, construct="def _LSHNearest._initialize")
    check_lsh_offset(ctx)
    # ---- R11.6: the buckets hold positions into the stored history, so positions must never move
    ctx.rule("R11.6", "rows of the stored history keep their positions: written only by fit (replace) and "
                      "partial_fit (append)")
    n_w = 0
    for c in F.configs(np_=["LSHNearest"], lp=["EpsilonGreedy", "LinUCB", "ThompsonSampling"]):
        for lab in F.entry_labels(c):
            root = F.trace(c, lab)
            for ev, anc in walk(root):
                if ev.kind == "store" and any(t.region == "bandit" and t.field in ("decisions", "rewards", "contexts")
                                              and t.ocls == "_LSHNearest" for t in ev.a["targets"]):
                    n_w += 1
                    inside = [a.a["callee"].name for a in anc if a.kind == "call"]
                    ctx.check("fit" in inside or "partial_fit" in inside, "R11.6",
                              "the history that the hash buckets index is written only by fit and partial_fit",
                              ev.node, ev.fn, "%s rewrites the stored rows during %s: the positions filed in "
                              "table_to_hash_to_index then denote other observations [%s]" %
                              (ev.fn.qualname, lab, c.name))
    ctx.floor("R11.6", "history writes of LSHNearest seen", n_w, 9)
