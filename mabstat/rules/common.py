# -*- coding: utf-8 -*-
"""Helpers shared by the rule modules: analysability preconditions, value-dead fields, AST utilities."""

import ast

from ..facts import Facts
from ..model import AnalysisError, Program, norm_stmt

ALLOWED_DECORATORS = {"property", "staticmethod", "abc.abstractmethod", "abstractmethod", "classmethod"}
LIBRARY_MODULES_EXCLUDED_FROM_API = {"simulator"}


def facts(ctx) -> Facts:
    if "facts" not in ctx.shared:
        ctx.shared["facts"] = Facts(ctx.prog, ctx)
    return ctx.shared["facts"]


def parent(n):
    return getattr(n, "_parent", None)


def preconditions(ctx):
    """Constructs that would make the effect summaries unsound: the run stops (exit 2) instead of passing."""
    prog = ctx.prog
    for m in prog.modules.values():
        for n in ast.walk(m.tree):
            bad = None
            if isinstance(n, ast.ImportFrom) and any(a.name == "*" for a in n.names):
                bad = "star import"
            elif isinstance(n, ast.Call) and isinstance(n.func, ast.Name) and n.func.id in (
                    "exec", "eval", "globals", "vars", "locals", "setattr", "delattr", "__import__"):
                bad = "call of %s()" % n.func.id
            elif isinstance(n, ast.Call) and isinstance(n.func, ast.Name) and n.func.id == "getattr" and not (
                    len(n.args) >= 2 and isinstance(n.args[1], ast.Constant)):
                bad = "getattr with a computed name"
            elif isinstance(n, ast.Attribute) and n.attr == "__dict__" and isinstance(n.ctx, (ast.Store, ast.Del)):
                bad = "__dict__ store"
            elif isinstance(n, ast.Subscript) and isinstance(n.ctx, (ast.Store, ast.Del)) and \
                    isinstance(n.value, ast.Attribute) and n.value.attr == "__dict__":
                bad = "__dict__ item store"
            elif isinstance(n, ast.FunctionDef) and n.name in ("__setattr__", "__getattr__", "__getattribute__",
                                                               "__delattr__", "__set__", "__get__"):
                bad = "attribute protocol override %s" % n.name
            elif isinstance(n, (ast.FunctionDef, ast.AsyncFunctionDef)):
                for d in n.decorator_list:
                    ds = ast.unparse(d)
                    if ds not in ALLOWED_DECORATORS and not ds.endswith(".setter"):
                        bad = "decorator @%s" % ds
                if m.name != "simulator" and isinstance(parent(n), (ast.FunctionDef, ast.AsyncFunctionDef)):
                    bad = "nested function %s" % n.name
            elif isinstance(n, (ast.Global, ast.Nonlocal)):
                bad = "global/nonlocal statement"
            elif isinstance(n, (ast.Yield, ast.YieldFrom, ast.Await)):
                bad = "generator function"
            if bad and m.name == "simulator" and bad.startswith("decorator"):
                bad = None
            if bad:
                raise AnalysisError("analysability precondition violated in %s:%s: %s" %
                                    (prog.relpath(m), getattr(n, "lineno", "?"), bad))
    # monkey patching of classes: assignment to an attribute of a class object
    for f in prog.all_functions():
        for n in ast.walk(f.node):
            if isinstance(n, ast.Attribute) and isinstance(n.ctx, (ast.Store, ast.Del)) and \
                    isinstance(n.value, ast.Name) and prog.lookup_class(f.module, n.value.id) is not None:
                raise AnalysisError("class attribute %s.%s is assigned in %s (%s)" %
                                    (n.value.id, n.attr, f.qualname, prog.loc(f, n)))


# ------------------------------------------------------------------------------------------------ use classification
KEY_ONLY_METHODS = {"keys", "pop", "clear", "update", "setdefault", "__contains__", "fromkeys", "popitem"}
KEY_ONLY_FUNCS = {"len", "list", "set", "sorted", "iter", "enumerate", "tuple", "frozenset"}


def classify_use(prog: Program, fn, node, depth=0) -> str:
    """How is the dict-valued expression `node` (a Load) used?  'store' | 'keys' | 'value' """
    p = parent(node)
    if p is None:
        return "value"
    if isinstance(p, ast.Subscript) and p.value is node:
        if isinstance(p.ctx, (ast.Store, ast.Del)):
            return "store"
        pp = parent(p)
        if isinstance(pp, ast.AugAssign) and pp.target is p:
            return "value"
        return "value"
    if isinstance(p, (ast.For, ast.comprehension)) and p.iter is node:
        return "keys"
    if isinstance(p, ast.Compare) and node in p.comparators and all(isinstance(o, (ast.In, ast.NotIn)) for o in p.ops):
        return "keys"
    if isinstance(p, ast.Attribute) and p.value is node:
        pp = parent(p)
        if isinstance(pp, ast.Call) and pp.func is p:
            if p.attr == "pop":
                return "keys" if isinstance(parent(pp), ast.Expr) else "value"
            if p.attr in KEY_ONLY_METHODS:
                return "keys"
            return "value"
        return "value"
    if isinstance(p, ast.Call) and node in p.args:
        if isinstance(p.func, ast.Name):
            if p.func.id in KEY_ONLY_FUNCS:
                return "keys"
            callee = prog.lookup_function(fn.module, p.func.id)
            if callee is not None and depth < 3:
                idx = p.args.index(node)
                params = callee.params
                if idx < len(params):
                    uses = [classify_use(prog, callee, n, depth + 1) for n in ast.walk(callee.node)
                            if isinstance(n, ast.Name) and n.id == params[idx] and isinstance(n.ctx, ast.Load)]
                    return "value" if "value" in uses else ("keys" if uses else "keys")
        if isinstance(p.func, ast.Attribute) and p.func.attr == "fromkeys":
            return "keys"
        return "value"
    if isinstance(p, ast.Assign) and p.value is node:
        return "value"      # aliasing: conservatively a value read
    return "value"


_VD_CACHE = {}


def value_dead(prog: Program, cls_name: str, field: str, exclude_modules=LIBRARY_MODULES_EXCLUDED_FROM_API):
    k = (id(prog), cls_name, field)
    if k not in _VD_CACHE:
        _VD_CACHE[k] = _value_dead(prog, cls_name, field, exclude_modules)
    return _VD_CACHE[k]


def _value_dead(prog: Program, cls_name: str, field: str, exclude_modules=LIBRARY_MODULES_EXCLUDED_FROM_API):
    """True when no code of the library (the bandit API; simulator.py excluded) reads the *values* held in
    <cls>.<field>: it is only stored, popped, or iterated for its keys.  Returns (dead, readers)."""
    cls = prog.cls(cls_name)
    readers = []
    for f in prog.all_functions():
        if f.module.name in exclude_modules:
            continue
        for n in ast.walk(f.node):
            if not (isinstance(n, ast.Attribute) and n.attr == field and isinstance(n.ctx, ast.Load)):
                continue
            if isinstance(n.value, ast.Name) and n.value.id == "self":
                # resolvable on cls?
                if f.cls is None or f.cls not in cls.mro:
                    if not (f.cls is not None and cls in f.cls.mro):
                        continue
                    continue        # defined only in a subclass of cls: not reachable with a cls receiver
                if cls.resolve(f.name) is not f and not f.name.endswith(".setter"):
                    # overridden further down the MRO; reachable only through super(): keep it conservative
                    pass
            use = classify_use(prog, f, n)
            if use == "value":
                readers.append("%s (%s)" % (f.qualname, prog.loc(f, n)))
    return (not readers), readers


def src(node) -> str:
    return norm_stmt(node)


def names_in(node):
    return {n.id for n in ast.walk(node) if isinstance(n, ast.Name)}


def attr_chain(node):
    """'self.a.b' -> ['self','a','b'] or None."""
    parts = []
    while isinstance(node, ast.Attribute):
        parts.append(node.attr)
        node = node.value
    if isinstance(node, ast.Name):
        parts.append(node.id)
        return list(reversed(parts))
    return None
