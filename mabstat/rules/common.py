# -*- coding: utf-8 -*-
"""Helpers shared by the rule modules: analysability preconditions, value-dead fields, AST utilities."""

import ast

from ..facts import Facts
from ..model import AnalysisError, Program, norm_stmt

ALLOWED_DECORATORS = {"property", "staticmethod", "abc.abstractmethod", "abstractmethod", "classmethod"}
LIBRARY_MODULES_EXCLUDED_FROM_API = {"simulator"}


def facts(ctx) -> Facts:
    if "facts" not in ctx.shared:
        ctx.shared["facts"] = Facts(ctx.prog, ctx)
    return ctx.shared["facts"]


def parent(n):
    return getattr(n, "_parent", None)


def preconditions(ctx):
    """Constructs that would make the effect summaries unsound: the run stops (exit 2) instead of passing."""
    prog = ctx.prog
    for m in prog.modules.values():
        for n in ast.walk(m.tree):
            bad = None
            if isinstance(n, ast.ImportFrom) and any(a.name == "*" for a in n.names):
                bad = "star import"
            elif isinstance(n, ast.Call) and isinstance(n.func, ast.Name) and n.func.id in (
                    "exec", "eval", "globals", "vars", "locals", "setattr", "delattr", "__import__"):
                bad = "call of %s()" % n.func.id
            elif isinstance(n, ast.Call) and isinstance(n.func, ast.Name) and n.func.id == "getattr" and not (
                    len(n.args) >= 2 and isinstance(n.args[1], ast.Constant)):
                bad = "getattr with a computed name"
            elif isinstance(n, ast.Attribute) and n.attr == "__dict__" and isinstance(n.ctx, (ast.Store, ast.Del)):
                bad = "__dict__ store"
            elif isinstance(n, ast.Subscript) and isinstance(n.ctx, (ast.Store, ast.Del)) and \
                    isinstance(n.value, ast.Attribute) and n.value.attr == "__dict__":
                bad = "__dict__ item store"
            elif isinstance(n, ast.FunctionDef) and n.name in ("__setattr__", "__getattr__", "__getattribute__",
                                                               "__delattr__", "__set__", "__get__"):
                bad = "attribute protocol override %s" % n.name
            elif isinstance(n, (ast.FunctionDef, ast.AsyncFunctionDef)):
                for d in n.decorator_list:
                    ds = ast.unparse(d)
                    if ds not in ALLOWED_DECORATORS and not ds.endswith(".setter"):
                        bad = "decorator @%s" % ds
                if m.name != "simulator" and isinstance(parent(n), (ast.FunctionDef, ast.AsyncFunctionDef)):
                    bad = "nested function %s" % n.name
            elif isinstance(n, (ast.Global, ast.Nonlocal)):
                bad = "global/nonlocal statement"
            elif isinstance(n, (ast.Yield, ast.YieldFrom, ast.Await)):
                bad = "generator function"
            if bad and m.name == "simulator" and bad.startswith("decorator"):
                bad = None
            if bad:
                raise AnalysisError("analysability precondition violated in %s:%s: %s" %
                                    (prog.relpath(m), getattr(n, "lineno", "?"), bad))
    # monkey patching of classes: assignment to an attribute of a class object
    for f in prog.all_functions():
        for n in ast.walk(f.node):
            if isinstance(n, ast.Attribute) and isinstance(n.ctx, (ast.Store, ast.Del)) and \
                    isinstance(n.value, ast.Name) and prog.lookup_class(f.module, n.value.id) is not None:
                raise AnalysisError("class attribute %s.%s is assigned in %s (%s)" %
                                    (n.value.id, n.attr, f.qualname, prog.loc(f, n)))


# ------------------------------------------------------------------------------------------------ use classification
KEY_ONLY_METHODS = {"keys", "pop", "clear", "update", "setdefault", "__contains__", "fromkeys", "popitem"}
KEY_ONLY_FUNCS = {"len", "list", "set", "sorted", "iter", "enumerate", "tuple", "frozenset"}


def classify_use(prog: Program, fn, node, depth=0) -> str:
    """How is the dict-valued expression `node` (a Load) used?  'store' | 'keys' | 'value' """
    p = parent(node)
    if p is None:
        return "value"
    if isinstance(p, ast.Subscript) and p.value is node:
        if isinstance(p.ctx, (ast.Store, ast.Del)):
            return "store"
        pp = parent(p)
        if isinstance(pp, ast.AugAssign) and pp.target is p:
            return "value"
        return "value"
    if isinstance(p, (ast.For, ast.comprehension)) and p.iter is node:
        return "keys"
    if isinstance(p, ast.Compare) and node in p.comparators and all(isinstance(o, (ast.In, ast.NotIn)) for o in p.ops):
        return "keys"
    if isinstance(p, ast.Attribute) and p.value is node:
        pp = parent(p)
        if isinstance(pp, ast.Call) and pp.func is p:
            if p.attr == "pop":
                return "keys" if isinstance(parent(pp), ast.Expr) else "value"
            if p.attr in KEY_ONLY_METHODS:
                return "keys"
            return "value"
        return "value"
    if isinstance(p, ast.Call) and node in p.args:
        if isinstance(p.func, ast.Name):
            if p.func.id in KEY_ONLY_FUNCS:
                return "keys"
            callee = prog.lookup_function(fn.module, p.func.id)
            if callee is not None and depth < 3:
                idx = p.args.index(node)
                params = callee.params
                if idx < len(params):
                    uses = [classify_use(prog, callee, n, depth + 1) for n in ast.walk(callee.node)
                            if isinstance(n, ast.Name) and n.id == params[idx] and isinstance(n.ctx, ast.Load)]
                    return "value" if "value" in uses else ("keys" if uses else "keys")
        if isinstance(p.func, ast.Attribute) and p.func.attr == "fromkeys":
            return "keys"
        return "value"
    if isinstance(p, ast.Assign) and p.value is node:
        return "value"      # aliasing: conservatively a value read
    return "value"


_VD_CACHE = {}


def value_dead(prog: Program, cls_name: str, field: str, exclude_modules=LIBRARY_MODULES_EXCLUDED_FROM_API):
    k = (id(prog), cls_name, field)
    if k not in _VD_CACHE:
        _VD_CACHE[k] = _value_dead(prog, cls_name, field, exclude_modules)
    return _VD_CACHE[k]


def _value_dead(prog: Program, cls_name: str, field: str, exclude_modules=LIBRARY_MODULES_EXCLUDED_FROM_API):
    """True when no code of the library (the bandit API; simulator.py excluded) reads the *values* held in
    <cls>.<field>: it is only stored, popped, or iterated for its keys.  Returns (dead, readers)."""
    cls = prog.cls(cls_name)
    readers = []
    for f in prog.all_functions():
        if f.module.name in exclude_modules:
            continue
        for n in ast.walk(f.node):
            if not (isinstance(n, ast.Attribute) and n.attr == field and isinstance(n.ctx, ast.Load)):
                continue
            if isinstance(n.value, ast.Name) and n.value.id == "self":
                # resolvable on cls?
                if f.cls is None or f.cls not in cls.mro:
                    if not (f.cls is not None and cls in f.cls.mro):
                        continue
                    continue        # defined only in a subclass of cls: not reachable with a cls receiver
                if cls.resolve(f.name) is not f and not f.name.endswith(".setter"):
                    # overridden further down the MRO; reachable only through super(): keep it conservative
                    pass
            use = classify_use(prog, f, n)
            if use == "value":
                readers.append("%s (%s)" % (f.qualname, prog.loc(f, n)))
    return (not readers), readers


def src(node) -> str:
    return norm_stmt(node)


def names_in(node):
    return {n.id for n in ast.walk(node) if isinstance(n, ast.Name)}


def attr_chain(node):
    """'self.a.b' -> ['self','a','b'] or None."""
    parts = []
    while isinstance(node, ast.Attribute):
        parts.append(node.attr)
        node = node.value
    if isinstance(node, ast.Name):
        parts.append(node.id)
        return list(reversed(parts))
    return None


# ------------------------------------------------------------------------------------------------ row loops
class RowLoop:
    """The per-row loop of a _predict_contexts style function, in any of its usual spellings."""

    def __init__(self):
        self.loop = None
        self.rows = None        # name of the parameter holding the rows
        self.idx = None         # name of the row index variable (or None)
        self.row = None         # name of the row variable (or None when rows are indexed)
        self.seed = None        # name bound to the row's seed by zip(..., seeds) (or None)
        self.out = None         # name of the result list
        self.mode = None        # 'index' (pre-allocated, out[idx] = ...) or 'append' (empty list, out.append(...))
        self.alloc = None
        self.once = False       # exactly one write of the row's result on every path through the body
        self.others = {}        # further names bound by zip(...): name -> the per-row array it walks over


def _count_writes(stmts, is_write):
    """set of possible numbers of result writes over the paths through stmts (None = path leaves the iteration)"""
    counts = {0}
    for st in stmts:
        if isinstance(st, ast.If):
            a = _count_writes(st.body, is_write)
            b = _count_writes(st.orelse, is_write)
            counts = {c + x for c in counts for x in (a | b)}
        elif isinstance(st, (ast.For, ast.While)):
            inner = _count_writes(st.body, is_write)
            if inner != {0}:
                counts = {c + x for c in counts for x in (inner | {99})}
        else:
            k = sum(1 for n in ast.walk(st) if is_write(n))
            counts = {c + k for c in counts}
    return counts


ROWWISE_METHODS = {"predict", "transform", "apply", "predict_proba", "decision_function"}


def _per_row_array(fn, name, rows):
    import ast as _ast
    defs = [x.value for x in _ast.walk(fn.node) if isinstance(x, _ast.Assign) and len(x.targets) == 1 and
            isinstance(x.targets[0], _ast.Name) and x.targets[0].id == name]
    return len(defs) == 1 and isinstance(defs[0], _ast.Call) and isinstance(defs[0].func, _ast.Attribute) and \
        defs[0].func.attr in ROWWISE_METHODS and [_ast.unparse(x) for x in defs[0].args] == [rows]


def _zip_members(fn, loop, rows, seeds):
    """(index name, row name, seed name) when the loop runs over zip(...) / enumerate(zip(...)) of the rows, the seeds
    and per-row arrays computed from the rows (one entry per row, e.g. kmeans.predict(rows)); else None"""
    import ast as _ast
    it, tg = loop.iter, loop.target
    idx = None
    if isinstance(it, _ast.Call) and _ast.unparse(it.func) == "enumerate" and len(it.args) == 1 and not it.keywords \
            and isinstance(tg, _ast.Tuple) and len(tg.elts) == 2 and isinstance(tg.elts[0], _ast.Name):
        idx, it, tg = tg.elts[0].id, it.args[0], tg.elts[1]
    if not (isinstance(it, _ast.Call) and _ast.unparse(it.func) == "zip" and not it.keywords and
            isinstance(tg, _ast.Tuple) and len(tg.elts) == len(it.args) and
            all(isinstance(e, _ast.Name) for e in tg.elts)):
        return None
    row = seed = None
    others = {}
    for a, t in zip(it.args, tg.elts):
        s = _ast.unparse(a)
        if s == rows and row is None:
            row = t.id
        elif seeds and s == seeds and seed is None:
            seed = t.id
        elif isinstance(a, _ast.Name):
            others[t.id] = a.id
            defs = [x.value for x in _ast.walk(fn.node) if isinstance(x, _ast.Assign) and len(x.targets) == 1 and
                    isinstance(x.targets[0], _ast.Name) and x.targets[0].id == a.id]
            if not (len(defs) == 1 and isinstance(defs[0], _ast.Call) and isinstance(defs[0].func, _ast.Attribute) and
                    defs[0].func.attr in ROWWISE_METHODS and [_ast.unparse(x) for x in defs[0].args] == [rows]):
                return None
        else:
            return None
    if row is None and idx is None:
        return None
    if row is None:
        return None
    return idx, row, seed, others


def row_loop_info(fn):
    import ast as _ast
    if len(fn.params) < 2:
        return None
    rows = fn.params[1]
    seeds = "seeds" if "seeds" in fn.params else None
    info = RowLoop()
    info.rows = rows
    for loop in [n for n in _ast.walk(fn.node) if isinstance(n, _ast.For)]:
        it, tg = loop.iter, loop.target
        its = " ".join(_ast.unparse(it).split())
        names = [e.id if isinstance(e, _ast.Name) else None for e in tg.elts] if isinstance(tg, _ast.Tuple) else None
        zipped = _zip_members(fn, loop, rows, seeds)
        if its == "enumerate(%s)" % rows and names and len(names) == 2 and all(names):
            info.idx, info.row = names
        elif zipped is not None:
            info.idx, info.row, info.seed, info.others = zipped
        elif seeds and its == "zip(%s, %s)" % (rows, seeds) and names and len(names) == 2 and all(names):
            info.row, info.seed = names
        elif seeds and its == "zip(%s, %s)" % (seeds, rows) and names and len(names) == 2 and all(names):
            info.seed, info.row = names
        elif seeds and its in ("enumerate(zip(%s, %s))" % (rows, seeds),) and isinstance(tg, _ast.Tuple) and \
                len(tg.elts) == 2 and isinstance(tg.elts[0], _ast.Name) and isinstance(tg.elts[1], _ast.Tuple) and \
                all(isinstance(e, _ast.Name) for e in tg.elts[1].elts) and len(tg.elts[1].elts) == 2:
            info.idx = tg.elts[0].id
            info.row, info.seed = tg.elts[1].elts[0].id, tg.elts[1].elts[1].id
        elif its == "range(len(%s))" % rows and isinstance(tg, _ast.Name):
            info.idx = tg.id
        elif isinstance(it, _ast.Call) and _ast.unparse(it.func) == "enumerate" and len(it.args) == 1 and \
                isinstance(it.args[0], _ast.Name) and names and len(names) == 2 and all(names) and \
                _per_row_array(fn, it.args[0].id, rows):
            # for index, label in enumerate(<one entry per row, computed from the rows>): the row is rows[index]
            info.idx = names[0]
            info.others = {names[1]: it.args[0].id}
        elif its == rows and isinstance(tg, _ast.Name):
            info.row = tg.id
        else:
            continue
        info.loop = loop
        break
    if info.loop is None:
        return None
    # the result list
    for st in _ast.walk(fn.node):
        if isinstance(st, _ast.Assign) and len(st.targets) == 1 and isinstance(st.targets[0], _ast.Name) and \
                st.lineno <= info.loop.lineno:
            v = " ".join(_ast.unparse(st.value).split())
            name = st.targets[0].id
            if v in ("[None] * len(%s)" % rows, "len(%s) * [None]" % rows) and info.idx is not None:
                def is_write(n, name=name):
                    return isinstance(n, _ast.Assign) and len(n.targets) == 1 and \
                        isinstance(n.targets[0], _ast.Subscript) and _ast.unparse(n.targets[0].value) == name and \
                        _ast.unparse(n.targets[0].slice) == info.idx
                if any(is_write(n) for n in _ast.walk(info.loop)):
                    info.out, info.mode, info.alloc = name, "index", st
                    info.once = _count_writes(info.loop.body, is_write) == {1}
                    break
            if v in ("[]", "list()"):
                def is_app(n, name=name):
                    return isinstance(n, _ast.Call) and isinstance(n.func, _ast.Attribute) and \
                        n.func.attr == "append" and _ast.unparse(n.func.value) == name and len(n.args) == 1
                if any(is_app(n) for n in _ast.walk(info.loop)):
                    others = [n for n in _ast.walk(fn.node) if is_app(n) and not any(n is x for x in _ast.walk(info.loop))]
                    info.out, info.mode, info.alloc = name, "append", st
                    info.once = _count_writes(info.loop.body, is_app) == {1} and not others
                    break
    return info
