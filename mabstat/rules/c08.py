# -*- coding: utf-8 -*-
"""C08 - outputs always range over exactly the current arms, one result per context."""

import ast

from ..model import AnalysisError

from ..facts import LP_CLASS, NP_CLASS, call_chain, calls_of, first_call, fmt_target, walk
from ..model import norm_stmt
from .common import facts, parent
from .kill import dep_locations
from .order import PathWalker

EXPLANATION = (
    "Completeness and construction rules over the abstract traces and the abstract object graph of all 55 "
    "configurations. (R8.1) every arm-keyed dictionary of the bandit's object graph (keys are arm labels in the "
    "abstract heap; includes dictionaries of nested policies, per-cluster policies and per-arm models) receives a "
    "keyed store with the new arm on the add_arm path and a pop/del with the arm on the remove_arm path; updates of "
    "per-cluster policies happen in a loop over all of them. (R8.2) a field used positionally against the arm "
    "list (p= of choice(len(arms), ...)) is maintained by add_arm/remove_arm. (R8.3) every policy object of the "
    "graph references the one list object MAB.arms; that list is mutated only by MAB.add_arm / MAB.remove_arm and "
    ".arms is rebound only in constructors. (R8.4) every dictionary returned by predict_expectations has arm "
    "labels as keys and every value returned by predict is an arm label. (R8.5) a cardinality interpreter "
    "(rules/cardinality.py: abstract interpretation over kinds and lengths - dictionary keyed by the arms, list of "
    "m, array (m, k), scalar - per scenario no contexts / one row / m rows, scenario-determined tests decided, all "
    "others explored on both sides) shows that each predict / predict_expectations of the context-free policies, "
    "_parallel_predict and _vectorized_predict_context returns one dictionary / arm for no contexts or one row "
    "and a list with one per row for m rows, whatever the spelling of branches, loops and temporaries; every "
    "_predict_contexts writes the row's result exactly once on every path of its row loop (pre-sized list written "
    "at [index], or list appended to). (R8.1 uses must-not-contain facts of the interpreter: after "
    "arms.remove(x) a guard `x in <that list>` is false.) Decides structure of bookkeeping and result "
    "construction; insertion order of dictionaries as a run-time fact is relied upon.")
ASSUMPTIONS = ["dict preserves insertion order; MAB validation keeps arms duplicate free", "externals table",
               "CPython ast"]


def _arm_keyed(w, heap):
    """oids of bandit dictionaries whose keys are arm labels."""
    out = []
    for oid in w.reachable(w.mab_oid, heap):
        o = heap.objs[oid]
        if o.region == "bandit" and o.cls == "dict" and o.keys is not None and "label" in o.keys.tags:
            out.append(oid)
    return out


def _is_arm_key(key):
    return key is not None and "param:arm" in key.tags


def check_bookkeeping(ctx, F, c):
    w = F.world(c)
    eng = w.eng
    n = 0
    for label, want in (("add_arm", "store"), ("remove_arm", "pop")):
        root = F.trace(c, label)
        F.focus(c, root)
        keyed = _arm_keyed(w, w.skeleton)
        done = {}
        for ev, anc in walk(root):
            if ev.kind != "store":
                continue
            key = ev.a.get("key")
            sk = ev.a["skind"]
            base = ev.a.get("base")
            if base is None:
                continue
            hit = [r for r in base.refs if r in keyed]
            if not hit:
                continue
            if want == "store" and sk == "setitem" and _is_arm_key(key):
                for r in hit:
                    done[r] = (ev, anc)
            if want == "pop" and sk in ("mutcall:pop", "del"):
                # the popped key is the first argument of pop
                call = ev.node.value if isinstance(ev.node, ast.Expr) else ev.node
                arg = call.args[0] if isinstance(call, ast.Call) and call.args else None
                if isinstance(ev.node, ast.Delete):
                    subs = [t for t in ev.node.targets if isinstance(t, ast.Subscript)]
                    arg = subs[0].slice if subs else None
                owner_fn = ev.fn
                if arg is not None and isinstance(arg, ast.Name) and arg.id in owner_fn.params:
                    for r in hit:
                        done[r] = (ev, anc)
        for r in keyed:
            o = w.skeleton.objs[r]
            a, steps = eng.anchor(r)
            name = "%s%s" % (a.cls, "".join(steps))
            n += 1
            inst = "%s %s the arm in %s" % (label, "stores" if want == "store" else "removes", name)
            if r not in done:
                fn = ctx.prog.method("BaseMAB", label)
                ctx.violate("R8.1", inst, fn.node, fn, "arm-keyed dictionary %s is not maintained by %s [%s]" %
                            (name, label, c.name), construct="%s: %s" % (label, name))
                continue
            ev, anc = done[r]
            # element of a collection of policies: must happen in a loop over all of them
            chain_ok = True
            cur, hops = eng.obj(r), 0
            while cur.owner is not None and hops < 10:
                parent_o = eng.obj(cur.owner[0])
                if cur.owner[1] == "[*]" and parent_o.cls == "list":
                    def covers(x):
                        it = x.a.get("iter")
                        if it is None:
                            return False
                        if parent_o.oid in it.refs:
                            return True
                        po = parent_o.owner
                        for d in it.deps:
                            if isinstance(d, tuple) and len(d) == 2 and isinstance(d[0], int):
                                if d[0] == parent_o.oid or (po is not None and d == (po[0], (po[1],))):
                                    return True
                        node = x.a.get("iter_node")
                        return node is not None and ast.unparse(node) == "range(self.n_clusters)"
                    loops = [x for x in anc if x.kind == "for" and covers(x)]
                    if not loops:
                        chain_ok = False
                cur, hops = parent_o, hops + 1
            ctx.check(chain_ok, "R8.1", inst, ev.node, ev.fn,
                      "only one element of a list of policies is updated (not in a loop over the list) [%s]" % c.name)
    return n


def check_parallel_fields(ctx, F, c):
    """R8.2: fields used positionally against the arm list."""
    w = F.world(c)
    eng = w.eng
    fields = {}
    for label in ("predict", "predict_expectations"):
        if label not in F.entry_labels(c):
            continue
        root = F.trace(c, label)
        F.focus(c, root)
        for ev, anc in walk(root):
            if ev.kind == "draw" and ev.a["method"] == "choice" and "p" in ev.a["kwargs"]:
                p = ev.a["kwargs"]["p"]
                locs = {(oid, steps[0][1:]) for oid, steps in p.locs if steps and steps[0].startswith(".")}
                for r in p.refs:
                    a, st = eng.anchor(r)
                    if st and st[0].startswith("."):
                        locs.add((a.oid, st[0][1:]))
                for loc in dep_locations(eng, p.deps):
                    if loc[1] is None:
                        continue
                    fv = eng.obj(loc[0]).fields.get(loc[1])
                    if fv is not None and ((fv.refs & p.refs) or (fv.locs & p.locs)):
                        locs.add(loc)
                for loc in locs:
                    o = eng.obj(loc[0])
                    if o.region == "bandit" and loc[1] is not None:
                        fields[(o.cls, loc[1], loc[0])] = ev
    for (cls, fld, oid), ev in fields.items():
        for label in ("add_arm", "remove_arm"):
            root = F.trace(c, label)
            F.focus(c, root)
            written = any(sev.kind == "store" and any(t.oid == oid and t.field == fld for t in sev.a["targets"])
                          for sev, _ in walk(root))
            site = ev.stack[-1][1] if ev.stack else ev.node
            fn = ev.stack[-2][0] if len(ev.stack) >= 2 else ev.fn
            ctx.check(written, "R8.2", "%s.%s (parallel to the arm list) is maintained by %s" % (cls, fld, label),
                      site, fn, "used as p= of choice(len(self.arms), ...) but %s does not update it: after an arm "
                      "change its length no longer matches [%s]" % (label, c.name))
    return len(fields)


def check_arm_derived_fields(ctx, F, c):
    """R8.6: a bandit field (other than the arm-keyed dictionaries of R8.1) whose stored value was computed from the
    entries of an arm-keyed dictionary or from the number of arms - a cache - has one entry per arm baked in. It
    must be rewritten (re-derived or invalidated) by add_arm and remove_arm, or results computed from it range over
    the old arms."""
    w = F.world(c)
    eng = w.eng
    cand = {}
    for label in F.entry_labels(c):
        root = F.trace(c, label)
        F.focus(c, root)
        armdicts = set()
        per_arm = set()
        for o in eng.heap.objs.values():
            if o.region != "bandit" or o.cls not in ctx.prog.classes:
                continue
            for fname, fv in o.fields.items():
                for r in fv.refs:
                    d = eng.heap.objs.get(r)
                    if d is not None and d.cls == "dict" and d.keys is not None and "label" in d.keys.tags:
                        armdicts.add((o.oid, fname))
                        if d.elem is not None:
                            per_arm.update(d.elem.refs)     # the per-arm objects themselves (models, trees)
        mab = eng.obj(w.mab_oid)
        cards = {("card", r) for r in mab.fields["arms"].refs}
        for ev, anc in walk(root):
            if ev.kind != "store" or not ev.a["step"].startswith(".") or ev.a.get("value") is None:
                continue
            v = ev.a["value"]
            for t in ev.a["targets"]:
                if t.region != "bandit" or t.sub or t.field is None or t.ocls == "MAB" or \
                        (t.oid, t.field) in armdicts or t.field in ("arms", "rng") or t.oid in per_arm:
                    continue
                if v.refs and any(eng.obj(r).cls in ctx.prog.classes or (eng.obj(r).cls or "").startswith("ext:")
                                  for r in v.refs if r in eng.heap.objs):
                    continue            # objects (policies, estimators) are tracked by R8.1 through their own fields
                from_dict = {l for l in dep_locations(eng, v.deps) if l in armdicts}
                from_card = bool(cards & set(v.deps))
                # only values with one entry per arm matter here (sequences / arrays built from the dictionary's
                # entries, or sized by the number of arms); a scalar aggregate such as a total has no arm baked in
                vn = getattr(ev.node, "value", None)
                shaped = bool(v.refs) or vn is not None and any(
                    isinstance(x, (ast.ListComp, ast.GeneratorExp, ast.DictComp, ast.SetComp)) or (
                        isinstance(x, ast.Call) and isinstance(x.func, ast.Attribute) and
                        x.func.attr in ("values", "keys", "items"))
                    for x in ast.walk(vn))
                if isinstance(ev.node, ast.AugAssign):
                    shaped = False
                if (from_dict or from_card) and shaped:
                    cand.setdefault((t.oid, t.ocls, t.field), (ev, label, sorted(x[1] for x in from_dict)))
    n = 0
    for (oid, ocls, fld), (ev, label0, srcs) in sorted(cand.items(), key=str):
        for label in ("add_arm", "remove_arm"):
            root = F.trace(c, label)
            F.focus(c, root)
            written = any(sev.kind == "store" and any(t.oid == oid and t.field == fld for t in sev.a["targets"])
                          for sev, _ in walk(root))
            n += 1
            ctx.check(written, "R8.6", "%s.%s (computed from per-arm state) is refreshed by %s" % (ocls, fld, label),
                      ev.node, ev.fn, "the value stored by %s is computed from %s, one entry per arm, but %s neither "
                      "re-derives nor invalidates it: results built from it range over the old arms [%s]" %
                      (label0, srcs or "the number of arms", label, c.name))
    return n


def check_one_arm_list(ctx, F, c):
    w = F.world(c)
    heap = w.skeleton
    mab = heap.objs[w.mab_oid]
    arms = mab.fields["arms"].refs
    n = 0
    for oid in w.reachable(w.mab_oid, heap):
        o = heap.objs[oid]
        pc = ctx.prog.classes.get(o.cls) if o.cls else None
        if pc is None or not any(b.name == "BaseMAB" for b in pc.mro):
            continue
        n += 1
        v = o.fields.get("arms")
        ok = v is not None and v.refs == arms and not v.locs
        initf = pc.resolve("__init__")
        ctx.check(ok, "R8.3", "%s.arms is the facade's arm list object" % o.cls, initf.node, initf,
                  "policy object holds a different list than MAB.arms [%s]" % c.name,
                  construct="%s.arms is MAB.arms" % o.cls)
    for label in F.entry_labels(c):
        root = F.trace(c, label)
        F.focus(c, root)
        for ev, anc in walk(root):
            if ev.kind != "store":
                continue
            for t in ev.a["targets"]:
                if t.region == "bandit" and t.field == "arms":
                    if not t.sub:
                        ctx.violate("R8.3", "%s rebinds .arms of %s" % (label, t.ocls), ev.node, ev.fn,
                                    "the shared arm list is replaced outside a constructor [%s]" % c.name)
                    else:
                        ok = ev.fn is not None and ev.fn.qualname in ("MAB.add_arm", "MAB.remove_arm")
                        ctx.check(ok, "R8.3", "the arm list is mutated only by MAB.add_arm / MAB.remove_arm", ev.node,
                                  ev.fn, "%s mutates the shared arm list [%s]" % (ev.a["skind"], c.name))
    return n


def check_outputs(ctx, F, c):
    w = F.world(c)
    eng = w.eng
    n = 0
    for label in F.entry_labels(c):
        base = label.split("+")[0]
        if base not in ("predict", "predict_expectations"):
            continue
        root = F.trace(c, label)
        F.focus(c, root)
        res = root.a["result"]
        top = root.children[0]
        fn = top.a["callee"]
        n += 1
        if base == "predict":
            # a label, or a list of labels
            vals = [res]
            for r in res.refs:
                o = eng.obj(r)
                if o.cls == "list" and o.elem is not None:
                    vals.append(o.elem)
            ok = any("label" in v.tags or "labels" in v.tags or "key" in v.tags for v in vals)
            ctx.check(ok, "R8.4", "MAB.predict returns arm labels (%s)" % c.name, fn.node, fn,
                      "returned value is not derived from the arm list / keys of an arm dictionary",
                      construct="predict result [%s]" % c.name)
        else:
            dicts = []
            todo = list(res.refs)
            seen = set()
            while todo:
                r = todo.pop()
                if r in seen:
                    continue
                seen.add(r)
                o = eng.obj(r)
                if o.cls == "dict":
                    dicts.append(o)
                elif o.elem is not None:
                    todo.extend(o.elem.refs)
            ok = bool(dicts) and all(o.keys is not None and ("label" in o.keys.tags) for o in dicts)
            fresh = all(o.region == "fresh" for o in dicts)
            ctx.check(ok and fresh, "R8.4", "MAB.predict_expectations returns fresh dictionaries keyed by the arms "
                      "(%s)" % c.name, fn.node, fn, "result dictionaries: %s" % [
                          (o.region, sorted(o.keys.tags) if o.keys is not None else None) for o in dicts],
                      construct="predict_expectations result [%s]" % c.name)
    return n


# ------------------------------------------------------------------------------------------------ R8.5 idioms
def _ret_exprs(fn):
    return [n for n in ast.walk(fn.node) if isinstance(n, ast.Return) and n.value is not None]


def _is_size_def(node):
    """size = 1 if contexts is None else len(contexts)"""
    return isinstance(node, ast.Assign) and isinstance(node.value, ast.IfExp) and \
        ast.unparse(node.value) in ("1 if contexts is None else len(contexts)",)


def check_unwrapping(ctx):
    """kinds and lengths of what the prediction methods return, per scenario (cardinality interpreter)"""
    from .cardinality import K, M, V, returned
    prog = ctx.prog
    n = 0

    def is_dict(v):
        return v.kind == "dict" and v.n == K

    def is_scalar(v):
        return v.kind == "scalar"

    def expect(cname, meth, sc, single, what, extra=None, tag=""):
        nonlocal n
        fn = prog.cls(cname).resolve(meth)
        if fn is None:
            raise AnalysisError("anchored method %s.%s not found" % (cname, meth))
        ctx.saw_fn(fn)
        v, notes = returned(prog, cname, meth, sc, extra=extra)
        if sc == "many":
            ok = v.kind == "list" and v.n == M and v.elem is not None and single(v.elem)
            want = "a list with one %s per row" % what
        else:
            ok = single(v)
            want = "one %s (not a list)" % what
        n += 1
        scen = {"none": "contexts is None", "one": "one row", "many": "m > 1 rows"}[sc]
        ctx.check(ok, "R8.5", "%s.%s%s returns %s when %s" % (cname, meth, tag, want, scen), fn.node, fn,
                  "abstract result: %r%s" % (v, ("; " + "; ".join(notes[:2])) if notes else ""),
                  construct="def %s.%s%s [%s]" % (cname, meth, tag, sc))

    # (i) the context-free policies
    for cname in ("_EpsilonGreedy", "_UCB1", "_Softmax", "_ThompsonSampling", "_Popularity", "_Random"):
        for sc in ("none", "one", "many"):
            expect(cname, "predict_expectations", sc, is_dict, "dictionary keyed by the arms")
            expect(cname, "predict", sc, is_scalar, "arm")
    # (ii) list-or-single unwrapping of the row-wise implementations
    for sc in ("one", "many"):
        expect("BaseMAB", "_parallel_predict", sc, lambda v: v.kind == "row", "row result")
        expect("_Linear", "_vectorized_predict_context", sc, is_scalar, "arm",
               extra={"is_predict": V("bool", const=True)}, tag="(is_predict=True)")
        expect("_Linear", "_vectorized_predict_context", sc, is_dict, "dictionary keyed by the arms",
               extra={"is_predict": V("bool", const=False)}, tag="(is_predict=False)")
    ctx.floor("R8.5", "unwrapping obligations", n, 40)


def _predict_form(fp):
    from .pattern import match
    body = [s for s in fp.node.body if not (isinstance(s, ast.Expr) and isinstance(s.value, ast.Constant))]
    if len(body) != 2:
        return False
    b = match("_X_ = self.predict_expectations(contexts)", body[0])
    if b is None:
        return False
    return match("""
if isinstance(_X_, dict):
    return argmax(_X_)
else:
    return [argmax(_V_) for _V_ in _X_]
""", body[1], b) is not None


def _unwrap_idiom(body):
    """Returns (True/False/None, reason)."""
    # form A: if contexts is None or len(contexts) == 1: <single returns> else: <list of len(contexts)>
    if len(body) == 1 and isinstance(body[0], ast.If) and \
            ast.unparse(body[0].test) == "contexts is None or len(contexts) == 1":
        iff = body[0]
        singles = [n for s in iff.body for n in ast.walk(s) if isinstance(n, ast.Return)]
        ok1 = bool(singles) and all(not isinstance(r.value, (ast.List, ast.ListComp)) for r in singles)
        lists = [n for s in iff.orelse for n in ast.walk(s) if isinstance(n, ast.Return)]
        ok2 = bool(lists)
        for r in lists:
            v = r.value
            if isinstance(v, ast.Name):
                defs = [n.value for s in iff.orelse for n in ast.walk(s)
                        if isinstance(n, ast.Assign) and ast.unparse(n.targets[0]) == v.id]
                v = defs[-1] if defs else v
            if not isinstance(v, ast.ListComp):
                ok2 = False
                continue
            it = ast.unparse(v.generators[0].iter)
            sized = it == "range(len(contexts))" or it.startswith("enumerate(")
            if it.startswith("enumerate("):
                arr = it[len("enumerate("):-1]
                defs = [n.value for s in iff.orelse for n in ast.walk(s)
                        if isinstance(n, ast.Assign) and ast.unparse(n.targets[0]) == arr]
                dsrc = ast.unparse(defs[-1]) if defs else ""
                sized = "((len(contexts), " in dsrc or dsrc.endswith("(len(contexts))") or \
                    "(len(contexts), " in dsrc
            ok2 = ok2 and sized
        return (ok1 and ok2), "form A: single-branch returns %d value(s), list-branch sized by len(contexts): %s" % (
            len(singles), ok2)
    # form B: with size = 1 if contexts is None else len(contexts):  if size == 1: return X[0] else: return X
    # (the analysed copy has the temporary `size` inlined; an explicit `size = ...` is accepted as well)
    from .c15 import _inline
    fn_like = ast.Module(body=list(body), type_ignores=[])
    SIZE = "1 if contexts is None else len(contexts)"
    if isinstance(body[-1], ast.If):
        iff = body[-1]
        test = " ".join(ast.unparse(_inline(fn_like, iff.test)).split())
        if test in ("(%s) == 1" % SIZE, "1 == (%s)" % SIZE):
            r1 = iff.body[0] if iff.body and isinstance(iff.body[0], ast.Return) else None
            r2 = iff.orelse[0] if iff.orelse and isinstance(iff.orelse[0], ast.Return) else None
            if r1 is None or r2 is None:
                return False, "form B without two returns"
            lst = ast.unparse(r2.value)
            ok = ast.unparse(r1.value) == "%s[0]" % lst
            # the list has `size` elements
            defs = [s.value for s in body if isinstance(s, ast.Assign) and ast.unparse(s.targets[0]) == lst]
            sized = False
            if defs and isinstance(defs[-1], ast.ListComp):
                it = defs[-1].generators[0].iter
                its = " ".join(ast.unparse(_inline(fn_like, it)).split())
                if its == "range(%s)" % SIZE:
                    sized = True
                else:
                    sized = (", %s)" % SIZE) in its or ("(%s, " % SIZE) in its or (", (%s))" % SIZE) in its or \
                        ("size=%s" % SIZE) in its
            return (ok and sized), "form B: single = list[0]: %s; list has `size` elements: %s" % (ok, sized)
    return None, "neither `if contexts is None or len(contexts) == 1` nor `size = ...; if size == 1`"


class MustAssign(PathWalker):
    def __init__(self, var):
        self.var = var

    def join(self, a, b):
        return a & b

    def on_event(self, ev, state):
        if ev.kind == "store" and isinstance(ev.node, ast.Assign):
            t = ev.node.targets[0]
            if isinstance(t, ast.Subscript) and isinstance(t.value, ast.Name) and t.value.id == self.var:
                return state | {"SET"}
        return state


def check_row_outputs(ctx, F):
    """every _predict_contexts produces exactly one result per row, in row order: a list pre-allocated with one slot
    per row and assigned at [index] once on every path of the row loop, or an empty list appended to once on every
    path; the list is what the function returns (names of locals are free)."""
    from .common import row_loop_info
    prog = ctx.prog
    n = 0
    for f in prog.all_functions():
        if f.name != "_predict_contexts" or f.is_trivial():
            continue
        info = row_loop_info(f)
        if info is None or info.out is None:
            ctx.undecided("R8.5", "%s: row loop / result list not recognised" % f.qualname, f.node, f,
                          construct="def " + f.qualname)
            continue
        n += 1
        ctx.check(info.once, "R8.5", "%s writes the row's result exactly once on every path of the row loop" %
                  f.qualname, info.loop, f, "result list `%s` (%s form)" % (info.out, info.mode),
                  construct="row loop of " + f.qualname)
        rets = _ret_exprs(f)
        ctx.check(len(rets) == 1 and ast.unparse(rets[0].value) == info.out, "R8.5",
                  "%s returns the per-row list" % f.qualname, rets[0] if rets else f.node, f,
                  construct="return of " + f.qualname)
        ctx.ok("R8.5", "%s builds one result per row" % f.qualname, info.alloc, f,
               construct="allocation in " + f.qualname)
    ctx.floor("R8.5", "_predict_contexts implementations", n, 8)


def check(ctx):
    F = facts(ctx)
    ctx.rule("R8.1", "add/remove bookkeeping is complete over every arm-keyed dictionary of the object graph")
    ctx.rule("R8.2", "fields parallel to the arm list are maintained on add/remove")
    ctx.rule("R8.3", "one shared arm list, mutated only by the facade")
    ctx.rule("R8.4", "outputs are fresh dictionaries keyed by the arms / arm labels")
    ctx.rule("R8.5", "result cardinality idioms; predictions[index] assigned on every path")
    ctx.rule("R8.6", "bandit fields computed from per-arm state (caches) are refreshed by add_arm and remove_arm")
    nk = npar = nobj = nout = 0
    for c in F.configs():
        nk += check_bookkeeping(ctx, F, c)
        npar += check_parallel_fields(ctx, F, c)
        check_arm_derived_fields(ctx, F, c)
        nobj += check_one_arm_list(ctx, F, c)
        nout += check_outputs(ctx, F, c)
    ctx.rule("R8.7", "the row partition of _parallel_predict covers every row exactly once")
    from .c05 import check_partition_arithmetic
    check_partition_arithmetic(ctx, "R8.7")
    check_unwrapping(ctx)
    check_row_outputs(ctx, F)
    ctx.floor("R8.1", "(arm-keyed dictionary, path) obligations", nk, 400)
    ctx.floor("R8.2", "arm-parallel field uses", npar, 9)
    ctx.floor("R8.3", "policy objects checked for the shared arm list", nobj, 90)
    ctx.floor("R8.4", "entry results checked", nout, 110)
