# -*- coding: utf-8 -*-
"""C05 - results do not depend on n_jobs, backend or scheduling."""

import ast

from ..facts import LP_CLASS, NP_CLASS, call_chain, calls_of, enclosing_fn, fmt_target, walk
from ..model import norm_stmt
from .common import facts, parent, value_dead
from .kill import KillWalker, dep_locations, is_object_publish, loc_of_target

EXPLANATION = (
    "The decomposition the property names, decided on the sources. (R5.1 row-locality) In the abstract trace of "
    "every _predict_contexts (5 library + 3 simulator implementations, all learning policies underneath) each "
    "generator draw reachable from the per-row loop body is traced to the abstract generator object it advances "
    "(through deepcopy provenance and nested holders such as the per-arm regression models); that object must have "
    "been created by create_rng(seeds[index]) inside the same iteration. Objects that live across iterations may "
    "only be mutated as the output slot predictions[index], as a generator rebinding, under a full reset "
    "(<policy>.fit, justified by the C07 kill analysis on that very call) or under row-invariant guards and keys. "
    "(R5.2 consistent pieces) the 4 row-partitioned Parallel sites slice every per-row argument with the same "
    "starts[i]:starts[i+1], pass starts[i] as offset, iterate range(n_jobs) from one _partition_contexts call, "
    "reduce with chain.from_iterable in submission order, and draw the per-row seeds once before partitioning. "
    "(R5.3 key-disjoint shared-memory tasks) every bandit-state write of a require='sharedmem' task is a keyed "
    "store under the task's own iteration value, iterables are duplicate free (self.arms / np.unique), task "
    "functions subscript shared dicts only with their own parameters and never iterate them. Decides the "
    "structural decomposition; that the partition sizes sum to n is integer arithmetic and is assumed.")
ASSUMPTIONS = [
    "joblib returns results in submission order; require='sharedmem' tasks are threads of one process",
    "_partition_contexts sizes sum to n with cumulative starts (integer arithmetic over run-time n, not decided)",
    "numerical kernels are single-threaded/deterministic",
    "externals table; CPython ast",
]

# externals that may look at the whole chunk because they only need its length / iterate it row by row
CHUNK_LEVEL_OK = {"len", "enumerate", "copy.deepcopy", "range", "zip"}

ROW_PARTITIONED = [("base_mab", "BaseMAB._parallel_predict"), ("approximate", "_LSHNearest._fit_operation"),
                   ("simulator", "_LSHSimulator._fit_operation"), ("simulator", "_NeighborsSimulator.calculate_distances")]


# ================================================================================================ R5.1
def _row_loop(pc_call):
    """The per-row loop of a _predict_contexts call event: the first non-comprehension `for` in its own body."""
    for ev in pc_call.children:
        if ev.kind == "for" and not ev.a.get("comp") and ev.a.get("parallel") is None:
            return ev
    return None


def _origin(eng, oid, hops=0):
    """Follow deepcopy provenance to the object that was really allocated."""
    o = eng.obj(oid)
    while o.copy_of is not None and o.copy_of[1] == () and hops < 20:
        nxt = o.copy_of[0]
        if nxt not in eng.heap.objs and nxt not in eng.persistent:
            break
        o = eng.obj(nxt)
        hops += 1
    return o


def _holder_path(eng, gen_oid):
    """Human readable location of a generator object: follow owner links."""
    parts, cur, hops = [], gen_oid, 0
    while hops < 10:
        o = eng.heap.objs.get(cur)
        if o is None or o.owner is None:
            break
        parts.append(o.owner[1])
        cur = o.owner[0]
        hops += 1
    root = eng.heap.objs.get(cur)
    return "%s%s" % (root.cls if root else "?", "".join(reversed(parts)))


def _seed_expr_ok(fn, loop_node):
    """AST part: inside the row loop every create_rng(...) argument is seeds[<enumerate index>]."""
    out = []
    if not isinstance(loop_node, ast.For):
        return out
    from .common import row_loop_info
    from .c15 import _inline
    info = row_loop_info(fn)
    idx = info.idx if info is not None and info.loop is loop_node else None
    seed = info.seed if info is not None and info.loop is loop_node else None
    params = fn.params
    for n in ast.walk(loop_node):
        if isinstance(n, ast.Call) and ast.unparse(n.func) == "create_rng":
            arg = n.args[0] if n.args else (n.keywords[0].value if n.keywords else None)
            arg = _inline(loop_node, arg) if arg is not None else None
            ok = (arg is not None and isinstance(arg, ast.Subscript) and ast.unparse(arg.value) == "seeds"
                  and "seeds" in params and idx is not None and ast.unparse(arg.slice) == idx) or \
                 (arg is not None and isinstance(arg, ast.Name) and seed is not None and arg.id == seed)
            out.append((n, ok))
    return out


def check_row_locality(ctx, F, c, root, sim, seen_impls):
    w = F.focus(c, root, sim=sim)
    eng = w.eng
    prog = ctx.prog
    for pc, anc in calls_of(root, name="_predict_contexts"):
        fn = pc.a["callee"]
        if fn.is_trivial():
            continue
        loop = _row_loop(pc)
        if loop is None:
            ctx.undecided("R5.1", "%s has no recognisable per-row loop" % fn.qualname, fn.node, fn,
                          "expected `for index, row in enumerate(contexts)`", construct="def " + fn.qualname)
            continue
        seen_impls.add(fn.qualname)
        lid = loop.a["loop_id"]
        cur = [g for (l, g) in [(l, g) for l, g in _loops_of_body(loop)] if l == lid]
        # (a) AST: seed expression
        for call, ok in _seed_expr_ok(fn, loop.node):
            ctx.check(ok, "R5.1", "row generator is seeded with seeds[index]", call, fn,
                      "create_rng argument is not seeds[<row index>] of the seeds parameter")
        # (a) every draw inside _predict_contexts
        in_loop = set()
        for ev, a2 in walk(loop):
            in_loop.add(id(ev))
        for ev, a2 in walk(pc):
            if ev.kind != "draw":
                continue
            for g in ev.a["gen"].refs:
                org = _origin(eng, g)
                stamp_ids = {l: gen for l, gen in org.stamp}
                ev_loops = {l: gen for l, gen in ev.loops}
                row = id(ev) in in_loop and lid in stamp_ids and stamp_ids[lid] == ev_loops.get(lid) \
                    and org.cls == "ext:numpy.random.Generator"
                holder = _holder_path(eng, g)
                chain = " -> ".join(f.qualname for f, _ in ev.stack[len(pc.stack):])
                user = ev.stack[-2][0] if len(ev.stack) >= 2 else ev.fn
                held_by = "%s.rng" % (user.cls.name if user.cls is not None else user.name)
                inst = "draw %s() in %s uses the row generator" % (ev.a["method"], ev.fn.qualname)
                if row:
                    ctx.ok("R5.1", inst, ev.node, ev.fn)
                else:
                    why = "outside the per-row loop" if id(ev) not in in_loop else (
                        "generator %s was not created by create_rng(seeds[index]) in this iteration (it is %s)" %
                        (holder, "bandit state" if eng.obj(g).region == "bandit" else
                         "a copy of bandit state made outside this iteration" if org.region == "bandit" else
                         "carried over from a previous row"))
                    site_fn = ev.stack[-2][0] if len(ev.stack) >= 2 else ev.fn
                    site = ev.stack[-1][1] if ev.stack else ev.node
                    ctx.violate("R5.1", "%s draws from %s, which is not the row generator, in the per-row loop of "
                                "%s" % (user.qualname, held_by, fn.qualname),
                                site, site_fn, "%s; path %s [%s%s]" % (why, chain, "sim:" if sim else "", c.name),
                                construct=_draw_construct(site))
        # (f) nothing is computed from the whole chunk of rows outside the per-row loop, except trusted row-wise maps
        for ev, a2 in walk(pc):
            if ev.kind != "ext" or id(ev) in in_loop or ev.fn is not fn:
                continue
            name = ev.a["name"]
            vals = list(ev.a.get("args", [])) + list(ev.a.get("kwargs", {}).values())
            if ev.a.get("recv") is not None and name not in (".predict",):
                vals.append(ev.a["recv"])
            chunk = [v for v in vals if ("param", "contexts") in v.deps]
            if not chunk or name in CHUNK_LEVEL_OK:
                continue
            if name == ".predict" and ev.a.get("recv") is not None and any(
                    (eng.obj(r).cls or "").startswith("ext:sklearn.") and "KMeans" in eng.obj(r).cls
                    for r in ev.a["recv"].refs if r in eng.heap.objs):
                ctx.ok("R5.1", "%s: the only chunk-level computation is the row-wise cluster assignment" %
                       fn.qualname, ev.node, ev.fn)
                continue
            ctx.violate("R5.1", "%s computes %s from the whole chunk of rows outside the per-row loop" %
                        (fn.qualname, name.lstrip(".")), ev.node, ev.fn,
                        "a value shared by the rows of a worker's chunk makes a row's result depend on which other "
                        "rows are in its chunk, i.e. on n_jobs (e.g. cdist estimates the variances of seuclidean / "
                        "mahalanobis from all rows it is given) [%s%s]" % ("sim:" if sim else "", c.name))
        # (c) objects living across iterations that are mutated in the body
        _check_carried(ctx, F, w, c, pc, loop, fn, sim)
        # (d) start_index only as start_index + index
        for n in ast.walk(fn.node):
            if isinstance(n, ast.Name) and n.id == "start_index" and isinstance(n.ctx, ast.Load):
                p = parent(n)
                ok = isinstance(p, ast.BinOp) and isinstance(p.op, ast.Add)
                ctx.check(ok, "R5.1", "start_index is only added to the row index", p if p is not None else n, fn,
                          "start_index used other than as global row identity")


def _draw_construct(site):
    """`<receiver>.<method>(...)` of the drawing call: the identity of a draw site does not include its arguments"""
    for n in ast.walk(site) if site is not None else ():
        if isinstance(n, ast.Call) and isinstance(n.func, ast.Attribute) and "rng" in ast.unparse(n.func.value):
            return "%s(...)" % ast.unparse(n.func)
    return norm_stmt(site) if site is not None else ""


def _loops_of_body(loop):
    for blk in (loop.a["body"],):
        for ev in blk:
            return ev.loops
    return ()


def _row_variant(v, loop, eng):
    """Does the value depend on the row (row data, row index, seeds, row draws)?"""
    lid = loop.a["loop_id"]
    if any(t in ("loopvar:%d" % lid, "idx:loopvar:%d" % lid) or t == "random" for t in v.tags):
        return True
    for d in v.deps:
        if isinstance(d, tuple) and d and d[0] == "draw":
            return True
        if d == ("param", "contexts"):
            return True
    return False


def _check_carried(ctx, F, w, c, pc, loop, fn, sim):
    eng = w.eng
    lid = loop.a["loop_id"]
    fit_calls = []
    for ev, anc in walk(loop):
        if ev.kind != "store":
            continue
        for t in ev.a["targets"]:
            if t.region != "fresh":
                continue
            o = eng.obj(t.oid)
            if any(l == lid for l, _ in o.stamp):
                continue            # allocated in this iteration
            if o.epoch != pc_epoch(pc, eng):
                pass
            inst = "%s mutates %s that lives across rows" % (fn.qualname, fmt_target(t))
            # output slot
            key = ev.a.get("key")
            if ev.fn is fn and ev.a["step"] == "[*]" and key is not None and "loopindex" in key.tags and \
                    "loopvar:%d" % lid in key.tags:
                ctx.ok("R5.1", "output slot written at [index]", ev.node, ev.fn)
                continue
            if ev.fn is fn and ev.a["skind"] == "mutcall:append":
                from .common import row_loop_info
                info = row_loop_info(fn)
                call = ev.node.value if isinstance(ev.node, ast.Expr) else ev.node
                if info is not None and info.mode == "append" and info.once and isinstance(call, ast.Call) and \
                        isinstance(call.func, ast.Attribute) and ast.unparse(call.func.value) == info.out:
                    ctx.ok("R5.1", "the row's result is appended to the result list exactly once per row", ev.node,
                           ev.fn)
                    continue
            if t.field == "rng" and not t.sub:
                ctx.ok("R5.1", "generator of a worker-local object is rebound per row", ev.node, ev.fn)
                continue
            if t.field is not None and t.ocls in ctx.prog.classes and value_dead(ctx.prog, t.ocls, t.field)[0]:
                ctx.ok("R5.1", "%s.%s is value-dead" % (t.ocls, t.field), ev.node, ev.fn)
                continue
            # inside a full reset?
            fitc = None
            for a in anc:
                if a.kind == "call" and a.a["callee"].name == "fit" and a.a["callee"].cls is not None and \
                        any(l == lid for l, _ in a.loops) and a.a.get("recv") is not None:
                    fitc = a
                    break
            if fitc is not None:
                if not any(fc is fitc for fc in fit_calls):
                    fit_calls.append(fitc)
                continue
            # row-invariant guards and key
            guards = [g for g in ev.guards if g not in pc.guards]
            inv = all(not _row_variant(g.val, loop, eng) for g in guards if g.node is not getattr(loop.node, 'iter', None))
            kinv = key is None or not _row_variant(key, loop, eng)
            val = ev.a.get("value")
            if inv and kinv and val is not None and not _row_variant(val, loop, eng) and \
                    not (dep_locations(eng, val.deps) & {loc_of_target(t2) for t2 in ev.a["targets"]}):
                # the same row-independent value whichever row (and however many rows) wrote it
                ctx.ok("R5.1", "value written to a worker-local object does not depend on the row", ev.node, ev.fn)
                continue
            if inv and kinv and ev.a["step"] == "[*]":
                ctx.ok("R5.1", "write into a worker-local container is keyed and guarded row-invariantly", ev.node,
                       ev.fn)
                continue
            # is what one row leaves behind ever used by the next row before that row overwrites it?
            loc = loc_of_target(t)
            kw = KillWalker(eng, w, {loc})
            kw.regions = {"fresh"}
            kw.block(loop.a["body"], set())
            if loc not in kw.early:
                ctx.ok("R5.1", "what a row leaves in a worker-local object is reset before the next row uses it",
                       ev.node, ev.fn)
                continue
            ctx.violate("R5.1", inst, ev.node, ev.fn,
                        "state written in one row's iteration can be read by the next row (%s) [%s%s]" %
                        (kw.early[loc][1], "sim:" if sim else "", c.name))
    # every object trained inside the loop is fully reset by that fit (kill analysis on the very call)
    for fitc in fit_calls:
        wanted = set()
        for ev, anc in walk(fitc):
            if ev.kind == "store" and not (is_object_publish(eng, ev) and ev.a["skind"] == "setitem"):
                for t in ev.a["targets"]:
                    if t.region == "fresh" and not any(l == lid for l, _ in eng.obj(t.oid).stamp) and \
                            t.field not in ("is_contextual_binarized", "rng"):
                        wanted.add(loc_of_target(t))
        # only state that can reach a row's output (or an exception) matters: a leftover nobody reads before the
        # next full reset cannot make the result depend on the chunking
        relevant = _relevant_locations(eng, loop, lid)
        for l in sorted(wanted - relevant, key=str):
            o = eng.obj(l[0])
            ctx.ok("R5.1", "%s.%s of the worker-local policy does not reach a row's result" % (o.cls, l[1]),
                   fitc.a["callee"].node, fitc.a["callee"], construct="def %s.fit" % fitc.a["callee"].cls.name)
        wanted &= relevant
        kw = KillWalker(eng, w, wanted)
        kw.regions = {"fresh"}
        # loops enclosing the call are irrelevant for the walk
        K = kw.call(fitc, set())
        bad = [(l, kw.early[l]) for l in kw.early] + [(l, None) for l in wanted if l not in K and l not in kw.early]
        f = fitc.a["callee"]
        if not bad:
            ctx.ok("R5.1", "%s.fit fully resets the worker-local policy before use in each row" % f.cls.name,
                   f.node, f, construct="def %s.fit" % f.cls.name)
        for loc, e in bad:
            o = eng.obj(loc[0])
            ctx.violate("R5.1", "%s.fit leaves %s.%s from the previous row" % (f.cls.name, o.cls, loc[1]),
                        (e[0].node if e else f.node), (e[0].fn if e else f),
                        "worker-local policy state carried across rows (%s) [%s]" % (e[1] if e else "not reset",
                                                                                     c.name))


def _relevant_locations(eng, loop, lid):
    """Locations whose content can flow (data or control) into the per-row output slot, an object that outlives
    the iteration, or a raise, within one iteration of the row loop."""
    R = set()
    sts = []

    def add(v):
        if v is not None:
            R.update(dep_locations(eng, v.deps))

    for ev, anc in walk(loop):
        if ev.kind == "raise":
            for g in ev.guards:
                add(g.val)
        elif ev.kind == "store":
            sts.append(ev)
            fresh_carried = [t for t in ev.a["targets"] if t.region == "fresh" and
                             not any(l == lid for l, _ in eng.obj(t.oid).stamp)]
            if any(t.region != "fresh" for t in ev.a["targets"]) or (
                    fresh_carried and all(eng.obj(t.oid).cls not in eng.prog.classes for t in fresh_carried)
                    and ev.a["step"] == "[*]"):
                # output containers (plain lists/dicts created before the loop) and anything not worker-local
                add(ev.a["value"])
                add(ev.a.get("key"))
                for g in ev.guards:
                    add(g.val)
    changed = True
    while changed:
        changed = False
        n = len(R)
        for ev in sts:
            if any(loc_of_target(t) in R for t in ev.a["targets"]):
                add(ev.a["value"])
                for g in ev.guards:
                    add(g.val)
        changed = len(R) != n
    return R


def pc_epoch(pc, eng):
    return 0


# ================================================================================================ R5.2
def _is_result(e, res_name, par):
    """e denotes the list of per-job results: the name bound to the Parallel call, the call itself, or a
    pass-through generator over it"""
    if e is par or (res_name is not None and isinstance(e, ast.Name) and e.id == res_name):
        return True
    if isinstance(e, (ast.GeneratorExp, ast.ListComp)) and len(e.generators) == 1 and not e.generators[0].ifs and \
            isinstance(e.elt, ast.Name) and isinstance(e.generators[0].target, ast.Name) and \
            e.elt.id == e.generators[0].target.id:
        return _is_result(e.generators[0].iter, res_name, par)
    return False


def _ordered_reduction(node, res_name, par):
    if isinstance(node, ast.Call):
        f = ast.unparse(node.func)
        if f == "list" and len(node.args) == 1 and isinstance(node.args[0], ast.Call):
            g = node.args[0]
            gf = ast.unparse(g.func)
            if gf in ("chain.from_iterable", "itertools.chain.from_iterable") and g.args and \
                    _is_result(g.args[0], res_name, par):
                return True
            if gf in ("chain", "itertools.chain") and len(g.args) == 1 and isinstance(g.args[0], ast.Starred) and \
                    _is_result(g.args[0].value, res_name, par):
                return True
        if f in ("np.concatenate", "np.hstack") and node.args and _is_result(node.args[0], res_name, par):
            return True
        if f == "sum" and len(node.args) == 2 and _is_result(node.args[0], res_name, par) and \
                ast.unparse(node.args[1]) in ("[]", "list()"):
            return True
    if isinstance(node, ast.ListComp) and len(node.generators) == 2 and not any(g.ifs for g in node.generators):
        g1, g2 = node.generators
        if _is_result(g1.iter, res_name, par) and isinstance(g1.target, ast.Name) and \
                isinstance(g2.iter, ast.Name) and g2.iter.id == g1.target.id and \
                isinstance(g2.target, ast.Name) and isinstance(node.elt, ast.Name) and node.elt.id == g2.target.id:
            return True
    return False


ROWWISE_CALLS = {"len", "enumerate", "zip", "np.asarray", "np.array", "np.atleast_2d", "list", "iter", "range"}


def _chunk_level_uses(fn, chunk):
    """calls in fn that are given the whole chunk parameter and are not known row-by-row maps"""
    bad = []
    for c in ast.walk(fn.node):
        if not isinstance(c, ast.Call):
            continue
        f = ast.unparse(c.func)
        direct = [i for i, a in enumerate(c.args) if isinstance(a, ast.Name) and a.id == chunk] + \
                 [k.arg for k in c.keywords if isinstance(k.value, ast.Name) and k.value.id == chunk]
        recv = isinstance(c.func, ast.Attribute) and isinstance(c.func.value, ast.Name) and c.func.value.id == chunk
        if not direct and not recv:
            continue
        if f in ROWWISE_CALLS:
            continue
        if f in ("np.dot", "np.matmul") and direct == [0]:
            continue                    # X . P: every output row depends on its own input row only
        if recv and c.func.attr in ("dot", "astype", "copy", "reshape", "tolist"):
            continue
        bad.append((c, ast.unparse(c)))
    return bad


def check_partition_sites(ctx, rule="R5.2", only=None):
    prog = ctx.prog
    n = 0
    for modname, qual in ROW_PARTITIONED:
        if only is not None and qual not in only:
            continue
        cls, meth = qual.split(".")
        fn = prog.method(cls, meth)
        ctx.saw_fn(fn)
        par = None
        for node in ast.walk(fn.node):
            if isinstance(node, ast.Call) and isinstance(node.func, ast.Call) and \
                    ast.unparse(node.func.func) == "Parallel" and not any(
                        k.arg == "require" for k in node.func.keywords):
                par = node
        if par is None:
            ctx.undecided(rule, "row-partitioned Parallel site in %s" % qual, fn.node, fn,
                          "no Parallel(...)(...) call without require= found", construct="def " + qual)
            continue
        n += 1
        from .pattern import find, match
        gen = par.args[0]
        g = gen.generators[0]
        ivar = ast.unparse(g.target)
        task = gen.elt
        # the partition call (names of the three results are free)
        part, pb = find("_NJ_, _NC_, _ST_ = self._partition_contexts(_EA_)", fn.node)
        okp = part is not None and part.lineno < par.lineno
        ctx.check(okp, rule, "%s: n_jobs and starts come from one _partition_contexts call before the tasks" % qual,
                  part if part is not None else par, fn,
                  "expected `n_jobs, counts, starts = self._partition_contexts(<number of rows>)` before the "
                  "Parallel call: slices, offsets and the number of tasks must all come from that one partition")
        if not okp:
            continue
        NJ, ST = pb["_NJ_"], pb["_ST_"]
        # How does one task see its chunk? LO / HI are the chunk's bounds in terms of the task's iteration variable.
        #   range form      for i in range(n_jobs):                       LO = starts[i],  HI = starts[i + 1]
        #   pair form       for lo, hi in zip(starts[:-1], starts[1:]):   LO = lo,         HI = hi
        #   slice objects   for s in [slice(starts[i], starts[i + 1]) for i in range(n_jobs)]:   x[s] == x[LO:HI]
        #   chunk list      for c in [rows[starts[i]:starts[i + 1]] for i in range(n_jobs)]:     c == rows[LO:HI]
        it = g.iter
        it_def = None
        if isinstance(it, ast.Name):
            dd = [x.value for x in ast.walk(fn.node) if isinstance(x, ast.Assign) and len(x.targets) == 1 and
                  isinstance(x.targets[0], ast.Name) and x.targets[0].id == it.id]
            it_def = dd[0] if len(dd) == 1 else None
        its = " ".join(ast.unparse(it).split())
        if it_def is not None:
            # the list of (lo, hi) pairs given a name: bounds = list(zip(starts[:-1], starts[1:]))
            d_ = it_def
            if isinstance(d_, ast.Call) and ast.unparse(d_.func) in ("list", "tuple") and len(d_.args) == 1:
                d_ = d_.args[0]
            dt = " ".join(ast.unparse(d_).split())
            if dt in ("zip(%s[:-1], %s[1:])" % (ST, ST), "zip(%s, %s[1:])" % (ST, ST)):
                its = dt
        form = None
        subst = {}
        if its == "range(%s)" % NJ and isinstance(g.target, ast.Name):
            form = "range"
            lo_t, hi_t = "%s[%s]" % (ST, ivar), "%s[%s + 1]" % (ST, ivar)
        elif its in ("zip(%s[:-1], %s[1:])" % (ST, ST), "zip(%s, %s[1:])" % (ST, ST)) and \
                isinstance(g.target, ast.Tuple) and \
                len(g.target.elts) == 2 and all(isinstance(e, ast.Name) for e in g.target.elts):
            form = "pairs"
            lo_t, hi_t = g.target.elts[0].id, g.target.elts[1].id
        elif it_def is not None and isinstance(g.target, ast.Name):
            m1 = match("[slice(%s[_I_], %s[_I_ + 1]) for _I_ in range(%s)]" % (ST, ST, NJ), it_def)
            m2 = match("[_EX_[%s[_I_]:%s[_I_ + 1]] for _I_ in range(%s)]" % (ST, ST, NJ), it_def)
            if m1 is None:
                m1 = match("[slice(_LO_, _HI_) for _LO_, _HI_ in zip(%s[:-1], %s[1:])]" % (ST, ST), it_def) or \
                    match("[slice(_LO_, _HI_) for _LO_, _HI_ in zip(%s, %s[1:])]" % (ST, ST), it_def)
            if m2 is None:
                m2 = match("[_EX_[_LO_:_HI_] for _LO_, _HI_ in zip(%s[:-1], %s[1:])]" % (ST, ST), it_def) or \
                    match("[_EX_[_LO_:_HI_] for _LO_, _HI_ in zip(%s, %s[1:])]" % (ST, ST), it_def)
            if m1 is not None:
                form = "slices"
                lo_t, hi_t = "%s.start" % g.target.id, "%s.stop" % g.target.id
                subst = {"slice": g.target.id}
            elif m2 is not None:
                form = "chunks"
                lo_t = hi_t = None
                subst = {"chunk": g.target.id, "of": m2["_EX_"]}
        ctx.check(form is not None, rule, "%s: the tasks run over the consecutive chunks of the partition" % qual, par,
                  fn, "iterable is %s" % its, construct="task iterable of " + qual)
        if form is None:
            continue
        pkw = {k.arg: ast.unparse(k.value) for k in par.func.keywords}
        ctx.check(pkw.get("n_jobs") == NJ, rule, "%s: Parallel runs with the n_jobs of the partition" % qual, par, fn,
                  "n_jobs=%s" % pkw.get("n_jobs"), construct="Parallel n_jobs of " + qual)

        def chunk_of(a):
            """name of the array of which argument `a` is the task's chunk, or None"""
            if form in ("range", "pairs") and isinstance(a, ast.Subscript) and isinstance(a.slice, ast.Slice) and \
                    a.slice.step is None and a.slice.lower is not None and a.slice.upper is not None and \
                    ast.unparse(a.slice.lower) == lo_t and ast.unparse(a.slice.upper) == hi_t:
                return ast.unparse(a.value)
            if form == "slices" and isinstance(a, ast.Subscript) and ast.unparse(a.slice) == subst["slice"]:
                return ast.unparse(a.value)
            if form == "chunks" and isinstance(a, ast.Name) and a.id == subst["chunk"]:
                return subst["of"]
            return None
        sl = [a for a in task.args if chunk_of(a) is not None]
        anysl = [a for a in task.args if chunk_of(a) is not None or
                 isinstance(a, ast.Subscript) and isinstance(a.slice, ast.Slice)]
        okb = bool(sl) and len(sl) == len(anysl)
        ctx.check(okb, rule, "%s: every per-row argument is the task's own chunk [lo:hi]" % qual, task, fn,
                  "slices: %s" % [ast.unparse(a) for a in anysl], construct="task slices of " + qual)
        sliced = [chunk_of(a) for a in sl]
        # the partitioned length is the length of the sliced array
        arg = pb["_EA_"]
        lens = {"len(%s)" % x for x in sliced}
        src_ok = arg in lens
        if not src_ok:
            for node in ast.walk(fn.node):
                if isinstance(node, ast.Assign) and ast.unparse(node.targets[0]) == arg and \
                        ast.unparse(node.value) in lens and node.lineno < part.lineno:
                    src_ok = True
        ctx.check(src_ok, rule, "%s: the partition is computed from the length of the sliced rows" % qual, part,
                  fn, "_partition_contexts(%s) vs sliced %s" % (arg, sliced), construct="partition source of " + qual)
        # offset argument
        callee_name = ast.unparse(task.func.args[0]).split(".")[-1]
        off_pos = None
        for cand in prog.all_functions():
            if cand.name == callee_name and "start_index" in cand.params:
                off_pos = cand.params.index("start_index") - (0 if cand.is_static else 1)
        for pos, a in enumerate(task.args):
            if a in sl:
                continue
            s_ = ast.unparse(a)
            if (isinstance(a, ast.Subscript) and ast.unparse(a.value) == ST) or pos == off_pos:
                ctx.check(lo_t is not None and s_ == lo_t, rule, "%s: the offset argument is the chunk's lower bound" %
                          qual, a, fn, "offset %s" % s_, construct="offset argument of " + qual)
        # per-row seeds: a sliced name that was drawn from the bandit generator
        seeds_stmt = None
        seeds_name = None
        for nm in sliced:
            for node in ast.walk(fn.node):
                if isinstance(node, ast.Assign) and ast.unparse(node.targets[0]) == nm and \
                        ast.unparse(node.value).startswith("self.rng."):
                    seeds_stmt, seeds_name = node, nm
        if meth == "_parallel_predict" or seeds_stmt is not None:
            ctx.check(seeds_stmt is not None and len(sl) >= 2, rule, "%s: the per-row seeds are sliced with the "
                      "same bounds as the rows" % qual, task, fn, construct="seed slices of " + qual)
            oks = seeds_stmt is not None and seeds_stmt.lineno < par.lineno
            size = None
            if oks:
                for k in seeds_stmt.value.keywords:
                    if k.arg == "size":
                        size = ast.unparse(k.value)
            total_ok = False
            if size is not None:
                rows = [x for x in sliced if x != seeds_name]
                # the total row count: the length of the rows, the sum of the chunk sizes, or the last boundary
                totals = ["sum(%s)" % pb["_NC_"], "%s[-1]" % ST] + ["len(%s)" % r for r in rows]
                # (a name that held the row count before it was rebound by the partition call)
                for node in ast.walk(fn.node):
                    if isinstance(node, ast.Assign) and len(node.targets) == 1 and \
                            isinstance(node.targets[0], ast.Name) and node.lineno < part.lineno and \
                            ast.unparse(node.value) in ["len(%s)" % r for r in rows] and \
                            node.targets[0].id not in (pb["_NJ_"], pb["_NC_"], ST):
                        totals.append(node.targets[0].id)
                if size in totals:
                    total_ok = True
                for node in ast.walk(fn.node):
                    if isinstance(node, ast.Assign) and ast.unparse(node.targets[0]) == size and \
                            ast.unparse(node.value) in totals:
                        total_ok = True
            ctx.check(bool(oks and total_ok), rule, "%s: one seed per row is drawn from the bandit generator "
                      "before the tasks start, with a size that is the total row count" % qual,
                      seeds_stmt if seeds_stmt is not None else par, fn, "size=%s" % size,
                      construct="seed draw of " + qual)
        # the task itself is row-local: whatever it computes from its chunk of rows is computed row by row
        if callee_name != "_predict_contexts":          # those bodies are decided by R5.1 on the traces
            cands = [f for f in prog.all_functions() if f.name == callee_name and f.cls is not None and (
                f.cls.name == cls or any(k.name == f.cls.name for k in prog.cls(cls).mro))]
            for tf in cands[:1]:
                ctx.saw_fn(tf)
                off = 0 if tf.is_static else 1
                for pos, a in enumerate(task.args):
                    if a not in sl or pos + off >= len(tf.params):
                        continue
                    chunk = tf.params[pos + off]
                    bad = _chunk_level_uses(tf, chunk)
                    inst = "%s handles the rows of its chunk `%s` one by one" % (tf.qualname, chunk)
                    if not bad:
                        ctx.ok(rule, inst, tf.node, tf, construct="def %s (row-local task)" % tf.qualname)
                    for node, what in bad:
                        ctx.violate(rule, inst, node, tf, "`%s` is computed from the whole chunk: a value shared "
                                    "by the rows of one worker depends on how the rows were partitioned, i.e. on "
                                    "n_jobs (e.g. cdist estimates the parameters of seuclidean / mahalanobis from all "
                                    "rows it is given)" % what)
        # ordered reduction: the per-job results are joined completely and in submission order
        pstmt = parent(par)
        res_name = ast.unparse(pstmt.targets[0]) if isinstance(pstmt, ast.Assign) and len(pstmt.targets) == 1 and \
            isinstance(pstmt.targets[0], ast.Name) else None
        red = None
        for node in ast.walk(fn.node):
            if getattr(node, "lineno", 0) >= par.lineno and _ordered_reduction(node, res_name, par):
                red = node
                break
        ctx.check(red is not None, rule, "%s: results are concatenated in submission order" % qual,
                  red if red is not None else par, fn, "no list(chain.from_iterable(r)) / np.concatenate(r) / "
                  "[y for x in r for y in x] over the Parallel result `%s` found (a merge that can drop or reorder "
                  "per-job results makes the outcome depend on the partition)" % res_name,
                  construct="reduction of " + qual)
    ctx.floor(rule, "row-partitioned Parallel sites", n, 4 if only is None else len(only))


def check_partition_arithmetic(ctx, rule):
    """_partition_contexts splits n rows into n_jobs consecutive chunks that cover every row exactly once: chunk
    sizes are the quotient n // j, the first n % j of them one larger (their sum is j*(n//j) + n%j = n for every n
    and j >= 1), and the starts are their running sum with a leading 0. Decided symbolically on the expressions
    (single-assignment locals inlined), not on sample values."""
    from .pattern import find, find_all, match
    from .c15 import _inline
    prog = ctx.prog
    fn = prog.method("BaseMAB", "_partition_contexts")
    ctx.saw_fn(fn)
    n = fn.params[1]

    keep = set()

    def T(e):
        return " ".join(ast.unparse(_inline(fn.node, e, stop=keep)).split())
    sz, sb = find("_S_ = np.full(_EJ_, _EQ_, dtype=int)", fn.node)
    if sz is None:
        sz, sb = find("_S_ = np.full(_EJ_, _EQ_)", fn.node)
    ok = sz is not None
    detail = "chunk sizes are not built as np.full(n_jobs, quotient) (+1 for the first n % n_jobs) nor as " \
             "[q + 1 if i < r else q for i in range(n_jobs)]"
    if not ok:
        # plain-python form: sizes by comprehension, starts by a running sum
        lz, lb = find("_S_ = [_EQ_ + 1 if _I_ < _ER_ else _EQ_ for _I_ in range(_EJ_)]", fn.node)
        if lz is None:
            lz, lb = find("_S_ = [_EQ_ + (_I_ < _ER_) for _I_ in range(_EJ_)]", fn.node)
        if lz is not None:
            S = lb["_S_"]
            keep.add(S)
            J = T(ast.parse(lb["_EJ_"], mode="eval").body)
            ok_q = T(ast.parse(lb["_EQ_"], mode="eval").body) == "%s // %s" % (n, J)
            ok_r = T(ast.parse(lb["_ER_"], mode="eval").body) == "%s %% %s" % (n, J)
            # starts = [0]; for x in sizes: starts.append(starts[-1] + x)
            st0, stb = find("_ST_ = [0]", fn.node)
            ok_st = False
            if st0 is not None:
                keep.add(stb["_ST_"])
                lpn, _ = find("for _X_ in %s:\n    %s.append(%s[-1] + _X_)" % (S, stb["_ST_"], stb["_ST_"]), fn.node)
                ok_st = lpn is not None and len([x for x in ast.walk(fn.node) if isinstance(x, ast.Call) and
                                                 ast.unparse(x.func) == "%s.append" % stb["_ST_"]]) == 1
            rets = [r for r in fn.node.body if isinstance(r, ast.Return)]
            ok_ret = bool(rets) and isinstance(rets[-1].value, ast.Tuple) and len(rets[-1].value.elts) == 3 and \
                T(rets[-1].value.elts[0]) == J and ast.unparse(rets[-1].value.elts[1]) in (S, "list(%s)" % S) and \
                st0 is not None and ast.unparse(rets[-1].value.elts[2]) == stb["_ST_"]
            ok = ok_q and ok_r and ok_st and ok_ret
            detail = "quotient: %s; remainder prefix: %s; running-sum starts: %s; returns (n_jobs, sizes, starts): %s" \
                     % (ok_q, ok_r, ok_st, ok_ret)
            sz = None
    if ok and sz is not None:
        S = sb["_S_"]
        keep.add(S)
        J = T(ast.parse(sb["_EJ_"], mode="eval").body)
        Q = T(ast.parse(sb["_EQ_"], mode="eval").body)
        incs = [x for x in ast.walk(fn.node) if isinstance(x, ast.AugAssign) and isinstance(x.target, ast.Subscript)
                and ast.unparse(x.target.value) == S]
        ok_q = Q == "%s // %s" % (n, J)
        ok_r = len(incs) == 1 and isinstance(incs[0].op, ast.Add) and ast.unparse(incs[0].value) == "1" and \
            isinstance(incs[0].target.slice, ast.Slice) and incs[0].target.slice.lower is None and \
            incs[0].target.slice.step is None and incs[0].target.slice.upper is not None and \
            T(incs[0].target.slice.upper) == "%s %% %s" % (n, J)
        rets = [r for r in fn.node.body if isinstance(r, ast.Return)]
        ok_ret = False
        if rets and isinstance(rets[-1].value, ast.Tuple) and len(rets[-1].value.elts) == 3:
            e0, e1, e2 = rets[-1].value.elts
            ok_ret = T(e0) == J and ast.unparse(e1) in ("%s.tolist()" % S, "list(%s)" % S, S) and \
                T(e2) in ("[0] + np.cumsum(%s).tolist()" % S, "[0] + list(np.cumsum(%s))" % S)
        ok = ok_q and ok_r and ok_ret
        detail = "quotient n // n_jobs: %s (`%s`); first n %% n_jobs chunks one larger: %s (`%s`); returns " \
                 "(n_jobs, sizes, [0] + cumsum(sizes)): %s" % (
                     ok_q, Q, ok_r, T(incs[0].target.slice.upper) if len(incs) == 1 and isinstance(
                         incs[0].target.slice, ast.Slice) and incs[0].target.slice.upper is not None else "?", ok_ret)
    if not ok:
        # form C, integer arithmetic: sizes = [q + 1] * r + [q] * (j - r) with q = n // j, r = n % j (sum: n), starts =
        # the running sums with a leading 0 (itertools.accumulate(sizes, initial=0) or [0] + list(accumulate(sizes)))
        rets = [r for r in ast.walk(fn.node) if isinstance(r, ast.Return) and r.value is not None]
        if len(rets) == 1 and isinstance(rets[0].value, ast.Tuple) and len(rets[0].value.elts) == 3:
            e0, e1, e2 = [T(x) for x in rets[0].value.elts]
            J = e0
            q, r_ = "%s // %s" % (n, J), "%s %% %s" % (n, J)
            sizes = ("[%s + 1] * (%s) + [%s] * (%s - %s)" % (q, r_, q, J, r_),
                     "[%s + 1] * (%s) + [%s] * (%s - (%s))" % (q, r_, q, J, r_))
            ok_s = e1 in sizes or e1 in tuple("list(%s)" % x for x in sizes)
            ok_t = any(e2 in ("list(accumulate(%s, initial=0))" % x, "[0] + list(accumulate(%s))" % x,
                              "list(itertools.accumulate(%s, initial=0))" % x) for x in sizes)
            ok_j = "_effective_jobs(" in J
            if ok_s and ok_t and ok_j:
                ok = True
            detail += "; integer form: sizes %s, starts %s" % (ok_s, ok_t)
    ctx.check(ok, rule, "_partition_contexts covers the n rows exactly once with consecutive chunks", fn.node, fn,
              detail, construct="def BaseMAB._partition_contexts (arithmetic)")
    ej = prog.method("BaseMAB", "_effective_jobs")
    ctx.saw_fn(ej)
    size, nj = ej.params[0], ej.params[1]
    body = [x for x in ej.node.body if not (isinstance(x, ast.Expr) and isinstance(x.value, ast.Constant))]
    txt = [" ".join(ast.unparse(x).split()) for x in body]
    rets = [x for x in ast.walk(ej.node) if isinstance(x, ast.Return)]
    # every returned value is capped by the number of rows: `return min(<jobs>, size)`, or `n_jobs = min(n_jobs, size)`
    # as the last assignment before `return n_jobs`
    capped = bool(rets) and all(match("min(_EA_, %s)" % size, r.value) is not None or
                                match("min(%s, _EA_)" % size, r.value) is not None for r in rets if r.value is not None)
    ok_e = capped or (any(t == "%s = min(%s, %s)" % (nj, nj, size) or t == "%s = min(%s, %s)" % (nj, size, nj)
                          for t in txt) and txt[-1] == "return %s" % nj)
    ctx.check(ok_e, rule, "_effective_jobs never exceeds the number of rows (no empty chunk is asked to predict)",
              ej.node, ej, "body: %s" % txt, construct="def BaseMAB._effective_jobs")


# ================================================================================================ R5.3
def check_sharedmem(ctx, F, c, root, w, seen_tasks):
    eng = w.eng
    arms = w.skeleton.objs[w.mab_oid].fields["arms"].refs
    for ev, anc in walk(root):
        if ev.kind != "for" or not ev.a.get("parallel") or ev.a["parallel"].get("require") != "sharedmem":
            continue
        lid = ev.a["loop_id"]
        it = ev.a["iter"]
        task_fn = None
        for ch in ev.a["body"]:
            if ch.kind == "call":
                task_fn = ch.a["callee"]
            elif ch.kind == "dispatch":
                for a in ch.a["alts"]:
                    if a.kind == "call":
                        task_fn = a.a["callee"]
        if task_fn is None or task_fn.is_trivial():
            continue
        seen_tasks.add(task_fn.qualname)
        dupfree = bool(it.refs & arms) or "unique" in it.tags
        site_fn = ev.fn
        ctx.check(dupfree, "R5.3", "tasks of %s range over a duplicate-free iterable" % task_fn.qualname, ev.node,
                  site_fn, "iterable %s is neither self.arms nor np.unique(...)" % ast.unparse(ev.a["iter_node"]))
        tag = "loopvar:%d" % lid
        for sev, a2 in walk(ev):
            if sev.kind != "store":
                continue
            for t in sev.a["targets"]:
                if t.region != "bandit":
                    continue
                key = sev.a.get("key")
                keyed = bool(t.sub) and t.sub[-1] == "[*]" and key is not None and tag in key.tags
                if not keyed and t.sub:
                    # writes below an element selected by the task's own key (e.g. F[arm][leaf] = ..)
                    base = sev.a.get("base")
                    keyed = base is not None and ("idx:" + tag) in base.tags
                ctx.check(keyed, "R5.3", "shared-memory task %s writes only under its own key (%s)" %
                          (task_fn.qualname, fmt_target(t)), sev.node, sev.fn,
                          "%s store to shared state not keyed by the task's iteration value [%s]" %
                          (sev.a["skind"], c.name))


def check_task_functions(ctx):
    """AST: task functions subscript shared dicts of self only with their own parameters, never iterate them."""
    prog = ctx.prog
    tasks = [prog.method(c, "_fit_arm") for c in ("_EpsilonGreedy", "_UCB1", "_Softmax", "_ThompsonSampling",
                                                  "_Linear", "_TreeBandit")]
    # the LSH bucket writers are tasks only as long as _fit_operation files the buckets through them
    tasks += [f for f in (prog.cls("_LSHNearest").methods.get("_add_neighbors"),
                          prog.cls("_LSHSimulator").methods.get("_add_neighbors")) if f is not None]
    n = 0
    for fn in tasks:
        ctx.saw_fn(fn)
        params = set(fn.params[1:])
        locals_from_params = set(params)
        for node in ast.walk(fn.node):
            if isinstance(node, ast.Attribute) and isinstance(node.value, ast.Name) and node.value.id == "self" \
                    and isinstance(node.ctx, ast.Load):
                p = parent(node)
                if isinstance(p, ast.Subscript) and p.value is node:
                    names = {x.id for x in ast.walk(p.slice) if isinstance(x, ast.Name)}
                    n += 1
                    ctx.check(bool(names) and names <= params, "R5.3",
                              "%s subscripts self.%s only with its own task parameters" % (fn.qualname, node.attr),
                              p, fn, "index uses %s, task parameters are %s" % (sorted(names), sorted(params)))
                elif isinstance(p, (ast.For, ast.comprehension)) and p.iter is node:
                    ctx.violate("R5.3", "%s iterates shared self.%s inside a task" % (fn.qualname, node.attr), p, fn,
                                "a task reads other tasks' entries while they are being written")
                elif isinstance(p, ast.Attribute) and p.attr in ("values", "items", "keys") and \
                        isinstance(parent(p), ast.Call):
                    ctx.violate("R5.3", "%s reads all entries of shared self.%s inside a task" %
                                (fn.qualname, node.attr), parent(p), fn,
                                "a task reads other tasks' entries while they are being written")
    ctx.floor("R5.3", "subscripts of shared state in task functions", n, 20)


# ================================================================================================ driver
def check(ctx):
    F = facts(ctx)
    ctx.rule("R5.1", "row-locality of every _predict_contexts loop body: all draws on a generator created by "
                     "create_rng(seeds[index]) in the same iteration; cross-row objects only mutated as output "
                     "slot / generator rebinding / under a full reset / row-invariantly")
    ctx.rule("R5.2", "row-partitioned Parallel sites slice consistently, pass the lower bound as offset, reduce in "
                     "order, draw seeds once before partitioning")
    ctx.rule("R5.3", "require='sharedmem' task groups write only under their own key over duplicate-free iterables")
    seen_impls, seen_tasks = set(), set()
    for c in F.configs():
        if c.np is not None:
            for label in ("predict", "predict_expectations"):
                root = F.trace(c, label)
                check_row_locality(ctx, F, c, root, False, seen_impls)
        for label in ("fit", "partial_fit"):
            root = F.trace(c, label)
            w = F.focus(c, root)
            check_sharedmem(ctx, F, c, root, w, seen_tasks)
    for c in F.sim_configs():
        for label in ("predict", "predict_expectations"):
            root = F.trace(c, label, sim=True)
            check_row_locality(ctx, F, c, root, True, seen_impls)
        for label in ("fit", "partial_fit"):
            root = F.trace(c, label, sim=True)
            w = F.focus(c, root, sim=True)
            check_sharedmem(ctx, F, c, root, w, seen_tasks)
    check_partition_sites(ctx)
    check_partition_arithmetic(ctx, "R5.2")
    check_task_functions(ctx)
    ctx.floor("R5.1", "_predict_contexts implementations analysed", len(seen_impls), 8)
    ctx.floor("R5.3", "shared-memory task functions analysed", len(seen_tasks), 8)
    ctx.note("row loops analysed in: %s" % sorted(seen_impls))
    ctx.note("shared-memory tasks: %s" % sorted(seen_tasks))
