# -*- coding: utf-8 -*-
"""C20 - results are invariant to arm names (label opacity) and row selections are joint."""

import ast

from ..facts import walk
from ..model import norm_stmt
from .common import facts, parent
from .c01 import check_selectors

EXPLANATION = (
    "Parametricity (label opacity) by taint tracking in the abstract interpreter. Values are tagged as arm labels "
    "at their sources (elements of the arms argument and of MAB.arms, the arm argument of add_arm/remove_arm, the "
    "elements of decisions, keys of arm-keyed dictionaries, keys of arm_to_features) and the tag flows through "
    "copies, container constructions, np.unique/np.array/tolist, iteration and dictionary-key selection. On the "
    "traces of MAB.__init__ and of every public entry point of all 55 configurations a label may only be compared "
    "for equality, used as a key/subscript, tested for membership, stored, zipped or passed on. An ordering "
    "comparison, arithmetic on a label, sorted/min/max/sort/argsort over labels without a key= that maps them to "
    "non-label values, hash() of a label, or iteration over a set of labels is a violation (R20.1). Joint "
    "indexing (R20.2): every _fit_arm selects all data arrays with one selector built from decisions == arm, the "
    "neighbourhood training call uses one selector for the three history arrays (C03/C12), and the binarizer pairs "
    "decisions[index] with the reward at the same index. Decides that outputs can depend on labels only through "
    "equality - i.e. renaming arms renames outputs; row-order invariance of floating point sums and the reward "
    "shift/scale laws are algebra over run-time numbers and are not decided.")
ASSUMPTIONS = ["numpy elementwise == on label arrays is equality of labels (mixed-type label lists coerced by "
               "np.array are outside the claim)", "externals table (label flow through copies/constructors)",
               "CPython ast"]

ORDERING_CALLS = {"sorted", "min", "max", "numpy.sort", "numpy.argsort", ".sort", "numpy.max", "numpy.min",
                  "numpy.argmax", "numpy.argmin", "hash", "sum", "numpy.sum", ".argsort", "reversed"}


def check_binarizer_pairing(ctx, F, rule):
    """The binarizer is applied to (decision, reward) of one and the same observation (shared by C14 and C20)."""
    prog = ctx.prog
    fb = prog.method("_ThompsonSampling", "_get_binary_rewards")
    ctx.saw_fn(fb)
    gens = [g for g in ast.walk(fb.node) if isinstance(g, (ast.GeneratorExp, ast.ListComp))]
    ok = False
    for g in gens:
        # form A: one pass over the rows; every spelling of the row loop binds names to <array>[I]
        if len(g.generators) != 1 or g.generators[0].ifs or not isinstance(g.elt, ast.Call) or \
                ast.unparse(g.elt.func) != "self.binarizer" or g.elt.keywords or len(g.elt.args) != 2:
            continue
        tg, it = g.generators[0].target, g.generators[0].iter
        bind = {}
        its = " ".join(ast.unparse(it).split())
        names = [e.id if isinstance(e, ast.Name) else None for e in tg.elts] if isinstance(tg, ast.Tuple) else None
        if isinstance(it, ast.Call) and ast.unparse(it.func) == "enumerate" and len(it.args) == 1 and \
                isinstance(it.args[0], ast.Name) and names and len(names) == 2 and all(names):
            bind = {names[0]: "I", names[1]: "%s[I]" % it.args[0].id}
        elif isinstance(it, ast.Call) and ast.unparse(it.func) == "zip" and names and len(names) == len(it.args) \
                and all(names) and all(isinstance(a, ast.Name) for a in it.args):
            bind = {n: "%s[I]" % a.id for n, a in zip(names, it.args)}
        elif its in ("range(len(rewards))", "range(len(decisions))", "range(rewards.size)", "range(decisions.size)",
                     "range(rewards.shape[0])", "range(decisions.shape[0])") and isinstance(tg, ast.Name):
            bind = {tg.id: "I"}
        if not bind:
            continue

        def sub(a):
            import copy

            class R(ast.NodeTransformer):
                def visit_Name(self, n):
                    return ast.parse(bind[n.id], mode="eval").body if n.id in bind else n
            return " ".join(ast.unparse(R().visit(copy.deepcopy(a))).split())
        if [sub(a) for a in g.elt.args] == ["decisions[I]", "rewards[I]"]:
            ok = True
    if not ok:
        # form B: arm by arm through one mask:  for a in np.unique(decisions): m = decisions == a;
        #                                        out[m] = [self.binarizer(a, v) for v in rewards[m]]
        from .pattern import find
        from ..model import canon_eq
        for loop in [x for x in ast.walk(fb.node) if isinstance(x, ast.For) and isinstance(x.target, ast.Name)]:
            a = loop.target.id
            if ast.unparse(loop.iter) not in ("np.unique(decisions)", "set(decisions)", "np.unique(decisions).tolist()"):
                continue
            mn, mb = find("_M_ = %s" % canon_eq("decisions", a), loop)
            if mn is None:
                continue
            sn, _ = find("_OUT_[_M_] = [self.binarizer(%s, _V_) for _V_ in rewards[_M_]]" % a, loop, mb)
            ok = sn is not None
    ctx.check(ok, rule, "the binarizer receives the decision and the reward of the same row", fb.node, fb,
              "neither `self.binarizer(decisions[i], value) for i, value in enumerate(rewards)` nor the arm-by-arm "
              "form over one mask of `decisions == arm`", construct="def _ThompsonSampling._get_binary_rewards")
    # on the traces: decisions and rewards handed to _get_binary_rewards stem from the same rows
    from ..facts import calls_of
    n_al = 0
    for c in F.configs(lp=["ThompsonSampling"], binarizer=True):
        for lab in ("fit", "partial_fit"):
            root = F.trace(c, lab)
            w = F.focus(c, root)
            for ev, anc in calls_of(root, name="_get_binary_rewards"):
                dv, rv = ev.a["args"].get("decisions"), ev.a["args"].get("rewards")
                if dv is None or rv is None:
                    continue

                def hist(v):
                    return any(isinstance(d, tuple) and len(d) == 2 and isinstance(d[0], int) and d[1] and
                               d[1][0] in (".decisions", ".rewards", ".raw_rewards") for d in v.deps)

                def batch(v, name):
                    return ("param", name) in v.deps
                n_al += 1
                aligned = hist(dv) == hist(rv) and batch(dv, "decisions") and batch(rv, "rewards")
                caller = anc[-1].a["callee"] if anc and anc[-1].kind == "call" else ev.fn
                ctx.check(aligned, rule, "the binarizer is given decisions and rewards of the same rows", ev.node,
                          caller, "decisions %s the stored history, rewards %s: (decision, reward) pairs are "
                          "misaligned [%s %s]" % ("include" if hist(dv) else "exclude",
                                                  "include it" if hist(rv) else "exclude it", c.name, lab))
    ctx.floor(rule, "binarizer call sites on training traces", n_al, 10)


def check(ctx):
    F = facts(ctx)
    prog = ctx.prog
    ctx.rule("R20.1", "arm labels are opaque: equality, keys, membership, storage, passing - nothing else")
    ctx.rule("R20.2", "decisions, rewards and contexts are indexed jointly; binarizer pairs (decision, reward) of "
                      "one row")
    n_ops = n_calls = n_tagged = 0
    for c in F.configs():
        w = F.world(c)
        roots = [("__init__", F.init_trace(c))] + [(lab, F.trace(c, lab)) for lab in F.entry_labels(c)]
        for label, root in roots:
            F.focus(c, root)
            eng = w.eng
            for ev, anc in walk(root):
                if ev.kind == "labelop":
                    n_ops += 1
                    ctx.violate("R20.1", "%s applied to an arm label" % ev.a["op"], ev.node, ev.fn,
                                "arm labels must stay opaque (renaming or retyping the arms would change the result) "
                                "[%s %s]" % (c.name, label))
                elif ev.kind == "ext":
                    name = ev.a["name"]
                    args = ev.a.get("args", [])
                    a0 = ev.a.get("recv") if ev.a.get("recv") is not None else (args[0] if args else None)
                    if a0 is None:
                        continue
                    lab_coll = eng.is_label_collection(a0) or "label" in a0.tags
                    lab_dict = any(eng.obj(r).cls == "dict" and eng.obj(r).keys is not None and
                                   "label" in eng.obj(r).keys.tags for r in a0.refs if r in eng.heap.objs)
                    # a collection of tuples with a label component: ordering the tuples falls through to the
                    # labels whenever the earlier components tie
                    lab_tuple = False
                    for r in a0.refs:
                        o = eng.heap.objs.get(r)
                        el = o.elem if o is not None else None
                        if el is not None and el.extra is not None and el.extra[0] == "tuple" and any(
                                "label" in x.tags or "labels" in x.tags for x in el.extra[1]):
                            lab_tuple = True
                    if lab_tuple and name in ("min", "max", "sorted", ".sort") and \
                            ev.a.get("kwargs", {}).get("key") is None:
                        n_calls += 1
                        ctx.violate("R20.1", "%s over tuples that contain an arm label" % name.lstrip("."), ev.node,
                                    ev.fn, "tuples are compared component by component: when the other components "
                                    "tie, the labels are compared, so the result depends on the arm names "
                                    "[%s %s]" % (c.name, label))
                        continue
                    if lab_coll or lab_dict:
                        n_tagged += 1
                    if name not in ORDERING_CALLS:
                        continue
                    n_calls += 1
                    if not (lab_coll or lab_dict):
                        continue
                    over_values = isinstance(ev.node, ast.Call) and ev.node.args and isinstance(
                        ev.node.args[0], ast.Call) and isinstance(ev.node.args[0].func, ast.Attribute) and \
                        ev.node.args[0].func.attr == "values"
                    if over_values and not lab_coll:
                        continue        # extremum / sum of the values of an arm dictionary
                    if lab_dict and not lab_coll and name in ("sum", "numpy.sum"):
                        continue
                    key = ev.a.get("kwargs", {}).get("key")
                    if key is not None and name in ("min", "max", "sorted"):
                        maps = any(cd[0] == "extmeth" and cd[2] == "get" for cd in key.callee)
                        if maps:
                            ctx.ok("R20.1", "%s over arms orders them by values, not by label" % name, ev.node, ev.fn)
                            continue
                    ctx.violate("R20.1", "%s over arm labels" % name.lstrip("."), ev.node, ev.fn,
                                "ordering / hashing / arithmetic of labels makes results depend on arm names "
                                "[%s %s]" % (c.name, label))
                elif ev.kind == "for":
                    it = ev.a.get("iter")
                    if it is None:
                        continue
                    for r in it.refs:
                        o = eng.heap.objs.get(r)
                        if o is not None and o.cls == "set" and o.elem is not None and (
                                "label" in o.elem.tags or "labels" in it.tags):
                            ctx.violate("R20.1", "iteration over a set of arm labels", ev.node, ev.fn,
                                        "set order depends on label hashes [%s %s]" % (c.name, label))
    ctx.ok("R20.1", "no ordering comparison / arithmetic touches a label (0 label operations in all traces)",
           construct="label operations", where="mabwiser/")
    ctx.floor("R20.1", "ordering-capable external calls examined", n_calls, 500)
    ctx.floor("R20.1", "external calls receiving label collections", n_tagged, 300)
    # ---- R20.2
    check_selectors(ctx, "R20.2")
    check_binarizer_pairing(ctx, F, "R20.2")
    fg = prog.method("_Neighbors", "_get_nhood_predictions")
    fits = [c for c in ast.walk(fg.node) if isinstance(c, ast.Call) and ast.unparse(c.func) == "lp.fit"]
    ok3 = len(fits) == 1 and len({ast.unparse(a.slice) for a in fits[0].args if isinstance(a, ast.Subscript)}) == 1 \
        and len(fits[0].args) == 3 and all(isinstance(a, ast.Subscript) for a in fits[0].args)
    ctx.check(ok3, "R20.2", "neighbourhood training indexes decisions, rewards and contexts with one selector",
              fits[0] if fits else fg.node, fg)
