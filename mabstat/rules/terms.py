# -*- coding: utf-8 -*-
"""Final-state terms of a straight-line / if-else method body.

The body is evaluated over terms (ast expressions in the *initial* values of the parameters and fields): locals are
substituted away, `if` merges two states into conditional terms, and what remains is (a) the effect statements in
order, spelled over initial values, and (b) one `self.F = <term>` per field. Two bodies with the same result compute
the same final fields and perform the same effect calls, however they name and order their intermediate values.
Calls are uninterpreted (a call term is never executed twice by the code, it is only written where its value goes)."""

import ast
import copy


def _self_field(node):
    if isinstance(node, ast.Attribute) and isinstance(node.value, ast.Name) and node.value.id == "self":
        return node.attr
    return None


def _dump(e):
    return ast.dump(e)


def _and(a, b):
    vals = []
    for x in (a, b):
        vals.extend(x.values if isinstance(x, ast.BoolOp) and isinstance(x.op, ast.And) else [x])
    return ast.BoolOp(op=ast.And(), values=vals)


def ite(test, a, b):
    """conditional term, flattened:  ITE(c, x, x) = x ;  ITE(c1, ITE(c2, a, b), b) = ITE(c1 and c2, a, b)"""
    if _dump(a) == _dump(b):
        return a
    if isinstance(a, ast.IfExp) and _dump(a.orelse) == _dump(b):
        return ite(_and(test, a.test), a.body, b)
    if isinstance(test, ast.UnaryOp) and isinstance(test.op, ast.Not):
        return ite(test.operand, b, a)
    # `not a or not b`  ==  not (a and b): the positive test with the branches exchanged
    if isinstance(test, ast.BoolOp) and all(isinstance(v, ast.UnaryOp) and isinstance(v.op, ast.Not)
                                            for v in test.values):
        pos = ast.BoolOp(op=ast.And() if isinstance(test.op, ast.Or) else ast.Or(),
                         values=[v.operand for v in test.values])
        return ite(pos, b, a)
    return ast.IfExp(test=test, body=a, orelse=b)


class State:
    def __init__(self):
        self.env = {}       # local -> term
        self.fld = {}       # field of self -> term (pending store)
        self.out = []       # emitted statements
        self.flushed = set()

    def fork(self):
        s = State()
        s.env, s.fld = dict(self.env), dict(self.fld)
        return s


class _Sub(ast.NodeTransformer):
    def __init__(self, st):
        self.st = st

    def visit_Name(self, node):
        if isinstance(node.ctx, ast.Load) and node.id in self.st.env:
            return copy.deepcopy(self.st.env[node.id])
        return node

    def visit_Attribute(self, node):
        f = _self_field(node)
        if f is not None and isinstance(node.ctx, ast.Load) and f in self.st.fld:
            return copy.deepcopy(self.st.fld[f])
        self.generic_visit(node)
        return node


def _sub(st, e):
    return _Sub(st).visit(copy.deepcopy(e))


def _flush(st, at, before=None):
    """emit the pending stores (all of them, or those the statement `before` can observe: it calls something that
    may read any field, or it names the field)"""
    every = before is None or any(isinstance(n, ast.Call) and not _pure_term(n) for n in ast.walk(before))
    named = set() if every else {n.attr for n in ast.walk(before) if isinstance(n, ast.Attribute)}
    for f in sorted(st.fld):
        if not every and f not in named:
            continue
        tgt = ast.Attribute(value=ast.Name(id="self", ctx=ast.Load()), attr=f, ctx=ast.Store())
        st.out.append(ast.fix_missing_locations(ast.copy_location(ast.Assign(targets=[tgt], value=st.fld[f],
                                                                             lineno=getattr(at, "lineno", 0)), at)))
        st.flushed.add(f)
        del st.fld[f]


def _assigned(stmts):
    return {n.id for s in stmts for n in ast.walk(s) if isinstance(n, ast.Name) and
            isinstance(n.ctx, (ast.Store, ast.Del))}


def _pure_term(e):
    from ..model import _pure_expr
    return _pure_expr(e)


def _exec(stmts, st):
    for s in stmts:
        if isinstance(s, ast.Expr) and isinstance(s.value, ast.Constant):
            continue
        if isinstance(s, ast.Pass):
            continue
        if isinstance(s, ast.Assign) and len(s.targets) == 1:
            t = s.targets[0]
            pairs = None
            if isinstance(t, ast.Name) or _self_field(t) is not None:
                pairs = [(t, _sub(st, s.value))]
            elif isinstance(t, ast.Tuple) and all(isinstance(x, ast.Name) or _self_field(x) is not None
                                                  for x in t.elts):
                v = _sub(st, s.value)
                if isinstance(v, ast.Tuple) and len(v.elts) == len(t.elts):
                    pairs = list(zip(t.elts, v.elts))
            if pairs is not None:
                impure = [v for _, v in pairs if not _pure_term(v)]
                if impure and any(_self_field(x) is not None for x, _ in pairs) and st.fld:
                    pass        # the call is only written where its value goes: nothing to order against
                for x, v in pairs:
                    if isinstance(x, ast.Name):
                        st.env[x.id] = v
                    else:
                        st.fld[_self_field(x)] = v
                continue
        if isinstance(s, ast.AugAssign) and (isinstance(s.target, ast.Name) or _self_field(s.target) is not None):
            cur = copy.deepcopy(s.target)
            cur.ctx = ast.Load()
            v = ast.BinOp(left=_sub(st, cur), op=s.op, right=_sub(st, s.value))
            if isinstance(s.target, ast.Name):
                st.env[s.target.id] = v
            else:
                st.fld[_self_field(s.target)] = v
            continue
        if isinstance(s, ast.If):
            test = _sub(st, s.test)
            a, b = st.fork(), st.fork()
            _exec(s.body, a)
            _exec(s.orelse, b)
            if (a.flushed | b.flushed) & set(st.fld):
                # a branch makes a store pending from before the `if` visible: it takes place before the `if`
                _flush(st, s)
                a, b = st.fork(), st.fork()
                _exec(s.body, a)
                _exec(s.orelse, b)
            for k in set(a.env) | set(b.env):
                old = st.env.get(k, ast.Name(id=k, ctx=ast.Load()))
                st.env[k] = ite(test, a.env.get(k, old), b.env.get(k, old))
            if a.out or b.out:
                st.out.append(ast.fix_missing_locations(ast.copy_location(
                    ast.If(test=test, body=a.out or [ast.Pass()], orelse=b.out), s)))
            st.flushed |= a.flushed | b.flushed
            for k in set(a.fld) | set(b.fld):
                old = st.fld.get(k, ast.Attribute(value=ast.Name(id="self", ctx=ast.Load()), attr=k, ctx=ast.Load()))
                st.fld[k] = ite(test, a.fld.get(k, old), b.fld.get(k, old))
            continue
        # anything else is an effect: the pending stores it can observe first, then the statement over initial values
        _flush(st, s, before=s)
        killed = _assigned([s]) if isinstance(s, (ast.For, ast.While, ast.With, ast.Try)) else set()
        inner = st.fork()
        for k in killed:
            inner.env.pop(k, None)
        new = _Sub(inner).visit(copy.deepcopy(s))
        st.out.append(ast.fix_missing_locations(new))
        for k in killed | _assigned([s]):
            st.env.pop(k, None)
    return st


def final_form(body):
    """(statements) effect statements in order followed by one store per field, all over initial values"""
    st = State()
    _exec(body, st)
    _flush(st, body[-1] if body else ast.Pass())
    return st.out
