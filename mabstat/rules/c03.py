# -*- coding: utf-8 -*-
"""C03 - Radius and KNearest use exactly the observations in the neighbourhood."""

import ast

from ..facts import calls_of, first_call, walk
from ..model import norm_stmt
from .common import facts, parent
from .sibling import expand_local
from . import derive
from .c06 import check_history_append

EXPLANATION = (
    "Structural rules on the neighbour selection (expressions compared after inlining single-assignment locals; "
    "accepted idioms enumerated) plus ownership facts from the abstract traces. (R3.1) the Radius selector is an "
    "inclusive comparison of the distance vector with self.radius; (R3.2) KNearest takes argpartition(d, k-1)[:k] "
    "(or argsort(d)[:k]): pivot and slice stop agree with self.k; (R3.3) distances are cdist(<all stored "
    "contexts>, <the row as 1 x d>, metric=self.metric), flattened; (R3.4) fit rebinds the three history fields "
    "from its parameters and partial_fit appends old-then-new with the matching operand; (R3.5) the policy trained "
    "for a row is a fresh copy (all configurations) and is trained with fit - never partial_fit - on the three "
    "fields indexed by the same selector; (R3.6) on the empty-neighbourhood path the expectations are a copy of a "
    "dictionary whose value for every arm is NaN on every path (constructor, add_arm; never written by training), "
    "the branch is taken exactly when the selection is empty, and predict draws choice(len(arms), p=...) from the "
    "row generator and indexes the arm list. Decides the membership structure; distances as numbers and "
    "tie-breaking inside argpartition are not decided.")
ASSUMPTIONS = ["cdist / argpartition / where semantics (externals)", "numpy choice never returns a zero-probability "
               "index", "CPython ast"]

INCLUSIVE = ("{d} <= self.radius", "self.radius >= {d}", "np.less_equal({d}, self.radius)", "~({d} > self.radius)",
             "np.logical_not({d} > self.radius)")
FLATTEN = (".reshape(-1)", ".ravel()", ".flatten()", "[:, 0]")


def _row_loop(fn):
    loops = [s for s in fn.node.body if isinstance(s, ast.For)]
    return loops[-1] if loops else None


def _distance_expr_ok(s, row="ROW"):
    """cdist(self.contexts, <row as 1 x d>, metric=self.metric) flattened (semantic form: FLAT(...))"""
    cores = ("cdist(self.contexts, %s[np.newaxis, :], metric=self.metric)" % row,
             "cdist(self.contexts, %s.reshape(1, -1), metric=self.metric)" % row,
             "cdist(self.contexts, np.atleast_2d(%s), metric=self.metric)" % row,
             "cdist(self.contexts, %s[None, :], metric=self.metric)" % row,
             "cdist(self.contexts, %s[None], metric=self.metric)" % row,
             "cdist(self.contexts, [%s], metric=self.metric)" % row)
    if s.startswith("FLAT(") and s.endswith(")"):
        return s[5:-1] in cores
    if s.endswith("[:, 0]"):
        return s[:-6] in cores
    return False


SELECTION_PATTERNS = ("_X_ = np.where(_EC_)", "_X_ = np.nonzero(_EC_)", "_X_ = np.flatnonzero(_EC_)",
                      "_X_ = np.argpartition(_ED_, _EK_)[:_ES_]", "_X_ = np.argsort(_ED_)[:_ES_]")


def _selection(loop):
    """(assignment node, bindings) of the neighbour selection in a row loop"""
    from .pattern import find
    for p in SELECTION_PATTERNS:
        n, b = find(p, loop)
        if n is not None:
            return n, b
    return None, None


def _row_names(loop):
    if isinstance(loop.target, ast.Tuple) and len(loop.target.elts) == 2:
        return ast.unparse(loop.target.elts[0]), ast.unparse(loop.target.elts[1])
    return "index", "row"


def check(ctx):
    F = facts(ctx)
    prog = ctx.prog
    ctx.rule("R3.1", "inclusive radius test")
    ctx.rule("R3.2", "k / slice agreement")
    ctx.rule("R3.3", "distance operands")
    ctx.rule("R3.4", "history rebinding and appending")
    ctx.rule("R3.5", "train a fresh copy from scratch on one selector")
    ctx.rule("R3.6", "empty neighbourhood: NaN for every arm, exact guard, choice operands")
    # ---------------------------------------------------------------- R3.1 / R3.3 Radius
    # Expressions are read in a form that does not depend on how the row loop is spelled or what the locals are
    # called (c15.RowForm: reaching definitions substituted, IDX / ROW / seeds[IDX]) and in semantic form
    # (semantic.py: SELECT(c) for np.where / nonzero / flatnonzero, FLAT(x) for reshape(-1) / ravel / flatten,
    # orderings written with < and <=, EMPTY(x) for the cardinality tests).
    from .c15 import RowForm, _selection_arg
    from .pattern import match, any_match
    from .semantic import emptiness
    fr = prog.method("_Radius", "_predict_contexts")
    ctx.saw_fn(fr)
    rf = RowForm(fr)
    loop = rf.loop
    sel = _selection_arg(prog, "_Radius", loop) if loop is not None else None
    sel_t = rf.text(sel) if sel is not None else None
    sb = None
    if sel is not None:
        sel_i = ast.parse(sel_t, mode="eval").body
        for pat, flat in (("SELECT_T(_EC_)", False), ("SELECT(_EC_)", True)):
            sb = match(pat, sel_i)
            if sb is not None:
                sb["flat"] = flat
                break
    if sb is None:
        ctx.undecided("R3.1", "_Radius: the neighbour selection is not np.where(<condition>)", fr.node, fr,
                      "selection handed to _get_nhood_predictions: `%s`" % sel_t,
                      construct="def _Radius._predict_contexts")
    else:
        cond = ast.parse(sb["_EC_"], mode="eval").body
        inc = any_match(("_ED_ <= self.radius", "np.less_equal(_ED_, self.radius)",
                         "~(self.radius < _ED_)", "np.logical_not(self.radius < _ED_)"), cond)
        ctx.check(inc is not None, "R3.1", "Radius selects rows whose distance is at most the radius (boundary "
                  "included)", sel, fr, "selector `%s` is not an inclusive comparison with self.radius" %
                  ast.unparse(cond), construct="radius comparison of _Radius")
        if inc is not None:
            dx = " ".join(inc["_ED_"].split())
            ctx.check(_distance_expr_ok(dx, "ROW"), "R3.3", "Radius distances: cdist(stored contexts, row as 1 x d, "
                      "metric), flattened", sel, fr, "distance expression `%s`" % dx,
                      construct="distance vector of _Radius")
        # guard of the empty branch: a cardinality test of the very selection
        calls = [c for c in ast.walk(loop) if isinstance(c, ast.Call) and isinstance(c.func, ast.Attribute)
                 and c.func.attr == "_get_nhood_predictions"]
        iff = parent(calls[0]) if calls else None
        while iff is not None and not isinstance(iff, ast.If):
            iff = parent(iff)
        okg = False
        gt = ""
        if iff is not None:
            ge = rf.expr(iff.test, at=iff)
            gt = " ".join(ast.unparse(ge).split())
            em = emptiness(ge)
            # the array of selected rows: the selection itself, or member [0] of the tuple np.where returns
            one = "SELECT(%s)" % sb["_EC_"]
            in_body = any(c is x for c in calls for s2 in iff.body for x in ast.walk(s2))
            other = iff.orelse if in_body else iff.body
            no_nh = any(isinstance(x, ast.Call) and isinstance(x.func, ast.Attribute) and
                        x.func.attr == "_get_no_nhood_predictions" for s2 in other for x in ast.walk(s2))
            okg = no_nh and em is not None and " ".join(em[0].split()) == " ".join(one.split()) and \
                em[1] == (not in_body)
        ctx.check(okg, "R3.6", "Radius takes the empty-neighbourhood path exactly when no row was selected",
                  iff if iff is not None else loop, fr, "guard `%s`" % gt,
                  construct="empty-neighbourhood guard of _Radius")
    # ---------------------------------------------------------------- R3.2 / R3.3 KNearest
    fk = prog.method("_KNearest", "_predict_contexts")
    ctx.saw_fn(fk)
    rk = RowForm(fk)
    loopk = rk.loop
    selk = _selection_arg(prog, "_KNearest", loopk) if loopk is not None else None
    kb = None
    if selk is not None:
        selk_i = ast.parse(rk.text(selk), mode="eval").body
        kb = match("np.argpartition(_ED_, _EK_)[:_ES_]", selk_i) or match("np.argsort(_ED_)[:_ES_]", selk_i)
    if kb is None:
        ctx.undecided("R3.2", "_KNearest: the neighbour selection is not argpartition/argsort of the distances",
                      fk.node, fk, "selection handed to _get_nhood_predictions: `%s`" %
                      (rk.text(selk) if selk is not None else None), construct="def _KNearest._predict_contexts")
    else:
        if "_EK_" in kb:
            ok = kb["_ES_"] == "self.k" and kb["_EK_"] == "self.k - 1"
        else:
            ok = kb["_ES_"] == "self.k"
        ctx.check(ok, "R3.2", "KNearest takes the k smallest distances (pivot k-1, first k)", selk, fk,
                  "selection `%s`" % rk.text(selk), construct="k-selection of _KNearest")
        dx = " ".join(kb["_ED_"].split())
        ctx.check(_distance_expr_ok(dx, "ROW"), "R3.3", "KNearest distances: cdist(stored contexts, row as 1 x d, "
                  "metric), flattened", selk, fk, "distance expression `%s`" % dx,
                  construct="distance vector of _KNearest")
    # ---------------------------------------------------------------- R3.4 history
    ff = prog.method("_Neighbors", "fit")
    from .terms import final_form
    src = {ast.unparse(s.targets[0]): " ".join(ast.unparse(s.value).split()) for st in final_form(ff.node.body)
           for s in ast.walk(st) if isinstance(s, ast.Assign) and len(s.targets) == 1}
    # (self.decisions is the argument itself once `self.decisions = decisions` has run, so either spelling of the
    # binarizer's first operand denotes the batch in fit; the pairing in partial_fit is C06 R6.7 / C14 R14.3)
    conv = {"self._binarize_ts_rewards(decisions, rewards)", "self._binarize_ts_rewards(self.decisions, rewards)"}
    def leaves(e):
        if isinstance(e, ast.IfExp):
            return leaves(e.body) + leaves(e.orelse)
        return [" ".join(ast.unparse(e).split())]
    allr = leaves(ast.parse(src["self.rewards"], mode="eval").body) if "self.rewards" in src else []
    # a binarising helper the rules do not know by name is any self method given exactly (decisions, rewards)
    import re
    conv_like = [x for x in allr if re.fullmatch(r"self\.\w+\((self\.)?decisions, rewards\)", x) or
                 re.fullmatch(r"self\.lp\._get_binary_rewards\((self\.)?decisions, rewards\)", x)]
    # the conversion helper may decide by itself whether to convert: it then returns its rewards argument unchanged
    # on one of its paths
    passes = False
    if allr and "rewards" not in allr and len(set(allr)) == 1 and allr[0] in (conv | set(conv_like)):
        hname = allr[0].split("(")[0].split(".")[-1]
        h = prog.cls("_Neighbors").resolve(hname)
        if h is not None and "rewards" in h.params:
            passes = any(isinstance(r, ast.Return) and isinstance(r.value, ast.Name) and r.value.id == "rewards"
                         for r in ast.walk(h.node)) and not any(
                isinstance(a, ast.Assign) and any(isinstance(t, ast.Name) and t.id == "rewards" for t in a.targets)
                for a in ast.walk(h.node))
    okh = src.get("self.decisions") == "decisions" and src.get("self.contexts") == "contexts" and \
        bool(allr) and set(allr) <= ({"rewards"} | conv | set(conv_like)) and ("rewards" in allr or passes)
    ctx.check(okh, "R3.4", "_Neighbors.fit replaces the stored history by its arguments", ff.node, ff,
              "stores %s" % src, construct="def _Neighbors.fit")
    # other writers of the history
    n_w = 0
    for c in F.configs(np_=["Radius", "KNearest"], lp=["EpsilonGreedy", "LinUCB"]):
        for lab in F.entry_labels(c):
            root = F.trace(c, lab)
            for ev, anc in walk(root):
                if ev.kind == "store" and any(t.region == "bandit" and t.field in ("decisions", "rewards", "contexts")
                                              and t.ocls in ("_Radius", "_KNearest") for t in ev.a["targets"]):
                    n_w += 1
                    ctx.check(ev.fn.qualname in ("_Neighbors.fit", "_Neighbors.partial_fit"), "R3.4",
                              "the stored history is written only by fit and partial_fit", ev.node, ev.fn,
                              "%s writes the history during %s [%s]" % (ev.fn.qualname, lab, c.name))
    ctx.floor("R3.4", "history writes seen", n_w, 12)
    # ---------------------------------------------------------------- R3.5 train from scratch on a fresh copy
    fg = prog.method("_Neighbors", "_get_nhood_predictions")
    ctx.saw_fn(fg)
    fits = [c for c in ast.walk(fg.node) if isinstance(c, ast.Call) and isinstance(c.func, ast.Attribute)
            and ast.unparse(c.func.value) == "lp" and c.func.attr in ("fit", "partial_fit")]
    ok5 = len(fits) == 1 and fits[0].func.attr == "fit" and [ast.unparse(a) for a in fits[0].args] == [
        "self.decisions[indices]", "self.rewards[indices]", "self.contexts[indices]"] and "indices" in fg.params
    ctx.check(ok5, "R3.5", "the worker policy is trained from scratch (fit) on decisions/rewards/contexts of one "
              "selector", fits[0] if fits else fg.node, fg,
              "training call(s): %s" % [ast.unparse(c) for c in fits])
    n_fresh = 0
    for c in F.configs(np_=["Radius", "KNearest", "LSHNearest"]):
        for lab in ("predict", "predict_expectations"):
            root = F.trace(c, lab)
            w = F.focus(c, root)
            for ev, anc in calls_of(root, name="_get_nhood_predictions"):
                lpv = ev.a["args"].get("lp")
                n_fresh += 1
                ok = lpv is not None and lpv.refs and all(w.eng.obj(r).region == "fresh" for r in lpv.refs)
                site_fn = ev.stack[-1][0] if ev.stack else ev.fn
                ctx.check(ok, "R3.5", "%s passes a fresh copy of the learning policy to _get_nhood_predictions" %
                          (anc[-1].a["callee"].qualname if anc and anc[-1].kind == "call" else "caller"),
                          ev.node, ev.fn, "the trained object is bandit state [%s]" % c.name)
    ctx.floor("R3.5", "neighbourhood training call sites on traces", n_fresh, 50)
    # ---------------------------------------------------------------- R3.6 NaN for every arm on every path
    n_nan = 0
    for c in F.configs(np_=["Radius", "KNearest", "LSHNearest"], lp=["EpsilonGreedy", "ThompsonSampling", "LinUCB"]):
        nv = derive.neutral_values(F, c)
        w = F.world(c)
        imp = next(iter(w.imp_val().refs))
        loc = (imp, "arm_to_expectation")
        initd = nv["init"].get(loc)
        addd = nv["add"].get(loc)
        n_nan += 1
        cls = w.skeleton.objs[imp].cls
        initf = prog.method("_Neighbors", "__init__")
        ctx.check(initd is not None and initd[0] == ("const", ("nan",)), "R3.6",
                  "%s.arm_to_expectation is NaN for every arm after construction" % cls, initf.node, initf,
                  "constructor installs %r" % ((initd[0] if initd else None),), construct="%s.__init__ NaN reset" % cls)
        if addd is not None:
            ctx.check(addd[0] == ("const", ("nan",)), "R3.6",
                      "%s.arm_to_expectation of an added arm is NaN" % cls, addd[1].node, addd[1].fn,
                      "add_arm leaves %r in the dictionary that is returned when the neighbourhood is empty [%s]" %
                      (addd[0], c.name))
        # never written by training / prediction
        for lab in ("fit", "partial_fit", "predict", "predict_expectations", "warm_start"):
            root = F.trace(c, lab)
            for ev, anc in walk(root):
                if ev.kind == "store" and any(t.oid == imp and t.field == "arm_to_expectation"
                                              for t in ev.a["targets"]):
                    ctx.violate("R3.6", "%s writes %s.arm_to_expectation" % (lab, cls), ev.node, ev.fn,
                                "the all-NaN dictionary of the empty-neighbourhood path is modified [%s]" % c.name)
    ctx.floor("R3.6", "neighbourhood configurations checked for NaN expectations", n_nan, 9)
    fn0 = prog.method("_Neighbors", "_get_no_nhood_predictions")
    ctx.saw_fn(fn0)
    from .pattern import find
    n1, b1 = find("_R_ = lp.rng.choice(len(self.arms), size=1, p=self.no_nhood_prob_of_arm)[0]", fn0.node)
    n2, _ = find("return self.arms[_R_]", fn0.node, b1) if b1 else (None, None)
    n2b, _ = find("return self.arms[lp.rng.choice(len(self.arms), size=1, p=self.no_nhood_prob_of_arm)[0]]", fn0.node)
    n3, _ = find("return self.arm_to_expectation.copy()", fn0.node)
    if n3 is None:
        n3, _ = find("return dict(self.arm_to_expectation)", fn0.node)
    okc = (n2 is not None or n2b is not None) and n3 is not None
    ctx.check(okc, "R3.6", "empty neighbourhood: predict draws an index into the arm list with the configured "
              "probabilities from the row generator; expectations are a copy of the NaN dictionary", fn0.node, fn0,
              construct="def _Neighbors._get_no_nhood_predictions")
    check_history_append(ctx)
