# -*- coding: utf-8 -*-
"""C15 - the Simulator reports what the public API would have produced."""

import ast

from ..facts import calls_of, walk
from ..model import AnalysisError, norm_stmt
from .common import facts, parent
from .sibling import expand_local, normal_form

EXPLANATION = (
    "Sibling equivalence between the library's neighbourhood policies and the simulator's re-implementations, "
    "decided on two live fragments of the tree (never against a frozen copy). (R15.1) for Radius and KNearest the "
    "neighbour-selection expression of the simulator, with self.distances[start_index + index] replaced by the "
    "element expression of _calculate_distances_of_batch, equals the library's. (R15.2) each driver passes the same "
    "rows to calculate_distances and to predict. (R15.3) a distance list computed by one bandit reaches another "
    "bandit's set_distances only through a cache keyed by (or a guard on) the metric. (R15.4) on the abstract "
    "traces of every (policy x {Radius, KNearest, LSHNearest}) configuration the simulator's per-row sequence of "
    "generator draws up to the reported prediction equals the library's, the worker copy is a deepcopy, the row "
    "generator is seeded by the same expression, and the neighbourhood fit receives the same three fields under "
    "one selector. (R15.5) the six LSH method pairs are equal under the declared renaming. (R15.6) the wrapper "
    "built by _train_bandits holds, for every constructor parameter the library class stores, the very value of "
    "the replaced implementor, and shares rng, arms and lp. (R15.7) fit precedes predictions; within a batch "
    "every predict precedes partial_fit; data go through the facade's converters. Decides equality of structure, "
    "not of reported numbers; expectations of randomised policies are excluded by the property.")
ASSUMPTIONS = ["cdist is a pure function of its operands", "joblib preserves submission order", "CPython ast"]

LSH_PAIRS = [("_LSHNearest", "_LSHSimulator", "_add_neighbors"), ("_LSHNearest", "_LSHSimulator", "_fit_operation"),
             ("_LSHNearest", "_LSHSimulator", "_initialize"), ("_LSHNearest", "_LSHSimulator", "_get_neighbors"),
             ("_ApproximateNeighbors", "_ApproximateSimulator", "fit"),
             ("_ApproximateNeighbors", "_ApproximateSimulator", "partial_fit")]
RENAME = {"_LSHNearest.get_context_hash": "self.get_context_hash"}
DRIVERS = [("Simulator", "_offline_test_bandits"), ("Simulator", "_online_test_bandits_chunks")]


def _row_loop(fn):
    loops = [s for s in fn.node.body if isinstance(s, ast.For)]
    return loops[-1] if loops else None


class RowForm:
    """Expressions of a per-row function in a form that does not depend on how the loop is spelled or what the locals
    are called: locals are replaced by the expressions that reach them (semantic.Env), the row index / row / seed of
    the row loop are called IDX / ROW / SEEDS[IDX], and the result is brought into semantic form."""

    def __init__(self, fn):
        import copy
        from .common import row_loop_info
        from .semantic import Env
        self.fn = fn
        self.info = row_loop_info(fn)
        self.loop = self.info.loop if self.info is not None and self.info.loop is not None else _row_loop(fn)
        self.env = Env(fn.node.body)
        self._copy = copy

    def stmt_of(self, node):
        n = node
        while n is not None and id(n) not in self.env.env_at:
            n = parent(n)
        return n

    def _rename(self, e):
        info = self.info
        rows = info.rows if info is not None else None
        seeds = "seeds"
        copy_ = self._copy
        env_top = self.env.env_at.get(id(self.loop), {}) if self.loop is not None else {}

        class R(ast.NodeTransformer):
            def visit_Subscript(self, node):
                self.generic_visit(node)
                if info is not None and isinstance(node.value, ast.Name) and isinstance(node.slice, ast.Name) and \
                        node.slice.id == "IDX":
                    if node.value.id == rows:
                        return ast.Name(id="ROW", ctx=ast.Load())
                return node

            def visit_Name(self, node):
                if info is None:
                    return node
                if node.id == info.idx:
                    return ast.Name(id="IDX", ctx=node.ctx)
                if node.id == info.row:
                    return ast.Name(id="ROW", ctx=node.ctx)
                if node.id == info.seed:
                    return ast.parse("%s[IDX]" % seeds, mode="eval").body
                if node.id in info.others and isinstance(node.ctx, ast.Load):
                    arr = env_top.get(info.others[node.id])
                    base = copy_.deepcopy(arr) if arr is not None else ast.Name(id=info.others[node.id],
                                                                                ctx=ast.Load())
                    return ast.Subscript(value=base, slice=ast.Name(id="IDX", ctx=ast.Load()), ctx=ast.Load())
                return node
        return R().visit(e)

    def expr(self, node, at=None):
        """the renamed, definition-expanded tree of expression `node` (as evaluated where it stands)"""
        st = self.stmt_of(at if at is not None else node)
        e = self.env.at(st, node) if st is not None else self._copy.deepcopy(node)
        e = self._rename(e)
        ast.fix_missing_locations(e)
        return e

    def text(self, node, at=None, index=False):
        from .semantic import as_index, sem_text
        e = self.expr(node, at)
        return as_index(e) if index else sem_text(e)


def _selection_arg(prog, cls, loop):
    """the expression handed to _get_nhood_predictions as its `indices` parameter inside the row loop"""
    callee = prog.cls(cls).resolve("_get_nhood_predictions")
    if callee is None or "indices" not in callee.params:
        return None
    pos = callee.params.index("indices") - 1
    for c in ast.walk(loop):
        if isinstance(c, ast.Call) and isinstance(c.func, ast.Attribute) and c.func.attr == "_get_nhood_predictions" \
                and ast.unparse(c.func.value) == "self":
            for kw in c.keywords:
                if kw.arg == "indices":
                    return kw.value
            if pos < len(c.args):
                return c.args[pos]
    return None


def _batch_element(batch):
    """(RowForm, element expression) of _calculate_distances_of_batch: what the cache holds for row IDX"""
    rf = RowForm(batch)
    info = rf.info
    rets = [s for s in ast.walk(batch.node) if isinstance(s, ast.Return) and s.value is not None]
    if info is None or info.loop is None or info.out is None or not info.once or len(rets) != 1 or \
            ast.unparse(rets[0].value) != info.out:
        # a comprehension over the rows?
        if len(rets) == 1:
            v = rf.env.at(rets[0], rets[0].value)
            if isinstance(v, ast.ListComp) and len(v.generators) == 1 and not v.generators[0].ifs and \
                    ast.unparse(v.generators[0].iter) == batch.params[1] and \
                    isinstance(v.generators[0].target, ast.Name):
                from .semantic import sem_text
                row = v.generators[0].target.id

                class R(ast.NodeTransformer):
                    def visit_Name(self, node):
                        return ast.Name(id="ROW", ctx=node.ctx) if node.id == row else node
                return rf, sem_text(R().visit(v.elt))
        return rf, None
    for n in ast.walk(info.loop):
        if info.mode == "index" and isinstance(n, ast.Assign) and isinstance(n.targets[0], ast.Subscript) and \
                ast.unparse(n.targets[0].value) == info.out:
            return rf, rf.text(n.value, at=n)
        if info.mode == "append" and isinstance(n, ast.Call) and isinstance(n.func, ast.Attribute) and \
                n.func.attr == "append" and ast.unparse(n.func.value) == info.out:
            return rf, rf.text(n.args[0], at=n)
    return rf, None


def check_selection(ctx):
    prog = ctx.prog
    batch = prog.method("_NeighborsSimulator", "_calculate_distances_of_batch")
    _, elem_x = _batch_element(batch)
    if elem_x is None:
        # not written row by row: is a distance computed from the whole batch at once?
        whole = [c for c in ast.walk(batch.node) if isinstance(c, ast.Call) and
                 ast.unparse(c.func).split(".")[-1] in ("cdist", "pdist", "pairwise_distances") and
                 any(isinstance(a, ast.Name) and a.id == batch.params[1] for a in c.args)]
        if whole:
            ctx.violate("R15.1", "_NeighborsSimulator computes the cached distances of a row from that row and the "
                        "history only", whole[0], batch,
                        "`%s` is given the whole batch: for data-dependent metrics (seuclidean, mahalanobis) the "
                        "distances of a row then depend on the other rows of the chunk, while the library computes "
                        "cdist(self.contexts, <row>) per row" % ast.unparse(whole[0]),
                        construct="def _calculate_distances_of_batch")
        else:
            ctx.undecided("R15.1", "element expression of _calculate_distances_of_batch", batch.node, batch,
                          "no `<returned list>[index] = ...` found", construct="def _calculate_distances_of_batch")
        return
    n = 0
    for lib, sim in (("_Radius", "_RadiusSimulator"), ("_KNearest", "_KNearestSimulator")):
        fl, fs = prog.method(lib, "_predict_contexts"), prog.method(sim, "_predict_contexts")
        ctx.saw_fn(fl)
        ctx.saw_fn(fs)
        rl, rs = RowForm(fl), RowForm(fs)
        ll, ls = rl.loop, rs.loop
        el = _selection_arg(prog, lib, ll) if ll is not None else None
        es = _selection_arg(prog, sim, ls) if ls is not None else None
        if el is None or es is None:
            ctx.undecided("R15.1", "%s / %s: no neighbour selection handed to _get_nhood_predictions" % (lib, sim),
                          fs.node, fs, construct="def %s._predict_contexts" % sim)
            continue
        sl, ss = rl.text(el, index=True), rs.text(es, index=True)
        cache = _cache_text(fs)
        ss_sub = ss.replace(cache, elem_x)
        n += 1
        ctx.check(cache in ss, "R15.1",
                  "%s reads the cached distances of its own global row (start_index + index)" % sim, ls, fs,
                  "selection expression: %s" % ss, construct="indices of %s" % sim)
        ctx.check(sl == ss_sub, "R15.1", "%s selects the same neighbours as %s" % (sim, lib), ls, fs,
                  "library: %s ; simulator (cache expanded): %s" % (sl, ss_sub),
                  construct="indices of %s vs %s" % (sim, lib))
    ctx.floor("R15.1", "selection pairs", n, 2)


_ROW_FORMS = {}
_GUARD_KEYS = {}
_BATCH = {}


def _row_form(fn):
    k = id(fn.node)
    if k not in _ROW_FORMS or _ROW_FORMS[k][0] is not fn.node:
        _ROW_FORMS[k] = (fn.node, RowForm(fn))
    return _ROW_FORMS[k][1]


def _batch_elem_text(prog):
    k = id(prog)
    if k not in _BATCH or _BATCH[k][0] is not prog:
        _BATCH[k] = (prog, _batch_element(prog.method("_NeighborsSimulator", "_calculate_distances_of_batch"))[1])
    return _BATCH[k][1]


def _cache_text(fs):
    return "self.distances[%s + IDX]" % fs.params[4] if len(fs.params) > 4 else "self.distances[start_index + IDX]"


def loop_vars(loop):
    names = set()
    if isinstance(loop, (ast.For, ast.comprehension)):
        for n in ast.walk(loop.target):
            if isinstance(n, ast.Name):
                names.add(n.id)
    return names


def _inline(loop, expr, stop=None):
    """inline single-assignment locals of the loop body into expr (loop variables stay)"""
    import copy
    stop = set(stop) if stop is not None else loop_vars(loop)
    if isinstance(loop, (ast.FunctionDef, ast.AsyncFunctionDef)):
        a = loop.args
        stop |= {x.arg for x in a.posonlyargs + a.args + a.kwonlyargs}
    for n in ast.walk(loop):
        if isinstance(n, ast.For) and n is not loop:
            stop |= loop_vars(n)
    defs = {}
    for n in ast.walk(loop):
        if isinstance(n, ast.Assign) and len(n.targets) == 1 and isinstance(n.targets[0], ast.Name):
            defs.setdefault(n.targets[0].id, []).append(n.value)

    class R(ast.NodeTransformer):
        def visit_Name(self, node):
            if isinstance(node.ctx, ast.Load) and len(defs.get(node.id, [])) == 1 and node.id not in stop:
                return R().visit(copy.deepcopy(defs[node.id][0]))
            return node
    return R().visit(copy.deepcopy(expr))


def _bandit_var(node):
    """name of the bandit variable of the enclosing `for <name>, <bandit> in self.bandits` loop"""
    g = parent(node)
    while g is not None:
        if isinstance(g, ast.For) and ast.unparse(g.iter) == "self.bandits" and isinstance(g.target, ast.Tuple) \
                and len(g.target.elts) == 2 and isinstance(g.target.elts[1], ast.Name):
            return g.target.elts[1].id
        g = parent(g)
    return None


def _bandit_calls(fn, meth):
    """calls <bandit>.<meth>(...) where <bandit> is the loop variable over self.bandits"""
    out = []
    for c in ast.walk(fn.node):
        if isinstance(c, ast.Call) and isinstance(c.func, ast.Attribute) and c.func.attr == meth and \
                isinstance(c.func.value, ast.Name) and c.func.value.id == _bandit_var(c):
            out.append(c)
    return out


def check_drivers(ctx):
    prog = ctx.prog
    n = 0
    for cname, meth in DRIVERS:
        fn = prog.method(cname, meth)
        ctx.saw_fn(fn)
        calc = _bandit_calls(fn, "calculate_distances")
        setd = _bandit_calls(fn, "set_distances")
        if not calc or not setd:
            ctx.undecided("R15.2", "%s: distance cache calls not found" % meth, fn.node, fn,
                          construct="def %s" % meth)
            continue
        for c in calc:
            n += 1
            mab = c.func.value.id
            arg = ast.unparse(c.args[0])
            # the predict calls of the same bandit in the same turn of the bandit loop that can follow this call
            # (not in the other branch of an if/else both lie under)
            br = parent(c)
            while br is not None and not (isinstance(br, ast.For) and ast.unparse(br.iter) == "self.bandits"):
                br = parent(br)

            def chain(n):
                out = []
                p, ch = parent(n), n
                while p is not None and p is not br:
                    if isinstance(p, ast.If):
                        side = "body" if any(ch is x or any(ch is y for y in ast.walk(x)) for x in p.body) else "else"
                        if not any(ch is y for y in ast.walk(p.test)):
                            out.append((id(p), side))
                    p, ch = parent(p), p
                return dict(out)
            mine = chain(c)
            preds = []
            for p in _bandit_calls(fn, "predict"):
                if br is None or not any(x is p for x in ast.walk(br)) or not p.args:
                    continue
                theirs = chain(p)
                if any(k in mine and mine[k] != v for k, v in theirs.items()):
                    continue
                if (p.lineno, p.col_offset) < (c.lineno, c.col_offset):
                    continue
                preds.append(p)
            same = bool(preds) and all(ast.unparse(p.args[0]) == arg for p in preds)
            reassigned = False
            if br is not None:
                for s in ast.walk(br):
                    if isinstance(s, ast.Assign) and any(ast.unparse(t) == arg for t in s.targets):
                        reassigned = True
            ctx.check(same and not reassigned, "R15.2", "%s: distances are computed for the rows that are predicted"
                      % meth, c, fn, "calculate_distances(%s) vs predict(%s)" % (
                          arg, [ast.unparse(p.args[0]) for p in preds]))
        # R15.3 metric guard
        for c in calc + setd:
            n += 1
            mab = c.func.value.id
            stmt = parent(c)
            if c.func.attr == "calculate_distances":
                tgt = stmt.targets[0] if isinstance(stmt, ast.Assign) else None
                keyed = isinstance(tgt, ast.Subscript) and ("%s.metric" % mab) in ast.unparse(tgt.slice)
                what = "stored under"
            else:
                a0 = c.args[0]
                keyed = isinstance(a0, ast.Subscript) and ("%s.metric" % mab) in ast.unparse(a0.slice)
                what = "taken from"
            guarded = False
            g = parent(c)
            while g is not None and g is not fn.node:
                if isinstance(g, ast.If) and "metric" in ast.unparse(g.test):
                    guarded = True
                g = parent(g)
            ctx.check(keyed or guarded, "R15.3", "%s: the shared distance list is %s the bandit's metric" %
                      (meth, what), c, fn,
                      "distances computed with one bandit's metric can reach a bandit configured with another "
                      "metric: the cache is neither keyed by the bandit's metric nor guarded by a metric comparison")
    ctx.floor("R15.2", "driver cache sites", n, 6)


def check_lsh_pairs(ctx):
    prog = ctx.prog
    n = 0
    for lib, sim, meth in LSH_PAIRS:
        n += 1
        fl, fs = prog.cls(lib).methods.get(meth), prog.cls(sim).methods.get(meth)
        if fl is None or fs is None:
            # one side was restructured away: the two implementations are no longer written alike, and nothing here
            # can show that they still compute the same thing
            have = fl or fs
            if have is None:
                raise AnalysisError("anchored methods %s.%s / %s.%s not found" % (lib, meth, sim, meth))
            ctx.violate("R15.5", "%s.%s == %s.%s (modulo renaming)" % (lib, meth, sim, meth), have.node, have,
                        "%s.%s no longer exists while %s.%s does: library and simulator LSH implementations have "
                        "diverged" % ((lib, meth, sim, meth) if fl is None else (sim, meth, lib, meth)),
                        construct="def %s.%s / def %s.%s" % (lib, meth, sim, meth))
            continue
        ctx.saw_fn(fl)
        ctx.saw_fn(fs)
        def resolver(cname):
            def r(meth):
                f_ = prog.cls(cname).resolve(meth)
                if f_ is None or f_.is_static:
                    return None
                return list(f_.params[1:])
            return r
        a, b = normal_form(fl.node, RENAME, resolver(lib)), normal_form(fs.node, RENAME, resolver(sim))
        ctx.check(a == b, "R15.5", "%s.%s == %s.%s (modulo renaming)" % (lib, meth, sim, meth), fs.node, fs,
                  _first_diff(a, b), construct="def %s.%s / def %s.%s" % (lib, meth, sim, meth))
    ctx.floor("R15.5", "LSH method pairs", n, 6)


def _first_diff(a, b):
    la, lb = a.split("\n"), b.split("\n")
    for x, y in zip(la, lb):
        if x != y:
            return "library `%s` vs simulator `%s`" % (x.strip(), y.strip())
    return "different length (%d vs %d lines)" % (len(la), len(lb))


def _row_events(F, c, label, sim):
    root = F.trace(c, label, sim=sim)
    w = F.focus(c, root, sim=sim)
    out = []
    for pc, anc in calls_of(root, name="_predict_contexts"):
        if pc.a["callee"].is_trivial():
            continue
        loop = None
        for ev in pc.children:
            if ev.kind == "for" and not ev.a.get("comp") and not ev.a.get("parallel"):
                loop = ev
        if loop is None:
            continue
        copies = [norm_stmt(ev.node) for ev in pc.children if ev.kind == "ext" and ev.a["name"] == "copy.deepcopy"]
        seq = []
        rf = _row_form(pc.a["callee"])
        cache, elem_x = None, None
        if sim:
            cache = _cache_text(pc.a["callee"])
            elem_x = _batch_elem_text(F.prog)
        gk = _GUARD_KEYS.setdefault((id(F.prog), pc.a["callee"].qualname, sim), {})

        def guard_key(g):
            t = gk.get(id(g.node))
            if t is None:
                t = guard_text(g.node)
                if cache is not None and elem_x is not None:
                    t = t.replace(cache, elem_x)
                gk[id(g.node)] = t
            pol = g.polarity
            while t.startswith("not "):
                t, pol = t[4:], not pol
            return t, pol

        def guard_text(node):
            from .semantic import emptiness, sem_text
            e = rf.expr(node)
            em = emptiness(e)
            if em is not None:
                return "EMPTY(%s)" % em[0] if em[1] else "not EMPTY(%s)" % em[0]
            return sem_text(e)
        for ev, a2 in walk(loop):
            if ev.kind == "draw":
                user = ev.stack[-2][0] if len(ev.stack) >= 2 else ev.fn
                branch = tuple(guard_key(g) for g in ev.guards
                               if g.fn is pc.a["callee"] and g not in pc.guards
                               and not isinstance(parent(g.node), (ast.For, ast.comprehension)))
                # which top-level call of the row body (lp.predict / lp.predict_expectations / ...) is drawing
                depth = len(pc.stack) + 1
                frames = [f for f, _ in ev.stack[depth:]]
                entry = next((f.name for f in frames if f.name not in ("_get_nhood_predictions",
                                                                       "_get_no_nhood_predictions")), "?")
                seq.append(("draw", ev.a["method"], entry + ":" + user.qualname, branch))
            elif ev.kind == "call" and ev.a["callee"].name == "fit" and ev.a["callee"].cls is not None and \
                    ev.a["callee"].cls.name != "_RidgeRegression" and any(
                        b.name == "BaseMAB" for b in ev.a["callee"].cls.mro):
                args = ev.a["args"]
                srcs = []
                for p in ("decisions", "rewards", "contexts"):
                    v = args.get(p)
                    flds = sorted({d[1][0] for d in (v.deps if v is not None else ())
                                   if isinstance(d, tuple) and len(d) == 2 and isinstance(d[0], int) and d[1]
                                   and d[1][0] in (".decisions", ".rewards", ".contexts", ".raw_rewards")})
                    srcs.append((p, tuple(flds)))
                seq.append(("fit", ev.a["callee"].qualname, tuple(srcs)))
        out.append((pc.a["callee"].qualname, copies, seq, loop))
    return out, w


def check_traces(ctx, F):
    prog = ctx.prog
    n = 0
    for c in F.sim_configs():
        for label in ("predict", "predict_expectations"):
            lib, _ = _row_events(F, c, label, False)
            sim, _ = _row_events(F, c, label, True)
            if not lib or not sim:
                ctx.undecided("R15.4", "no row loop trace for %s %s" % (c.name, label), construct=c.name,
                              where="simulator")
                continue
            (lname, lcopies, lseq, lloop), (sname, scopies, sseq, sloop) = lib[0], sim[0]
            n += 1
            fn = prog.method(sname.split(".")[0], "_predict_contexts")
            ctx.check(lcopies == scopies and bool(scopies), "R15.4", "%s works on a deepcopy like %s" % (sname, lname),
                      fn.node, fn, "library %s vs simulator %s" % (lcopies, scopies),
                      construct="copies of " + sname)
            lfit = [e for e in lseq if e[0] == "fit"]
            sfit = [e for e in sseq if e[0] == "fit"]
            ctx.check(lfit == sfit, "R15.4", "%s trains the worker policy on the same fields as %s (%s)" %
                      (sname, lname, label), fn.node, fn, "library %s vs simulator %s [%s]" % (lfit, sfit, c.name),
                      construct="fit operands of %s (%s)" % (sname, label))
            ldraw = [e for e in lseq if e[0] == "draw"]
            sdraw = [e for e in sseq if e[0] == "draw"]
            ok = True
            for br in sorted({e[3] for e in ldraw} | {e[3] for e in sdraw}, key=str):
                lb = [e[:3] for e in ldraw if e[3] == br]
                sb = [e[:3] for e in sdraw if e[3] == br]
                # in predict mode the simulator may go on drawing (to report expectations) after the prediction
                ok = ok and (sb[:len(lb)] == lb if label == "predict" else sb == lb)
            ctx.check(ok, "R15.4", "%s consumes the row generator like %s up to the reported result (%s)" %
                      (sname, lname, label), fn.node, fn, "library draws %s ; simulator draws %s [%s]" %
                      (ldraw, sdraw, c.name), construct="draw sequence of %s (%s)" % (sname, label))
    # operands of the neighbourhood fit, as expressions
    fl = prog.method("_Neighbors", "_get_nhood_predictions")
    fs = prog.method("_NeighborsSimulator", "_get_nhood_predictions")

    def fit_args(fn):
        for node in ast.walk(fn.node):
            if isinstance(node, ast.Call) and ast.unparse(node.func) == "lp.fit":
                from .sibling import expand_local
                out = []
                for a in node.args:
                    if isinstance(a, ast.Name):
                        e = expand_local(fn.node, a.id)
                        out.append(ast.unparse(e) if e is not None else a.id)
                    else:
                        out.append(ast.unparse(a))
                return out, node
        return None, fn.node
    al, _ = fit_args(fl)
    as_, node = fit_args(fs)
    n += 1
    ctx.check(al is not None and al == as_, "R15.4", "the simulator trains the worker policy on the same rows as the "
              "library (three fields, one selector)", node, fs, "library lp.fit(%s) vs simulator lp.fit(%s)" %
              (al, as_))
    # seeding statement
    for lib, sim in (("_Radius", "_RadiusSimulator"), ("_KNearest", "_KNearestSimulator"),
                     ("_ApproximateNeighbors", "_ApproximateSimulator")):
        fl, fs = prog.method(lib, "_predict_contexts"), prog.method(sim, "_predict_contexts")

        def seed_stmt(fn):
            rf = RowForm(fn)
            for s in ast.walk(fn.node):
                if isinstance(s, ast.Assign) and isinstance(s.value, ast.Call) and \
                        ast.unparse(s.value.func) == "create_rng" and (s.value.args or s.value.keywords):
                    a = s.value.args[0] if s.value.args else s.value.keywords[0].value
                    tgt = s.targets[0]
                    ttxt = rf.text(tgt, at=s)
                    if isinstance(tgt, ast.Attribute) and isinstance(tgt.value, ast.Name):
                        # which object is re-seeded: the worker copy, whatever the local holding it is called
                        e = expand_local(fn.node, tgt.value.id)
                        if e is not None:
                            from .semantic import sem_text
                            ttxt = "<%s>.%s" % (sem_text(e), tgt.attr)
                    return ttxt, rf.text(a, at=s), s
            return None, None, fn.node
        tl, al, _ = seed_stmt(fl)
        ts, as_, node = seed_stmt(fs)
        n += 1
        ctx.check(tl == ts and al == as_ and tl is not None, "R15.4", "%s seeds the row generator like %s" %
                  (sim, lib), node, fs, "library %s = create_rng(%s) ; simulator %s = create_rng(%s)" %
                  (tl, al, ts, as_))
    ctx.floor("R15.4", "library/simulator trace pairs", n, 50)


def check_forwarding(ctx, F):
    prog = ctx.prog
    n = 0
    tb = prog.method("Simulator", "_train_bandits")
    for c in F.sim_configs():
        if c.lp not in ("EpsilonGreedy", "ThompsonSampling", "LinUCB"):
            continue
        lw = F.world(c)
        sw = F.sim_world(c)
        limp = lw.init_heap.objs[next(iter(lw.init_heap.objs[lw.mab_oid].fields["_imp"].refs))]
        simp = sw.init_heap.objs[sw.sim_oid]
        pc = prog.cls(limp.cls)
        stored = set()
        for k in pc.mro:
            init = k.methods.get("__init__")
            if init is None:
                continue
            for node in ast.walk(init.node):
                tgt = node.targets[0] if isinstance(node, ast.Assign) else (
                    node.target if isinstance(node, ast.AnnAssign) else None)
                if tgt is not None and isinstance(tgt, ast.Attribute) and \
                        ast.unparse(tgt.value) == "self" and isinstance(node.value, ast.Name) and \
                        node.value.id in init.params:
                    stored.add(tgt.attr)
        for fld in sorted(stored):
            lv, sv = limp.fields.get(fld), simp.fields.get(fld)
            n += 1
            same = lv is not None and sv is not None and lv.refs == sv.refs and lv.locs == sv.locs and \
                (lv.const == sv.const or (not lv.has_const and not sv.has_const))
            ctx.check(same, "R15.6", "%s receives %s.%s of the bandit it replaces" % (simp.cls, limp.cls, fld),
                      sw.ctor_call, tb, "library value %r vs simulator value %r [%s]" % (lv, sv, c.name),
                      construct="%s(..., %s)" % (simp.cls, fld))
    ctx.floor("R15.6", "forwarded constructor parameters", n, 20)


def check_protocol(ctx):
    prog = ctx.prog
    run = prog.method("Simulator", "run")
    order = []
    for node in ast.walk(run.node):
        if isinstance(node, ast.Call):
            f = ast.unparse(node.func)
            if f in ("self._train_bandits", "self._offline_test_bandits", "self._online_test_bandits",
                     "self._run_train_test_split"):
                order.append((node.lineno, f))
    order = [f for _, f in sorted(order)]
    ok = order[:2] == ["self._run_train_test_split", "self._train_bandits"] and set(order[2:]) == {
        "self._offline_test_bandits", "self._online_test_bandits"}
    ctx.check(ok, "R15.7", "Simulator.run: split, then fit on the training rows, then test", run.node, run,
              "call order %s" % order, construct="def Simulator.run")
    on = prog.method("Simulator", "_online_test_bandits_chunks")
    outer = [s for s in on.node.body if isinstance(s, ast.For)]
    ok2 = False
    detail = ""
    if outer:
        body = outer[-1].body
        chunk_i = pf_i = None
        preds = _bandit_calls(on, "predict")
        pfs = [c for c in _bandit_calls(on, "partial_fit") if any(x is c for x in ast.walk(outer[-1]))]
        for i, s in enumerate(body):
            if isinstance(s, ast.For) and any(x is p for p in preds for x in ast.walk(s)) and chunk_i is None:
                chunk_i = i
            if isinstance(s, ast.For) and any(x is p for p in pfs for x in ast.walk(s)):
                pf_i = i
        ok2 = chunk_i is not None and pf_i is not None and chunk_i < pf_i
        # the batch handed to partial_fit is the batch that was just predicted: the same slices of the test data
        bd = [s for s in ast.walk(outer[-1]) if isinstance(s, ast.Assign) and isinstance(s.targets[0], ast.Name)]
        defs = {s.targets[0].id: s.value for s in bd}

        def src(a):
            return ast.unparse(defs[a.id]) if isinstance(a, ast.Name) and a.id in defs else ast.unparse(a)
        args_ok = all(len(c.args) >= 2 and src(c.args[0]).startswith("test_decisions[") and
                      src(c.args[1]).startswith("test_rewards[") and
                      src(c.args[0]).split("[", 1)[1] == src(c.args[1]).split("[", 1)[1] for c in pfs)
        ok2 = ok2 and args_ok and bool(pfs)
        detail = "predict loop at %s, partial_fit loop at %s" % (chunk_i, pf_i)
    ctx.check(ok2, "R15.7", "online: all predictions of a batch precede partial_fit on that batch", on.node, on, detail,
              construct="def Simulator._online_test_bandits_chunks")
    init = prog.method("Simulator", "__init__")
    src = ast.unparse(init.node)
    ctx.check("decisions = MAB._convert_array(decisions)" in src and "rewards = MAB._convert_array(rewards)" in src and
              "contexts = MAB._convert_matrix(contexts)" in src, "R15.7",
              "Simulator converts its data with the facade's converters", init.node, init,
              construct="def Simulator.__init__")
    tb = prog.method("Simulator", "_train_bandits")
    fits = _bandit_calls(tb, "fit")
    ctx.check(len(fits) == 2 and all(ast.unparse(c.args[0]) == "train_decisions" for c in fits), "R15.7",
              "every bandit is fit on the training rows", tb.node, tb, construct="def Simulator._train_bandits")


def check(ctx):
    F = facts(ctx)
    ctx.rule("R15.1", "simulator neighbour selection == library neighbour selection (cache expanded)")
    ctx.rule("R15.2", "distances are computed for the rows that are predicted")
    ctx.rule("R15.3", "distance cache keyed / guarded by metric")
    ctx.rule("R15.4", "same copies, seeding, fit operands and draw sequence per row")
    ctx.rule("R15.5", "LSH pairs equal under renaming")
    ctx.rule("R15.6", "constructor parameters forwarded from the replaced implementor")
    ctx.rule("R15.7", "protocol order and converters")
    check_selection(ctx)
    check_drivers(ctx)
    check_lsh_pairs(ctx)
    check_traces(ctx, F)
    check_forwarding(ctx, F)
    check_protocol(ctx)
    # R15.8: the simulator's Radius / KNearest read self.distances[start_index + index]; start_index is whatever the
    # library's _parallel_predict passes, so it has to be the global position of the worker's first row
    ctx.rule("R15.8", "_parallel_predict passes the lower bound of each worker's slice as start_index")
    from .c05 import check_partition_sites
    check_partition_sites(ctx, rule="R15.8", only=("BaseMAB._parallel_predict",
                                                    "_NeighborsSimulator.calculate_distances"))
