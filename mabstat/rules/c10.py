# -*- coding: utf-8 -*-
"""C10 - prediction is read-only (DESIGN 3/C10)."""

from ..facts import IMPLEMENTORS, LP_CLASS, NP_CLASS, call_chain, enclosing_fn, fmt_target, walk
from ..model import norm_stmt
from .common import facts, value_dead

EXPLANATION = (
    "Ownership/effect analysis (abstract interpretation of the sources with an abstract heap, every package call "
    "inlined with exact receiver classes per configuration). For each of the 55 learning x neighbourhood "
    "configurations and each of predict / predict_expectations (with and without contexts for context-free "
    "policies) the transitive trace from MAB.<entry> is computed; every store, augmented store, delete and "
    "mutating call in it must target an object allocated inside that call (constructor, deepcopy, numpy "
    "allocation, comprehension), a random stream, or a field whose values no library code ever reads "
    "(value-dead, recomputed from the AST on every run). Decides the structural clause 'no write reachable from "
    "prediction lands on bandit state'; does not decide numerical behaviour of trusted read-only externals.")
ASSUMPTIONS = [
    "CPython ast; externals table (mabstat/externals.py): KMeans.predict, DecisionTreeRegressor.apply, "
    "StandardScaler.transform, cdist, numpy pure functions do not mutate their receiver/arguments",
    "copy.deepcopy returns an object graph sharing nothing mutable with its argument",
    "a defaultdict lookup that materialises an empty bucket is observationally a no-op",
    "advancing a numpy Generator is the only effect of a draw",
]

ENTRIES = ["predict", "predict_expectations", "predict+ctx", "predict_expectations+ctx"]


def check(ctx):
    F = facts(ctx)
    prog = ctx.prog
    ctx.rule("R10.1", "every write reachable from <Implementor>.predict/predict_expectations targets a FRESH "
                      "object, a random stream or a value-dead field")
    ctx.rule("R10.2", "MAB.predict / MAB.predict_expectations write no field of the facade")
    dead_cache = {}
    pairs = set()
    deepcopy_roots = set()
    n_stores = 0
    for c in F.configs():
        imp_cls = NP_CLASS[c.np] if c.np else LP_CLASS[c.lp]
        for label in F.entry_labels(c):
            if label not in ENTRIES:
                continue
            root = F.trace(c, label)
            w = F.world(c)
            pairs.add((imp_cls, label.split("+")[0]))
            bad_here = 0
            for ev, anc in walk(root):
                if ev.kind == "ext" and ev.a["name"] == "copy.deepcopy":
                    fn = enclosing_fn(anc)
                    if fn is not None:
                        deepcopy_roots.add((fn.qualname, norm_stmt(ev.node)))
                if ev.kind != "store":
                    continue
                n_stores += 1
                fn = ev.fn
                for t in ev.a["targets"]:
                    if t.region != "bandit":
                        continue
                    rule = "R10.2" if t.ocls == "MAB" else "R10.1"
                    inst = "%s writes %s" % (label.split("+")[0], fmt_target(t))
                    if t.field is not None:
                        k = (t.ocls, t.field)
                        if k not in dead_cache:
                            dead_cache[k] = value_dead(prog, t.ocls, t.field) if t.ocls in prog.classes else (False,
                                                                                                            ["?"])
                        dead, readers = dead_cache[k]
                        if dead:
                            ctx.ok(rule, inst + " (value-dead)", ev.node, fn,
                                   "field %s.%s is written during prediction but no library code reads its values"
                                   % k)
                            continue
                    bad_here += 1
                    ctx.violate(rule, inst, ev.node, fn,
                                "%s store into bandit state during %s [%s]; path: %s" %
                                (ev.a["skind"], label, c.name, call_chain(anc)))
            if not bad_here:
                ctx.ok("R10.1", "%s.%s: all writes land on fresh objects/streams" % (imp_cls, label.split("+")[0]),
                       where="%s" % imp_cls, construct="%s.%s" % (imp_cls, label.split("+")[0]))
    for fnq, stmt in sorted(deepcopy_roots):
        ctx.ok("R10.1", "worker-local copy root", construct=stmt, where=fnq, detail="deepcopy root in " + fnq)
    ctx.floor("R10.1", "(implementor, entry point) pairs", len(pairs), 24)
    ctx.floor("R10.1", "deepcopy roots on prediction paths", len(deepcopy_roots), 6)
    ctx.floor("R10.1", "store events examined", n_stores, 400)
    ctx.note("stores examined over all configurations: %d" % n_stores)
