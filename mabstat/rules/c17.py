# -*- coding: utf-8 -*-
"""C17 - a rejected call changes nothing."""

import ast

from ..facts import LP_CLASS, NP_CLASS, call_chain, first_call, fmt_target, walk
from ..model import norm_stmt
from .common import facts, parent
from .kill import is_object_publish
from .derive import is_private_copy
from .order import PathWalker

EXPLANATION = (
    "Ordering analysis on the path structure of the abstract traces. (R17.1) in each of MAB.add_arm, remove_arm, "
    "fit, partial_fit, warm_start, predict and predict_expectations, for all 55 configurations, no facade-level "
    "validation or conversion that can raise (raise statements in mab.py / utils.check_*, policy-tuple validators) "
    "is reachable on any path after the first mutation of bandit state. (R17.2) in every contextual implementor's "
    "partial_fit and in every per-arm task run by it, an operation that requires column compatibility of the "
    "call's contexts with the stored model (concatenation with the stored contexts, projection, cdist, "
    "scaler/tree/kmeans application) dominates the first write to bandit state, or the task works on a private "
    "copy and publishes it as its last step; a task must not write after only column-*defining* operations "
    "(tree.fit) while sibling tasks can still reject the batch. (R17.3) the row-aligned history arrays are "
    "published together: nothing that can raise lies between the first and the last store of the group. (R17.4) "
    "warm_start computes its mapping before the first write. (R17.5) the facade rejects decisions / rewards / "
    "contexts of unequal length before anything is touched: the length checks are judged together with the "
    "conditions under which they are reached (only a single decision with a Series of features may skip the "
    "contexts check). Decides the structural clause 'every exception that "
    "depends on argument validity or column compatibility is raised before any state changes'.")
ASSUMPTIONS = [
    "exceptions that do not depend on column compatibility (singular matrices with lambda=0, k-means with fewer "
    "rows than clusters, memory errors) are outside the claim",
    "externals table: which externals require / define the column count",
    "CPython ast",
]

FACADE_ENTRIES = ["fit", "partial_fit", "predict", "predict_expectations", "predict+ctx",
                  "predict_expectations+ctx", "add_arm", "add_arm+bin", "remove_arm", "warm_start"]
REQUIRES = {"numpy.concatenate", "numpy.dot", "scipy.spatial.distance.cdist", ".transform", ".partial_fit", ".apply",
            ".predict", "numpy.vstack", "numpy.append", "numpy.matmul"}
DEFINES = {".fit", ".fit_transform", ".fit_predict"}


def _ctx_dep(v):
    return any(d == ("param", "contexts") for d in v.deps)


def _is_requires(ev):
    if ev.kind != "ext":
        return False
    name = ev.a["name"]
    if name not in REQUIRES:
        return False
    args = list(ev.a.get("args", [])) + list(ev.a.get("kwargs", {}).values())
    if name in ("numpy.concatenate", "numpy.vstack", "numpy.append"):
        # concatenation of the call's contexts with stored contexts
        return any(_ctx_dep(a) for a in args)
    return any(_ctx_dep(a) for a in args)


def _is_defines(ev):
    if ev.kind == "store" and ev.a["skind"].startswith("mutcall:fit"):
        return True
    return False


def _facade_raise(prog, ev):
    if ev.kind != "raise" or ev.fn is None or ev.fn.module is None:
        return False
    return ev.fn.module.name in ("mab", "utils")


class FacadeOrder(PathWalker):
    """state: frozenset of descriptions of mutations seen so far on the path."""

    def __init__(self, eng):
        self.eng = eng
        self.bad = []

    def on_event(self, ev, state):
        if ev.kind == "store":
            ts = [t for t in ev.a["targets"] if t.region in ("bandit", "caller", "global")]
            if ts:
                tag = "F:" if (ev.fn is not None and ev.fn.cls is not None and ev.fn.cls.name == "MAB") else "I:"
                return state | {tag + (ev.fn.qualname if ev.fn else "?") + ": " + norm_stmt(ev.node)}
        elif ev.kind == "raise" and state and _facade_raise(self.eng.prog, ev):
            self.bad.append((ev, sorted(state)[0][2:]))
        elif state and _is_requires(ev) and any(x.startswith("F:") for x in state):
            # the facade has already changed its own state and the implementor can still reject the data
            self.bad.append((ev, sorted(x for x in state if x.startswith("F:"))[0][2:]))
        return state


class AtomicOrder(PathWalker):
    """state: (required_seen: bool-set, written: bool-set) encoded as frozenset of tags."""

    def __init__(self, eng, ctx_name):
        self.eng = eng
        self.bad = []
        self.publishes = []
        self.published = set()
        self.n_requires = 0
        self.n_writes = 0

    def join(self, a, b):
        # REQ must hold on every path; WRITTEN / DEF / published objects on any path
        out = set()
        if "REQ" in a and "REQ" in b:
            out.add("REQ")
        for t in a | b:
            if t != "REQ":
                out.add(t)
        return frozenset(out)

    def enter_body(self, loop_ev, state):
        # objects allocated inside the loop are new objects in every iteration
        lid = loop_ev.a["loop_id"]
        keep = set()
        for t in state:
            if isinstance(t, tuple) and t[0] == "PUB":
                o = self.eng.heap.objs.get(t[1])
                if o is not None and any(l == lid for l, _ in o.stamp):
                    continue
            keep.add(t)
        return frozenset(keep)

    def on_event(self, ev, state):
        eng = self.eng
        if _is_requires(ev):
            self.n_requires += 1
            return state | {"REQ"}
        if ev.kind == "store":
            late = [t for t in ev.a["targets"] if t.region == "fresh" and ("PUB", t.oid) in state]
            if late and "REQ" not in state:
                self.bad.append((ev, "write"))
            ts = [t for t in ev.a["targets"] if t.region == "bandit"]
            if not ts:
                return state
            v = ev.a["value"]
            if v is not None and v.has_const:
                return state            # flag toggles / neutral constants carry no batch data
            if ts[0].field == "is_contextual_binarized":
                return state
            self.n_writes += 1
            defines = _is_defines(ev)
            if is_object_publish(eng, ev) and v is not None and all(
                    is_private_copy(eng, r) for r in v.refs):
                self.publishes.append(ev)
                return state | {"WRITTEN"} | {("PUB", r) for r in v.refs}
            if "REQ" not in state:
                self.bad.append((ev, "defines" if defines else "write"))
            return state | {"WRITTEN"} | ({"DEF"} if defines else set())
        return state


def check_facade(ctx, F):
    n = 0
    for c in F.configs():
        for label in F.entry_labels(c):
            if label not in FACADE_ENTRIES:
                continue
            root = F.trace(c, label)
            w = F.focus(c, root)
            top = root.children[0] if root.children else None
            if top is None or top.kind != "call":
                continue
            fo = FacadeOrder(w.eng)
            fo.run(top, frozenset())
            n += 1
            fn = top.a["callee"]
            for ev, first in fo.bad:
                ctx.violate("R17.1", "MAB.%s can raise after it has already changed state" % fn.name, ev.node, ev.fn,
                            "validation reachable after mutation %s [%s]; path %s" %
                            (first, c.name, " -> ".join(f.qualname for f, _ in ev.stack)))
            if not fo.bad:
                ctx.ok("R17.1", "MAB.%s validates and converts before the first mutation" % fn.name, fn.node, fn,
                       construct="def MAB.%s" % fn.name)
    ctx.floor("R17.1", "facade entry runs walked", n, 400)


def check_atomic(ctx, F):
    prog = ctx.prog
    seen = set()
    for c in F.configs():
        if not c.contextual:
            continue
        root = F.trace(c, "partial_fit")
        w = F.focus(c, root)
        eng = w.eng
        pf = first_call(root, "partial_fit")
        if pf is None:
            continue
        imp_cls = pf.a["recv_cls"].name
        # units: the implementor-level partial_fit body with per-arm tasks treated as separate activations
        tasks = []
        for ev, anc in walk(pf):
            if ev.kind == "for" and ev.a.get("parallel") and ev.a["parallel"].get("require") == "sharedmem":
                for ch in ev.a["body"]:
                    if ch.kind == "call":
                        tasks.append(ch)
                    elif ch.kind == "dispatch":
                        tasks.extend(a for a in ch.a["alts"] if a.kind == "call")
        # per-arm tasks are walked in place: they inherit what the body established before starting them, and
        # the MUST-join over the task loop keeps "some task can write before any task has checked" visible
        units = [("partial_fit", pf)]
        for kind, unit in units:
            fn = unit.a["callee"]
            if fn.is_trivial():
                continue
            ao = AtomicOrder(eng, c.name)
            if kind == "partial_fit":
                # the body without descending into the task groups (they are units of their own), but a REQUIRES
                # in the body protects the tasks
                ao.run(unit, frozenset())
            else:
                ao.run(unit, frozenset())
            seen.add(fn.qualname)
            name = "%s.%s" % (fn.cls.name if fn.cls else "", fn.name)
            if kind == "task":
                # a task is protected when its own REQUIRES dominates its writes, or when it only publishes a
                # private copy as its last event
                pass
            for ev, why in ao.bad:
                tl = [t for t in ev.a["targets"] if t.region == "bandit"] or list(ev.a["targets"])
                ctx.violate("R17.2", "%s writes bandit state before anything has checked the batch's columns (%s)" %
                            (name, fmt_target(tl[0])),
                            ev.node, ev.fn,
                            "%s precedes the first operation that requires column compatibility of the call's "
                            "contexts: a batch with a wrong column count is partly applied before it is rejected "
                            "[%s]" % ("a column-defining estimator fit" if why == "defines" else "a state write",
                                      c.name))
            # private-copy-publish must be the last thing the unit does
            for pev in ao.publishes:
                later = False
                hit = False
                for ev, anc in walk(unit):
                    if ev is pev:
                        hit = True
                        continue
                    if hit and ev.kind in ("ext", "call") and ev.kind == "ext" and _is_requires(ev):
                        later = True
                ctx.check(not later, "R17.2", "%s publishes its private copy after all column-sensitive work" % name,
                          pev.node, pev.fn, "column-sensitive operation after the publish [%s]" % c.name)
            if not ao.bad:
                ctx.ok("R17.2", "%s: a column-compatibility check dominates the first write (or private copy + "
                       "publish)" % name, fn.node, fn, construct="def " + name)
        # R17.3 history group
        _check_group(ctx, F, c, pf, eng)
    ctx.floor("R17.2", "partial_fit units analysed", len(seen), 5)
    ctx.note("atomicity units: %s" % sorted(seen))


def _check_group(ctx, F, c, pf, eng):
    hist = ("decisions", "rewards", "contexts")
    evs = [ev for ev, anc in walk(pf)]
    idx = [i for i, ev in enumerate(evs) if ev.kind == "store" and any(
        t.region == "bandit" and t.field in hist and not t.sub for t in ev.a["targets"])]
    if len(idx) < 2:
        return
    first, last = idx[0], idx[-1]
    bad = None
    for ev in evs[first + 1:last]:
        if ev.kind == "ext" and ev.a["spec"].get("ret") != "deepcopy":
            args = list(ev.a.get("args", []))
            if any(any(isinstance(d, tuple) and d and d[0] == "param" for d in a.deps) for a in args):
                bad = ev
                break
    fn = evs[first].fn
    if bad is not None:
        ctx.violate("R17.3", "%s publishes decisions/rewards/contexts one by one" % fn.qualname, bad.node, bad.fn,
                    "`%s` can raise between the first and the last store of the row-aligned history: the arrays "
                    "end up with different lengths [%s]" % (norm_stmt(bad.node), c.name))
    else:
        ctx.ok("R17.3", "%s publishes the row-aligned history together" % fn.qualname, evs[first].node, fn)


def check_warm_start(ctx, F):
    n = 0
    for c in F.configs(np_=[None]):
        root = F.trace(c, "warm_start")
        w = F.focus(c, root)
        ws = first_call(root, "_warm_start")
        if ws is None:
            continue
        n += 1
        wrote = False
        bad = None
        for ev, anc in walk(ws):
            if ev.kind == "store" and any(t.region == "bandit" for t in ev.a["targets"]):
                wrote = True
            if wrote and ev.kind == "call" and ev.a["callee"].name in ("_get_cold_arm_to_warm_arm",
                                                                         "_get_pairwise_distances",
                                                                         "_get_distance_threshold"):
                bad = ev
        fn = ws.a["callee"]
        ctx.check(bad is None, "R17.4", "warm_start computes the cold->warm mapping before the first write", fn.node,
                  fn, "mapping computation after a write [%s]" % c.name, construct="def BaseMAB._warm_start")
    ctx.floor("R17.4", "warm_start runs", n, 8)


def _guarded(node, top):
    ch, p = node, parent(node)
    while p is not None and p is not top:
        if isinstance(p, (ast.If, ast.For, ast.While, ast.Try)) and not (
                isinstance(p, ast.If) and any(ch is x for x in ast.walk(p.test))):
            return True
        ch, p = p, parent(p)
    return False


def check_row_counts(ctx):
    """R17.5: training indexes rewards and contexts by the positions of the decisions. Unless the facade rejects
    batches whose arrays differ in length before any state is touched, such a batch fails (or silently misaligns)
    in the middle of training. The only tolerated exception is the documented one: a single decision whose context
    row is given as a pandas Series (its length is then the number of features)."""
    from ..model import canon_eq
    prog = ctx.prog
    fn = prog.method("MAB", "_validate_fit_args")
    ctx.saw_fn(fn)
    d, r, c = fn.params[1], fn.params[2], fn.params[3]
    tests = [x.args[0] for x in ast.walk(fn.node) if isinstance(x, ast.Call) and ast.unparse(x.func) == "check_true"
             and x.args]
    eq_r = canon_eq("len(%s)" % d, "len(%s)" % r)
    eq_c = canon_eq("len(%s)" % d, "len(%s)" % c)
    ok_r = any(" ".join(ast.unparse(t).split()) == eq_r for t in tests)
    if ok_r:
        # ... and on every path: the check must not sit under a condition on the data
        rc = [x for x in ast.walk(fn.node) if isinstance(x, ast.Call) and ast.unparse(x.func) == "check_true" and
              x.args and " ".join(ast.unparse(x.args[0]).split()) == eq_r]
        ok_r = any(not _guarded(x, fn.node) for x in rc)
    ctx.check(ok_r, "R17.5", "decisions and rewards of unequal length are rejected by the facade", fn.node, fn,
              "no check_true(%s, ...)" % eq_r, construct="def MAB._validate_fit_args (rewards length)")
    ok_c, seen = False, None

    def skips(call):
        """conditions under which the statement holding `call` is not reached (from the enclosing if statements)"""
        out = []
        ch, p = call, parent(call)
        while p is not None and p is not fn.node:
            if isinstance(p, ast.If) and not any(ch is x for x in ast.walk(p.test)):
                in_body = any(ch is x or any(ch is y for y in ast.walk(x)) for x in p.body)
                g = " ".join(ast.unparse(p.test).split())
                if in_body:
                    # reached only when g holds: skipped when it does not
                    if g not in ("%s is not None" % c,):
                        out.append("not (%s)" % g)
                else:
                    if g not in ("%s is None" % c,):
                        out.append(g)
            ch, p = p, parent(p)
        return out
    calls = [x for x in ast.walk(fn.node) if isinstance(x, ast.Call) and ast.unparse(x.func) == "check_true"
             and x.args]
    for call in calls:
        t = call.args[0]
        parts = t.values if isinstance(t, ast.BoolOp) and isinstance(t.op, ast.Or) else [t]
        txt = [" ".join(ast.unparse(p).split()) for p in parts]
        if eq_c not in txt:
            continue
        txt = txt + skips(call)
        seen = txt
        rest = [p for p in txt if p != eq_c]
        single = canon_eq("len(%s)" % d, "1")
        allowed = {"%s and isinstance(%s, pd.Series)" % (single, c), "isinstance(%s, pd.Series) and %s" % (c, single)}
        ok_c = all(p in allowed for p in rest)
    ctx.check(ok_c, "R17.5", "decisions and contexts of unequal length are rejected by the facade (except one "
              "decision with a Series of features)", fn.node, fn, "length test: %s" % (seen,),
              construct="def MAB._validate_fit_args (contexts length)")


def check(ctx):
    F = facts(ctx)
    ctx.rule("R17.5", "row counts of decisions, rewards and contexts are validated by the facade")
    check_row_counts(ctx)
    ctx.rule("R17.1", "facade: no validation/conversion that can raise after the first mutation, on any path")
    ctx.rule("R17.2", "implementors: a column-compatibility requiring operation dominates the first write, or "
                      "private-copy-publish")
    ctx.rule("R17.3", "row-aligned history arrays are published together")
    ctx.rule("R17.4", "warm_start: mapping before first write")
    check_facade(ctx, F)
    check_atomic(ctx, F)
    check_warm_start(ctx, F)
