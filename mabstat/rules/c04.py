# -*- coding: utf-8 -*-
"""C04 - seeded runs are reproducible and bandit instances are isolated."""

import ast

from .. import externals as X
from ..facts import call_chain, fmt_target, walk
from ..model import norm_stmt
from .common import facts, parent

EXPLANATION = (
    "Exclusion of every source of run-to-run, process-to-process and instance-to-instance variation, decided on "
    "the sources. (R4.1) who-may-call over the resolved import tables of all package modules: the only generator "
    "construction is np.random.default_rng(seed) inside _NumpyRNG with a seed argument, no global numpy/stdlib "
    "RNG, time, uuid, os.urandom, getpid, id() or hash() call exists, cpu_count() is called only in "
    "_effective_jobs; every create_rng/default_rng seed on the abstract traces is explicit and not None. "
    "(R4.2) every construction of KMeans / MiniBatchKMeans / DecisionTreeRegressor / train_test_split on the "
    "abstract traces receives random_state (directly or through a **dict whose 'random_state' key is "
    "must-assigned); an estimator built without it must never be fitted. (R4.3) no iteration over a set whose "
    "elements derive from arm labels. (R4.4) no store in any trace of MAB.__init__ or of any public entry "
    "point, in any of the 55 configurations, targets an object of region GLOBAL (module globals, class "
    "attributes, mutable default arguments / NamedTuple field defaults), through any alias. Decides absence of "
    "the sources; numerical determinism of BLAS/sklearn internals is assumed by the property itself.")
ASSUMPTIONS = [
    "single-threaded numerical kernels (the property's own assumption)",
    "sklearn estimators are deterministic given random_state",
    "externals table; CPython ast",
]

ESTIMATOR_CLS = {"ext:sklearn.KMeans", "ext:sklearn.MiniBatchKMeans", "ext:sklearn.DecisionTreeRegressor"}
LABEL_PARAMS = {"arms", "decisions", "arm", "arm_to_features"}


def _qualified(prog, fn, call):
    """Fully qualified external name of the callee of `call`, or None."""
    f = call.func
    parts = []
    while isinstance(f, ast.Attribute):
        parts.append(f.attr)
        f = f.value
    if not isinstance(f, ast.Name):
        return None
    q = prog.external_name(fn.module, f.id)
    if q is None:
        if f.id in X.BUILTINS and not parts:
            return f.id
        return None
    return ".".join([q] + list(reversed(parts)))


def check(ctx):
    F = facts(ctx)
    prog = ctx.prog
    ctx.rule("R4.1", "generators only from default_rng(seed) in _NumpyRNG; no global RNG / time / uuid / id / hash / "
                     "getpid; cpu_count only in _effective_jobs; generator seeds explicit and process independent")
    ctx.rule("R4.2", "every randomised estimator receives a seed-derived random_state, or is never fitted")
    ctx.rule("R4.3", "no iteration over a set of arm labels")
    ctx.rule("R4.4", "no write to module globals, class attributes or mutable defaults through any alias")

    # ---------------------------------------------------------------- R4.1 who-may-call (all functions, AST)
    n_calls = 0
    rng_ctor = []
    for fn in prog.all_functions():
        ctx.saw_fn(fn)
        for n in ast.walk(fn.node):
            if not isinstance(n, ast.Call):
                continue
            q = _qualified(prog, fn, n)
            if q is None:
                continue
            n_calls += 1
            if q == "numpy.random.default_rng":
                rng_ctor.append((fn, n))
                ok = fn.qualname == "_NumpyRNG.__init__" and (n.args or n.keywords) and not (
                    n.args and isinstance(n.args[0], ast.Constant) and n.args[0].value is None)
                ctx.check(ok, "R4.1", "generator construction default_rng(seed)", n, fn,
                          "generator must be created in _NumpyRNG.__init__ from an explicit seed")
            elif q.startswith(X.NONDET_PREFIXES) and q not in X.NONDET_ALLOWED:
                ctx.violate("R4.1", "nondeterministic call %s" % q, n, fn,
                            "global / unseeded source of randomness or a time/process dependent value")
            elif q in ("id", "hash"):
                ctx.violate("R4.1", "identity/hash dependent call %s()" % q, n, fn,
                            "id() and hash() differ between processes (PYTHONHASHSEED)")
            elif q == "multiprocessing.cpu_count":
                ctx.check(fn.qualname == "BaseMAB._effective_jobs", "R4.1", "cpu_count only sizes the job pool", n,
                          fn, "process-dependent value outside _effective_jobs")
    ctx.floor("R4.1", "generator constructions", len(rng_ctor), 1)
    ctx.floor("R4.1", "resolved external call sites scanned", n_calls, 300)

    # ---------------------------------------------------------------- trace based rules
    n_est = n_seeds = n_loops = n_stores = 0
    for c in F.configs():
        w = F.world(c)
        roots = [("__init__", F.init_trace(c))] + [(lab, F.trace(c, lab)) for lab in F.entry_labels(c)]
        unfitted_ok = {}
        fitted = set()
        for label, root in roots:
            F.focus(c, root)
            eng = w.eng
            for ev, anc in walk(root):
                if ev.kind == "store":
                    n_stores += 1
                    for t in ev.a["targets"]:
                        if t.region == "global":
                            o = eng.obj(t.oid)
                            ctx.violate("R4.4", "%s writes shared object %s" % (label.split("+")[0],
                                                                                o.label or fmt_target(t)),
                                        ev.node, ev.fn, "%s store reaches state shared by all bandit instances "
                                        "(module/class level object or mutable default) [%s]; path %s" %
                                        (ev.a["skind"], c.name, call_chain(anc)))
                    if ev.a["skind"].startswith("mutcall:fit") or ev.a["skind"].startswith("mutcall:partial_fit"):
                        for r in ev.a["base"].refs:
                            fitted.add(r)
                    # an estimator that is stored into the bandit can be fitted by a later call
                    if ev.a["value"] is not None and any(t.region == "bandit" for t in ev.a["targets"]):
                        for r in ev.a["value"].refs:
                            fitted.add(r)
                elif ev.kind == "ext":
                    res = ev.a.get("result")
                    name = ev.a["name"]
                    if res is not None and ev.a["spec"].get("cls") in ESTIMATOR_CLS:
                        n_est += 1
                        kw = ev.a["kwargs"]
                        rs = kw.get("random_state")
                        if rs is None:
                            for sv in ev.a.get("starkw", []):
                                for r in sv.refs:
                                    mk = eng.obj(r).mustkeys
                                    if "random_state" in mk:
                                        rs = mk["random_state"]
                        if rs is not None and not (rs.has_const and rs.const is None):
                            ctx.ok("R4.2", "%s receives random_state" % name, ev.node, ev.fn)
                        else:
                            for r in res.refs:
                                unfitted_ok[r] = (ev, label)
                    if name == "numpy.random.default_rng":
                        n_seeds += 1
                        args = ev.a["args"]
                        sv = args[0] if args else ev.a["kwargs"].get("seed")
                        good = sv is not None and not (sv.has_const and sv.const is None)
                        site = ev.stack[-2][1] if len(ev.stack) >= 2 else ev.node
                        fnsite = ev.stack[-3][0] if len(ev.stack) >= 3 else ev.fn
                        cr = [s for s in ev.stack if s[0].name == "create_rng"]
                        if cr:
                            idx = ev.stack.index(cr[0])
                            site = cr[0][1]
                            fnsite = ev.stack[idx - 1][0] if idx > 0 else ev.fn
                        ctx.check(good, "R4.1", "generator seed is explicit and process independent", site, fnsite,
                                  "create_rng()/default_rng() without a seed, with None, or with a process dependent seed")
                elif ev.kind == "for":
                    it = ev.a.get("iter")
                    if it is None:
                        continue
                    n_loops += 1
                    _check_set_iteration(ctx, eng, w, ev, it, c)
        for r, (ev, label) in unfitted_ok.items():
            if r in fitted:
                ctx.violate("R4.2", "%s constructed without random_state and fitted" % ev.a["name"], ev.node, ev.fn,
                            "estimator randomness is not tied to the bandit seed [%s]" % c.name)
            else:
                ctx.ok("R4.2", "%s without random_state is never fitted (throw-away)" % ev.a["name"], ev.node, ev.fn)
    # simulator split
    sim = prog.method("Simulator", "_run_train_test_split")
    n_split = 0
    for n in ast.walk(sim.node):
        if isinstance(n, ast.Call) and isinstance(n.func, ast.Name) and n.func.id == "train_test_split":
            n_split += 1
            kws = {k.arg: ast.unparse(k.value) for k in n.keywords}
            ctx.check(kws.get("random_state") == "self.seed", "R4.2", "train_test_split seeded with Simulator.seed",
                      n, sim, "random_state=%s" % kws.get("random_state"))
    # the split may be one call per context scenario or one call over a list of operands (`*arrays`): what must not
    # drop is the number of scenarios (with / without contexts) in which the random split reaches a seeded call
    from . import splitform as SF
    n_scen = 0
    for (ordered, has_ctx), s in SF.scenarios(sim.node).items():
        if not ordered and s.calls:
            n_scen += 1
    ctx.floor("R4.2", "train_test_split sites", n_split, 1)
    ctx.floor("R4.2", "context scenarios in which the random split reaches a train_test_split call", n_scen, 2)
    ctx.floor("R4.2", "estimator constructions on traces", n_est, 20)
    ctx.floor("R4.1", "generator seed flows checked", n_seeds, 100)
    ctx.floor("R4.4", "store events examined", n_stores, 3000)
    ctx.ok("R4.4", "no store event targets shared (global-region) objects: %d store events" % n_stores,
           construct="all entries", where="mabwiser/")
    ctx.ok("R4.3", "no iteration over label-typed sets in %d loops/comprehensions" % n_loops, construct="all loops",
           where="mabwiser/")
    # class-level containers exist and are never mutated (they are region GLOBAL objects in every world)
    ctx.note("mutable class-level / default objects tracked as GLOBAL: %s" % sorted(
        {o.label for w in F._worlds.values() for o in w.eng.persistent.values() if o.label})[:12])


def _label_typed(eng, w, v):
    return "label" in v.tags or "labels" in v.tags


def _check_set_iteration(ctx, eng, w, ev, it, c):
    for r in it.refs:
        o = eng.heap.objs.get(r)
        if o is None or o.cls != "set":
            continue
        elem = o.elem
        if (elem is not None and _label_typed(eng, w, elem)) or "labels" in it.tags:
            ctx.violate("R4.3", "iteration over a set of arm labels", ev.node, ev.fn,
                        "set iteration order depends on the interpreter's hash seed for str labels [%s]" % c.name)
