# -*- coding: utf-8 -*-
"""Shared analyses for C01 / C02 / C06: accumulator vs derived classification, derived purity, staleness,
accumulate-form, absent-arm idempotence, neutral value agreement (DESIGN R1.x / R6.x)."""

import ast

from ..facts import LP_CLASS, call_chain, first_call, walk
from ..model import norm_stmt
from .common import parent, value_dead
from .kill import ACCUMULATING, KillWalker, dep_locations, is_object_publish, loc_of_target

BATCH_PARAMS = {"decisions", "rewards", "contexts"}
# fields that are not reward statistics: decided elsewhere (one line of reason each)
EXCLUDED_FIELDS = {"arm_to_status": "trained/warm bookkeeping, decided by C13 (R13.4)",
                   "is_contextual_binarized": "binarisation typestate flag, decided by C14"}
# activations whose purpose is to copy learned state between arms (C13 R13.1 decides their key discipline)
COPY_FUNCTIONS = {"_copy_arms"}
TRAIN_ENTRIES = ["fit", "partial_fit"]
MGMT_ENTRIES = ["add_arm", "add_arm+bin", "remove_arm"]
IGNORED_INPUTS = {"arms", "rng", "n_jobs", "backend"}      # selection by label / plumbing, not reward statistics


def flat_stores(root, region="bandit"):
    """[(index, event, ancestors)] for store events with a target in `region`, in program order."""
    out = []
    for i, (ev, anc) in enumerate(walk(root)):
        if ev.kind == "store" and any(t.region == region for t in ev.a["targets"]):
            out.append((i, ev, anc))
    return out


def is_private_copy(eng, oid):
    """A fresh object that is a deep copy of a bandit object (private-copy-then-publish idiom)."""
    o = eng.heap.objs.get(oid)
    hops = 0
    while o is not None and o.region == "fresh" and o.copy_of is not None and o.copy_of[1] == () and hops < 6:
        o = eng.heap.objs.get(o.copy_of[0])
        hops += 1
        if o is not None and o.region == "bandit":
            return True
    return False


def training_stores(eng, root):
    """Stores to bandit state or to private copies of bandit objects."""
    out = []
    for i, (ev, anc) in enumerate(walk(root)):
        if ev.kind != "store":
            continue
        if any(t.region == "bandit" or (t.region == "fresh" and is_private_copy(eng, t.oid))
               for t in ev.a["targets"]):
            out.append((i, ev, anc))
    return out


def is_accumulate(eng, ev, loc):
    sk = ev.a["skind"]
    if sk == "reset-all":
        return False
    if sk.startswith("aug") or sk.startswith(ACCUMULATING):
        return True
    v = ev.a["value"]
    return v is not None and loc in dep_locations(eng, v.deps)


def is_batch_guard(g):
    """The guard's test reads the call's data (syntactically: a batch parameter or a local computed from one);
    a test that reads only bandit state (`self.arm_to_count[arm]`) is a state guard."""
    if g.fn is None or g.fn.node is None:
        return any(isinstance(d, tuple) and len(d) == 2 and d[0] == "param" and d[1] in BATCH_PARAMS
                   for d in g.val.deps)
    names = {x.id for x in ast.walk(g.node) if isinstance(x, ast.Name)}
    return bool(names & _tainted_names(g.fn))


def is_loop_guard(g):
    p = parent(g.node)
    return isinstance(p, (ast.For, ast.comprehension)) and getattr(p, "iter", None) is g.node


CARD_OK = ("size", "shape")


def cardinality_test(test) -> bool:
    """x.size / len(x) / x.shape[0] / indices[0].size, bare or compared with 0."""
    def card(e):
        if isinstance(e, ast.Attribute) and e.attr == "size":
            return True
        if isinstance(e, ast.Call) and isinstance(e.func, ast.Name) and e.func.id == "len":
            return True
        if isinstance(e, ast.Subscript) and isinstance(e.value, ast.Attribute) and e.value.attr == "shape":
            return True
        return False
    if isinstance(test, ast.UnaryOp) and isinstance(test.op, ast.Not):
        return cardinality_test(test.operand)
    if card(test):
        return True
    if isinstance(test, ast.Compare) and len(test.ops) == 1 and card(test.left) and \
            isinstance(test.comparators[0], ast.Constant) and test.comparators[0].value == 0:
        return True
    return False


class FieldModel:
    """Accumulator / derived classification of one learning-policy object in one configuration."""

    def __init__(self, F, c, extra_entries=()):
        extra_entries = list(extra_entries)
        self.F, self.c = F, c
        self.w = F.world(c)
        self.eng = self.w.eng
        self.traces = {}
        self.full = {}
        for lab in F.entry_labels(c):
            if lab in TRAIN_ENTRIES + MGMT_ENTRIES + extra_entries:
                root = F.trace(c, lab)
                self.full[lab] = root
                if lab == "partial_fit":
                    # the implementor-level partial_fit (the facade's first-call delegation to fit is the fit entry)
                    sub = first_call(root, "partial_fit")
                    if sub is not None:
                        sub.a.setdefault("heap", root.a["heap"])
                        root = sub
                self.traces[lab] = root
        self.acc, self.derived = set(), set()
        self.writers = {}           # loc -> [(label, ev, anc)]
        self.inputs = {}            # derived loc -> set of locs
        self._classify()

    def _lp_locs(self, ev):
        for t in ev.a["targets"]:
            if t.region == "bandit" and t.ocls != "MAB" and t.field not in EXCLUDED_FIELDS:
                yield t, loc_of_target(t)

    def _classify(self):
        eng = self.eng
        nonacc = set()
        seen = set()
        for lab, root in self.traces.items():
            eng.heap = root.a["heap"]
            for i, ev, anc in flat_stores(root):
                if is_object_publish(eng, ev) and ev.a["skind"] == "setitem":
                    continue
                for t, loc in self._lp_locs(ev):
                    self.writers.setdefault(loc, []).append((lab, ev, anc))
                    if lab not in ("partial_fit", "fit"):
                        continue
                    if lab == "fit" and ev.fn is not None and ev.fn.name == "fit" and ev.fn.cls is not None and \
                            any(b.name == "BaseMAB" for b in ev.fn.cls.mro):
                        continue        # kill prefix in the body of an implementor's fit
                    v = ev.a["value"]
                    if v is not None and v.has_const and not ev.a["skind"].startswith("aug"):
                        continue        # constant bookkeeping (status flags)
                    seen.add(loc)
                    if not is_accumulate(eng, ev, loc):
                        nonacc.add(loc)
        self.acc = seen - nonacc
        self.derived = nonacc
        for loc in self.derived:
            ins = set()
            for lab, ev, anc in self.writers.get(loc, []):
                v = ev.a["value"]
                if v is None:
                    continue
                eng.heap = self.traces[lab].a["heap"]
                for l2 in dep_locations(eng, v.deps):
                    if l2 != loc and l2[0] == loc[0] and (l2 in self.acc or l2 in self.derived or
                                                          l2[1] in ("total_count",)):
                        ins.add(l2)
            self.inputs[loc] = ins

    def name(self, loc):
        o = self.eng.obj(loc[0])
        return "%s.%s" % (o.cls, loc[1])


# ------------------------------------------------------------------------------------------------ R1.1 (a)
def check_self_dependence(ctx, rule, fm: FieldModel):
    eng = fm.eng
    n = 0
    for lab, root in fm.traces.items():
        fm.eng.heap = root.a["heap"]
        for ev, anc in walk(root):
            if ev.kind != "store":
                continue
            for t in ev.a["targets"]:
                loc = loc_of_target(t)
                if t.region != "bandit" or loc not in fm.derived:
                    continue
                n += 1
                if ev.fn is not None and ev.fn.name in COPY_FUNCTIONS:
                    continue
                if not is_accumulate(eng, ev, loc):
                    ctx.ok(rule, "%s is written from other state only" % fm.name(loc), ev.node, ev.fn)
                    continue
                act = None
                for a in reversed(anc):
                    if a.kind == "call":
                        act = a
                        break
                kw = KillWalker(eng, fm.w, {loc})
                kw.self_only = True
                if act is not None:
                    kw.call(act, set())
                if act is None or loc in kw.early:
                    ctx.violate(rule, "%s is re-derived from its own previous value" % fm.name(loc), ev.node, ev.fn,
                                "derived value feeds on itself without being rebuilt from the accumulators first "
                                "in %s (%s path) [%s]" % (act.a["callee"].qualname if act else "?", lab, fm.c.name))
                else:
                    ctx.ok(rule, "%s is rebuilt from other state before it is read in %s" %
                           (fm.name(loc), act.a["callee"].qualname), ev.node, ev.fn)
    return n


# ------------------------------------------------------------------------------------------------ R1.1 (b)
def _key_tags(ev):
    k = ev.a.get("key")
    return {t for t in (k.tags if k is not None else ()) if t.startswith("loopvar:") or t.startswith("param:")}


def _all_keys_store(fm, ev, anc, loc):
    """Store is a whole-dict re-derivation: reset-all, rebind, or keyed by the variable of an all-keys loop that is
    not a per-arm task group."""
    sk = ev.a["skind"]
    if sk in ("reset-all", "rebind"):
        return True
    k = ev.a.get("key")
    if k is None:
        return False
    kw = KillWalker(fm.eng, fm.w, set())
    kw.loop_stack = [a for a in anc if a.kind in ("for", "while")]
    for t in ev.a["targets"]:
        if loc_of_target(t) == loc:
            lev = kw.key_loop(ev, t)
            if lev is not None and not lev.a.get("parallel"):
                return True
    return False


def aggregate_fields(fm: FieldModel):
    out = set()
    for loc in fm.derived:
        for lab, ev, anc in fm.writers.get(loc, []):
            fm.eng.heap = fm.traces[lab].a["heap"]
            v = ev.a["value"]
            if v is not None and v.has_const:
                continue
            if ev.a["skind"] == "setitem" and _all_keys_store(fm, ev, anc, loc):
                out.add(loc)
    return out


def check_staleness(ctx, rule, fm: FieldModel):
    eng = fm.eng
    agg = aggregate_fields(fm)
    n = 0
    for lab, root in fm.traces.items():
        fm.eng.heap = root.a["heap"]
        stores = flat_stores(root)
        for D in sorted(fm.derived, key=str):
            ins = fm.inputs.get(D, set())
            if not ins:
                continue
            for i, wev, wanc in stores:
                wlocs = {loc_of_target(t) for t in wev.a["targets"] if t.region == "bandit"}
                hit = wlocs & ins
                if not hit:
                    continue
                if is_object_publish(eng, wev):
                    continue
                v = wev.a["value"]
                const = v is not None and v.has_const and not wev.a["skind"].startswith("aug")
                if const and wev.a["skind"] != "reset-all":
                    continue            # neutral installs are R1.4's business
                if wev.a["skind"] == "reset-all" and D not in agg:
                    continue            # resets of inputs come with resets of D (R1.4 / C07)
                if wev.a["skind"] in ("mutcall:pop", "del", "mutcall:popitem") and D not in agg:
                    continue            # a per-arm value disappears together with its per-arm inputs (C08)
                n += 1
                wguards = {id(g.node) for g in wev.guards}
                wk = _key_tags(wev)
                ok = False
                for j, sev, sanc in stores:
                    if j <= i:
                        continue
                    if D not in {loc_of_target(t) for t in sev.a["targets"] if t.region == "bandit"}:
                        continue
                    extra = [g for g in sev.guards if id(g.node) not in wguards and not is_loop_guard(g)]
                    if any(is_batch_guard(g) for g in extra):
                        continue
                    if D in agg:
                        if _all_keys_store(fm, sev, sanc, D):
                            ok = True
                            break
                        continue
                    sk = _key_tags(sev)
                    if (wk & sk) or (not wk and any(a.kind == "for" for a in sanc)) or \
                            sev.a["skind"] in ("reset-all", "rebind"):
                        ok = True
                        break
                inst = "%s: write to %s is followed by a re-derivation of %s" % (
                    lab.split("+")[0], "/".join(sorted(fm.name(x) for x in hit)), fm.name(D))
                if ok:
                    ctx.ok(rule, inst, wev.node, wev.fn)
                else:
                    ctx.violate(rule, inst, wev.node, wev.fn,
                                "%s can become stale: after this write no re-derivation follows on every path "
                                "(or only under a condition on the batch) [%s]; path %s" %
                                (fm.name(D), fm.c.name, call_chain(wanc)))
    return n


# ------------------------------------------------------------------------------------------------ R6.2 / R6.4 / R1.6
def _tainted_names(fn, act=None):
    tainted = {p for p in fn.params if p in BATCH_PARAMS}
    if act is not None:
        # parameters that receive batch data at this call site (e.g. X, y of _RidgeRegression.fit)
        for p, v in act.a.get("args", {}).items():
            if p != "self" and any(isinstance(d, tuple) and len(d) == 2 and d[0] == "param" and d[1] in BATCH_PARAMS
                                   for d in v.deps) and not v.refs - frozenset(
                    r for r in v.refs):
                tainted.add(p)
    changed = True
    while changed:
        changed = False
        for n in ast.walk(fn.node):
            if isinstance(n, ast.Assign):
                names = {x.id for x in ast.walk(n.value) if isinstance(x, ast.Name)}
                if names & tainted:
                    for t in n.targets:
                        for x in ast.walk(t):
                            if isinstance(x, ast.Name) and isinstance(x.ctx, ast.Store) and x.id not in tainted:
                                tainted.add(x.id)
                                changed = True
    return tainted


SUMLIKE_ATTR = {"sum", "size"}


def _sumlike(expr, fn, depth=0) -> bool:
    """Expression is a sum-like reduction of selected rows (additive identity on an empty selection)."""
    if isinstance(expr, ast.Call):
        if isinstance(expr.func, ast.Attribute) and expr.func.attr == "sum" and not expr.args:
            return True
        if isinstance(expr.func, ast.Name) and expr.func.id == "len":
            return True
        if ast.unparse(expr.func) in ("np.dot", "np.sum", "list"):
            return True
    if isinstance(expr, ast.Attribute) and expr.attr == "size":
        return True
    if isinstance(expr, ast.BinOp) and isinstance(expr.op, (ast.Add, ast.Sub)):
        return _sumlike(expr.left, fn, depth) and _sumlike(expr.right, fn, depth)
    if isinstance(expr, ast.Name) and depth < 3:
        defs = [n.value for n in ast.walk(fn.node) if isinstance(n, ast.Assign) and
                any(isinstance(t, ast.Name) and t.id == expr.id for t in n.targets)]
        return len(defs) == 1 and _sumlike(defs[0], fn, depth + 1)
    return False


def check_partial_fit_stores(ctx, fm: FieldModel, r62, r64, r16):
    """Every bandit-state store on the partial_fit path below the task functions."""
    eng = fm.eng
    root = fm.traces["partial_fit"]
    fm.eng.heap = root.a["heap"]
    n = 0
    for i, ev, anc in training_stores(eng, root):
        if ev.fn is None or ev.fn.name in ("reset", "_reset_arm_to_status", "_set_arms_as_trained"):
            continue
        if is_object_publish(eng, ev):
            continue
        targets = [t for t in ev.a["targets"] if (t.region == "bandit" or is_private_copy(eng, t.oid))
                   and t.ocls != "MAB"]
        if not targets:
            continue
        v = ev.a["value"]
        if v is not None and v.has_const and not ev.a["skind"].startswith("aug"):
            continue
        loc = loc_of_target(targets[0])
        if targets[0].field == "is_contextual_binarized":
            continue
        n += 1
        acc = is_accumulate(eng, ev, loc)
        in_task = any(a.kind == "call" and a.a["callee"].name == "_fit_arm" for a in anc)
        task = None
        for a in anc:
            if a.kind == "call" and a.a["callee"].name == "_fit_arm":
                task = a
        own_guards = [g for g in ev.guards if task is None or g not in task.guards]
        own_guards = [g for g in own_guards if not is_loop_guard(g)]
        batch_guards = [g for g in own_guards if is_batch_guard(g)]
        # R6.2: a non-accumulating store must be computed from bandit state, not from the batch
        rhs = getattr(ev.node, "value", None)
        act = None
        for a in reversed(anc):
            if a.kind == "call":
                act = a
                break
        if not acc and rhs is not None and ev.a["skind"] in ("setitem", "rebind"):
            tainted = _tainted_names(ev.fn, act)
            used = {x.id for x in ast.walk(rhs) if isinstance(x, ast.Name)} & tainted
            ctx.check(not used, r62, "%s is derived from accumulated state, not from the batch" % fm.name(loc),
                      ev.node, ev.fn, "non-accumulating store reads batch data %s: a later chunk would overwrite "
                      "what earlier chunks contributed [%s]" % (sorted(used), fm.c.name))
        # R1.6: accumulator updates only under cardinality guards
        if acc:
            for g in batch_guards:
                ctx.check(cardinality_test(g.node), r16,
                          "update of %s is guarded only by the size of the arm's selection" % fm.name(loc),
                          ev.node, ev.fn, "guard `%s` reads reward/context values: observations can be dropped [%s]"
                          % (ast.unparse(g.node), fm.c.name))
            if not batch_guards:
                ctx.ok(r16, "update of %s is unconditional" % fm.name(loc), ev.node, ev.fn)
        # R6.4: an arm absent from the chunk leaves its state unchanged
        if in_task:
            if batch_guards:
                ctx.ok(r64, "write to %s happens only when the arm has rows in the chunk" % fm.name(loc), ev.node,
                       ev.fn)
            elif acc:
                inc = getattr(ev.node, "value", None)
                ctx.check(inc is not None and _sumlike(inc, ev.fn), r64,
                          "unguarded update of %s adds a sum-like reduction (0 for an absent arm)" % fm.name(loc),
                          ev.node, ev.fn, "increment `%s` is not an additive-identity reduction of the selected "
                          "rows [%s]" % (ast.unparse(inc) if inc is not None else "?", fm.c.name))
            else:
                tainted = _tainted_names(ev.fn)
                used = {x.id for x in ast.walk(rhs) if isinstance(x, ast.Name)} & tainted if rhs is not None else {
                    "?"}
                ctx.check(not used, r64, "unguarded write to %s re-derives from unchanged state" % fm.name(loc),
                          ev.node, ev.fn, "reads batch data %s without a batch guard [%s]" % (sorted(used),
                                                                                             fm.c.name))
    return n


# ------------------------------------------------------------------------------------------------ R1.4
def neutral_values(F, c, eng_world=None):
    """For every arm-keyed location of the implementor/policy objects: the constant (or derivation construct)
    installed by __init__, by fit (for an unobserved arm) and by the add-arm path (last unconditional write)."""
    w = F.world(c)
    eng = w.eng
    out = {}

    def last_writes(root, label):
        F.focus(c, root)
        res = {}
        resets = {}
        for i, ev, anc in flat_stores(root):
            if is_object_publish(eng, ev):
                continue
            if any(is_batch_guard(g) for g in ev.guards):
                continue
            for t in ev.a["targets"]:
                if t.region != "bandit" or t.ocls == "MAB" or not t.sub:
                    continue
                if ev.a["skind"] not in ("setitem", "reset-all"):
                    continue
                v = ev.a["value"]
                desc = ("const", v.const) if (v is not None and v.has_const) else \
                    ("derived", ev.fn.qualname if ev.fn else "?")
                loc = loc_of_target(t)
                if ev.a["skind"] == "reset-all" and desc[0] == "const":
                    resets[loc] = (desc, ev)
                res[loc] = (desc, ev)
        for loc, d in resets.items():
            res[loc] = d            # a constant reset defines the neutral value of an unobserved arm
        return res

    init = {}
    F.focus(c, F.init_trace(c))
    for i, ev, anc in flat_stores(F.init_trace(c), region="fresh") + flat_stores(F.init_trace(c)):
        v = ev.a["value"]
        for t in ev.a["targets"]:
            if ev.a["skind"] in ("rebind",) and v is not None:
                for r in v.refs:
                    o = eng.obj(r)
                    if o.cls == "dict" and o.elem is not None and o.elem.has_const:
                        init[(t.oid, t.field)] = (("const", o.elem.const), ev)
            elif ev.a["skind"] == "reset-all" and v is not None and v.has_const and t.field is not None:
                init[(t.oid, t.field)] = (("const", v.const), ev)
    out["init"] = init
    out["fit"] = last_writes(F.trace(c, "fit"), "fit")
    out["add"] = last_writes(F.trace(c, "add_arm"), "add_arm")
    return out
