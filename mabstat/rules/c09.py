# -*- coding: utf-8 -*-
"""C09 - predict returns the arm with the highest expectation."""

import ast

from ..facts import calls_of, walk
from ..model import norm_stmt
from .common import facts, parent

EXPLANATION = (
    "Non-interference of the is_predict flag up to a final projection. (R9.1) the cardinality interpreter "
    "(rules/cardinality.py) shows for each of the six context-free policies, per scenario no contexts / one row / "
    "m rows, that predict returns argmax of exactly the dictionary predict_expectations(contexts) returns, resp. "
    "the list of the argmax of each of its dictionaries in row order, whatever the spelling; predict uses no "
    "generator itself; utils.argmax is the first-maximum idiom max(d, key=d.get). (R9.3) the dictionary "
    "TreeBandit maximises per row has exactly the arms as keys in arm-list order (first maximum = arm order on "
    "ties). (R9.2) every branch on "
    "is_predict in the library is a projection pair from the accept-list {argmax(E) | E.copy()}, {X.predict(a) | "
    "X.predict_expectations(a)} on the same object and argument, {arms[np.argmax(E, axis=1)] | dict(zip(self.arms, "
    "row))} with the columns of E built in arm-list order, or one of the two documented exceptions "
    "(empty-neighbourhood draw, TreeBandit's exploration step); on the abstract traces of all 55 configurations "
    "the sequence of generator draws of predict equals that of predict_expectations except for draws inside the "
    "exceptions, so both start from and consume the same random stream; _parallel_predict draws the seeds "
    "without looking at the flag. Decides that predict is a projection of the very expectations "
    "predict_expectations returns; numpy's tie/NaN behaviour inside argmax is trusted (first maximum).")
ASSUMPTIONS = ["max(d, key=d.get) and numpy.argmax return the first maximum", "dict preserves insertion order",
               "CPython ast"]

EXCEPTION_FUNCS = {"_Neighbors._get_no_nhood_predictions": "empty-neighbourhood rows are drawn, not maximised "
                                                           "(documented exception)",
                   "_TreeBandit._predict_contexts": "TreeBandit's epsilon exploration exists only in predict "
                                                    "(excluded by the property)"}


def _pair_ok(a, b):
    """a: predict-branch rhs, b: expectations-branch rhs (ast nodes)."""
    sa, sb = ast.unparse(a), ast.unparse(b)
    if isinstance(a, ast.Call) and isinstance(b, ast.Call) and isinstance(a.func, ast.Attribute) and \
            isinstance(b.func, ast.Attribute) and a.func.attr == "predict" and b.func.attr == "predict_expectations":
        return ast.unparse(a.func.value) == ast.unparse(b.func.value) and \
            [ast.unparse(x) for x in a.args] == [ast.unparse(x) for x in b.args], "X.predict / X.predict_expectations"
    if isinstance(a, ast.Call) and ast.unparse(a.func) == "argmax" and len(a.args) == 1 and \
            sb == ast.unparse(a.args[0]) + ".copy()":
        return True, "argmax(E) / E.copy()"
    if sa.endswith(".tolist()") and "np.argmax(" in sa and isinstance(b, ast.ListComp):
        inner = a.func.value if isinstance(a, ast.Call) else None
        ok = isinstance(inner, ast.Subscript) and isinstance(inner.slice, ast.Call) and \
            ast.unparse(inner.slice.func) == "np.argmax" and "axis=1" in ast.unparse(inner.slice)
        E = ast.unparse(inner.slice.args[0]) if ok else None
        okb = ast.unparse(b.elt) == "dict(zip(self.arms, %s))" % ast.unparse(b.generators[0].target) and \
            ast.unparse(b.generators[0].iter) == E
        return bool(ok and okb), "arms[np.argmax(E, axis=1)] / dict(zip(self.arms, row))"
    return False, "unrecognised pair `%s` | `%s`" % (sa, sb)


def check_projections(ctx):
    prog = ctx.prog
    n = 0
    for fn in prog.all_functions():
        if fn.module.name == "simulator" or "is_predict" not in fn.params:
            continue
        for node in ast.walk(fn.node):
            if not (isinstance(node, ast.If) and ast.unparse(node.test) == "is_predict"):
                continue
            n += 1
            if fn.qualname in EXCEPTION_FUNCS and fn.qualname != "_TreeBandit._predict_contexts":
                ctx.ok("R9.2", "%s: %s" % (fn.qualname, EXCEPTION_FUNCS[fn.qualname]), node, fn)
                continue
            body, orelse = list(node.body), list(node.orelse)
            if fn.qualname == "_TreeBandit._predict_contexts":
                # if is_predict: (if <explore>: random arm else: argmax) else: copy
                inner = body[0] if len(body) == 1 and isinstance(body[0], ast.If) else None
                if inner is not None and len(inner.orelse) == 1:
                    body = inner.orelse
            if len(body) != 1 or len(orelse) != 1:
                ctx.note("R9.2: branch on is_predict in %s is not a single-statement pair; decided by the trace rules"
                         % fn.qualname)
                continue
            a, b = body[0], orelse[0]

            def payload(st):
                """(what receives the value, the value) of a return / assignment / result-list append"""
                if isinstance(st, ast.Return):
                    return "return", st.value
                if isinstance(st, ast.Assign) and len(st.targets) == 1:
                    return ast.unparse(st.targets[0]), st.value
                if isinstance(st, ast.Expr) and isinstance(st.value, ast.Call) and \
                        isinstance(st.value.func, ast.Attribute) and st.value.func.attr == "append" and \
                        len(st.value.args) == 1:
                    return ast.unparse(st.value.func), st.value.args[0]
                return None, None
            (ta, ra), (tb, rb) = payload(a), payload(b)
            same_target = ta is not None and ta == tb
            if ra is None or rb is None or not same_target:
                ctx.note("R9.2: branch on is_predict in %s is not an assignment/return pair; decided by the trace "
                         "rules" % fn.qualname)
                continue
            ok, why = _pair_ok(ra, rb)
            if ok:
                ctx.ok("R9.2", "%s: predict is a projection of what predict_expectations returns (%s)" %
                       (fn.qualname, why), node, fn, why)
            else:
                # an unlisted form is not an alarm by itself: stream equality and result provenance decide
                ctx.note("R9.2: unlisted projection pair in %s: %s" % (fn.qualname, why))
    # conditional expressions on the flag: `f = X.predict if is_predict else X.predict_expectations`, `a if is_predict
    # else b` as an argument or a value
    for fn in prog.all_functions():
        if fn.module.name == "simulator" or "is_predict" not in fn.params:
            continue
        for node in ast.walk(fn.node):
            if not (isinstance(node, ast.IfExp) and ast.unparse(node.test) == "is_predict"):
                continue
            n += 1
            a, b = node.body, node.orelse
            if isinstance(a, ast.Attribute) and isinstance(b, ast.Attribute) and a.attr == "predict" and \
                    b.attr == "predict_expectations" and ast.unparse(a.value) == ast.unparse(b.value):
                ctx.ok("R9.2", "%s: the flag selects X.predict / X.predict_expectations of one object" % fn.qualname,
                       node, fn)
                continue
            ok, why = _pair_ok(a, b)
            if ok:
                ctx.ok("R9.2", "%s: predict is a projection of what predict_expectations returns (%s)" %
                       (fn.qualname, why), node, fn, why)
            else:
                ctx.note("R9.2: unlisted projection pair in %s: %s" % (fn.qualname, why))
    ctx.floor("R9.2", "branches on is_predict", n, 4)
    # columns of the linear expectation matrix are in arm-list order
    fv = prog.method("_Linear", "_vectorized_predict_context")
    from .pattern import find
    from .c15 import _inline
    # the label array that is indexed by argmax and the loop that builds the columns use the same arm sequence
    def arms_seq(e, depth=0):
        """is e the bandit's current arm list, or an order-preserving copy / array of it made in this call?"""
        if depth > 6:
            return False
        if isinstance(e, ast.Attribute):
            return ast.unparse(e) == "self.arms"
        if isinstance(e, ast.Name):
            defs = [n.value for n in ast.walk(fv.node) if isinstance(n, ast.Assign) and len(n.targets) == 1
                    and isinstance(n.targets[0], ast.Name) and n.targets[0].id == e.id]
            # a chain like `arms = deepcopy(self.arms); arms = np.array(arms)`: every definition must qualify
            return bool(defs) and all(arms_seq(d, depth + 1) if not (
                isinstance(d, ast.Call) and any(isinstance(x, ast.Name) and x.id == e.id for x in ast.walk(d)))
                else _wrapper_of(d, e.id) for d in defs)
        if isinstance(e, ast.Call):
            f = ast.unparse(e.func)
            if f in ("deepcopy", "copy.deepcopy", "copy.copy", "np.array", "np.asarray", "list", "tuple") and \
                    len(e.args) >= 1:
                return arms_seq(e.args[0], depth + 1)
            if isinstance(e.func, ast.Attribute) and e.func.attr == "copy" and not e.args:
                return arms_seq(e.func.value, depth + 1)
        return False

    def _wrapper_of(d, name):
        # `name = np.array(name)`: an order-preserving conversion of the previous value of the same name
        return isinstance(d, ast.Call) and ast.unparse(d.func) in ("np.array", "np.asarray", "list", "tuple",
                                                                    "deepcopy") and len(d.args) >= 1 and \
            isinstance(d.args[0], ast.Name) and d.args[0].id == name
    # look at every expression with the locals replaced by what reaches them (a list comprehension or the argmax may
    # have been given a name), in semantic form (X.argmax(axis=1) reads np.argmax(X, axis=1))
    from .semantic import Env, sem_norm
    env = Env(fv.node.body)
    stk = sel = None
    sb = lb = None
    for st in ast.walk(fv.node):
        if not isinstance(st, ast.stmt) or id(st) not in env.env_at or not hasattr(st, "value") or st.value is None:
            continue
        full = sem_norm(env.at(st, st.value))
        if stk is None:
            stk, sb = find("np.array([self.arm_to_model[_A_].predict(_EC_) for _A_ in _ECOLS_]).T", full)
        if sel is None:
            sel, lb = find("_ELAB_[np.argmax(_EM_, axis=1)]", full)
    # the names in the matches are locals of the function: resolve them where they stand
    if stk is None:
        # form B: the matrix is filled column by column:
        #   for <col>, <arm> in enumerate(<arms seq>): E[<rows>, <col>] = self.arm_to_model[<arm>].predict(..)
        for lp_ in [n for n in ast.walk(fv.node) if isinstance(n, ast.For)]:
            it_ = lp_.iter
            if isinstance(it_, ast.Call) and ast.unparse(it_.func) == "enumerate" and len(it_.args) == 1 and \
                    isinstance(lp_.target, ast.Tuple) and len(lp_.target.elts) == 2 and \
                    all(isinstance(x, ast.Name) for x in lp_.target.elts) and len(lp_.body) == 1 and \
                    isinstance(lp_.body[0], ast.Assign) and isinstance(lp_.body[0].targets[0], ast.Subscript):
                col, arm_ = lp_.target.elts[0].id, lp_.target.elts[1].id
                tg_ = lp_.body[0].targets[0]
                last = tg_.slice.elts[-1] if isinstance(tg_.slice, ast.Tuple) and tg_.slice.elts else None
                val_ = lp_.body[0].value
                if isinstance(last, ast.Name) and last.id == col and isinstance(val_, ast.Call) and \
                        ast.unparse(val_.func) == "self.arm_to_model[%s].predict" % arm_:
                    seq_ = env.at(lp_, it_.args[0])
                    stk, sb = lp_, {"_ECOLS_": ast.unparse(seq_), "_EM_": ast.unparse(tg_.value)}
    ok = stk is not None and sel is not None
    detail = "column-building comprehension / column-filling loop or argmax label lookup not found"
    if ok:
        cols = ast.parse(sb["_ECOLS_"], mode="eval").body
        labs = ast.parse(lb["_ELAB_"], mode="eval").body
        ok = arms_seq(cols) and arms_seq(labs)
        detail = "columns are built over `%s`, the argmax column is translated through `%s`: %s" % (
            sb["_ECOLS_"], lb["_ELAB_"], "both are the current arm list" if ok else
            "they are not both (copies of) the current self.arms made in this call, so the label of the best column "
            "can be another arm's")
    ctx.check(ok, "R9.2", "_Linear: expectation columns follow the arm list order used for both projections", fv.node,
              fv, detail, construct="def _Linear._vectorized_predict_context (column order)")
    # the flag is not read before the seeds are drawn
    pp = prog.method("BaseMAB", "_parallel_predict")
    seeds_line = None
    first_use = None
    for node in ast.walk(pp.node):
        if isinstance(node, ast.Assign) and ast.unparse(node.value).startswith("self.rng."):
            seeds_line = node.lineno
        if isinstance(node, ast.Name) and node.id == "is_predict" and isinstance(node.ctx, ast.Load):
            first_use = node.lineno if first_use is None else min(first_use, node.lineno)
    ctx.check(seeds_line is not None and (first_use is None or first_use > seeds_line), "R9.2",
              "_parallel_predict draws the row seeds before the flag is used", pp.node, pp,
              construct="def BaseMAB._parallel_predict (seed draw)")


def check_context_free(ctx):
    prog = ctx.prog
    n = 0
    for cname in ("_EpsilonGreedy", "_UCB1", "_Softmax", "_ThompsonSampling", "_Popularity", "_Random"):
        fp = prog.cls(cname).resolve("predict")
        if fp is None:
            from ..model import AnalysisError
            raise AnalysisError("anchored method %s.predict not found" % cname)
        ctx.saw_fn(fp)
        from .cardinality import M, returned
        for sc in ("none", "one", "many"):
            v, notes = returned(prog, cname, "predict", sc)
            if sc == "many":
                ok = v.kind == "list" and v.n == M and v.elem is not None and v.elem.kind == "scalar" and \
                    v.elem.src == ("argmax", "PE[i]", "dict")
            else:
                ok = v.kind == "scalar" and v.src == ("argmax", "PE", "dict")
            n += 1
            ctx.check(ok, "R9.1", "%s.predict = argmax o predict_expectations (%s)" % (cname, sc), fp.node, fp,
                      "abstract result %r; expected argmax of the dictionary predict_expectations(contexts) returns "
                      "/ the list of the argmax of each of its dictionaries" % (v,),
                      construct="def %s.predict [%s]" % (cname, sc))
        uses_rng = any(isinstance(x, ast.Attribute) and x.attr == "rng" for x in ast.walk(fp.node))
        ctx.check(not uses_rng, "R9.1", "%s.predict does not touch the generator itself" % cname, fp.node, fp,
                  construct="def %s.predict (rng)" % cname)
    fa = prog.function("utils", "argmax")
    body = [s for s in fa.node.body if not (isinstance(s, ast.Expr) and isinstance(s.value, ast.Constant))]
    p = fa.params[0]
    ok = len(body) == 1 and isinstance(body[0], ast.Return) and ast.unparse(body[0].value) in (
        "max(%s, key=%s.get)" % (p, p), "max(%s.keys(), key=%s.get)" % (p, p),
        "max(%s, key=lambda k: %s[k])" % (p, p))
    ctx.check(ok, "R9.1", "utils.argmax returns the first key with the maximal value", fa.node, fa,
              "body `%s`" % (ast.unparse(body[0]) if body else ""), construct="def argmax")
    ctx.floor("R9.1", "context-free predict obligations", n, 18)
    # R9.3: TreeBandit maximises over a dictionary it assembles per row; utils.argmax returns the FIRST key with the
    # largest value, so the arm predicted on a tie is decided by the order of the keys, which must be the order of
    # the arm list (a copy of the bandit's arm dictionary updated under arm keys, or a dictionary built over the arm
    # list) - not, e.g., trained arms first and the rest appended
    from .cardinality import K, V, returned
    tb = prog.method("_TreeBandit", "_predict_contexts")
    ctx.saw_fn(tb)
    for sc in ("one", "many"):
        v, notes = returned(prog, "_TreeBandit", "_predict_contexts", sc, extra={"is_predict": V("bool", const=False)})
        el = v.elem if v.kind == "list" else None
        ok = el is not None and el.kind == "dict" and el.n == K and el.src in ("state", "arms")
        ctx.check(ok, "R9.3", "_TreeBandit: the per-row expectations list the arms in arm-list order (%s)" % sc,
                  tb.node, tb, "abstract result %r: the dictionary that is maximised and returned must have exactly "
                  "the arms as keys, in the order of the arm list" % (v,),
                  construct="def _TreeBandit._predict_contexts (key order) [%s]" % sc)



def _draws(root, eng, config=None):
    out = []
    for ev, anc in walk(root):
        if ev.kind != "draw":
            continue
        user = ev.stack[-2][0] if len(ev.stack) >= 2 else ev.fn
        frames = [f.qualname for f, _ in ev.stack]
        exc = [q for q in frames if q in EXCEPTION_FUNCS]
        if "_TreeBandit._predict_contexts" in frames:
            # only the exploration draws made directly by _predict_contexts are the exception
            # (epsilon-greedy exploration of predict; for every other learning policy predict must not draw more
            # than predict_expectations does)
            own = user.qualname == "_TreeBandit._predict_contexts" and (config is None or
                                                                         config.lp == "EpsilonGreedy")
            exc = ["_TreeBandit._predict_contexts"] if own else [
                q for q in exc if q != "_TreeBandit._predict_contexts"]
        # entry-independent identity: the drawing method and its user, without predict/predict_expectations frames
        out.append((ev.a["method"], user.qualname, bool(exc), ev))
    return out


def check_streams(ctx, F):
    n = 0
    for c in F.configs():
        for suffix in ("", "+ctx"):
            la, lb = "predict" + suffix, "predict_expectations" + suffix
            if la not in F.entry_labels(c):
                continue
            ra, rb = F.trace(c, la), F.trace(c, lb)
            wa = F.focus(c, ra)
            da = [(m, u) for m, u, exc, ev in _draws(ra, wa.eng, c) if not exc]
            db = [(m, u) for m, u, exc, ev in _draws(rb, wa.eng, c) if not exc]
            n += 1
            top = ra.children[0].a["callee"]
            ctx.check(da == db, "R9.2", "predict and predict_expectations consume the random stream identically "
                      "[%s%s]" % (c.name, suffix), top.node, top,
                      "draws of predict %s vs predict_expectations %s" % (da, db),
                      construct="draw sequences [%s%s]" % (c.name, suffix))
    ctx.floor("R9.2", "predict/predict_expectations trace pairs", n, 55)


BAD_SELECTORS = {"min", "numpy.argmin", ".argmin", "numpy.argsort", "sorted", "reversed", "numpy.flip",
                 "numpy.sort", ".sort", ".reverse"}


def _is_label_keyed_dict(eng, v):
    return any(eng.obj(r).cls == "dict" and eng.obj(r).keys is not None and "label" in eng.obj(r).keys.tags
               for r in v.refs if r in eng.heap.objs)


def check_provenance(ctx, F):
    """The arm returned by predict is selected by a first-maximum over expectations in arm order."""
    n = 0
    for c in F.configs():
        for la in ("predict", "predict+ctx"):
            if la not in F.entry_labels(c):
                continue
            root = F.trace(c, la)
            w = F.focus(c, root)
            eng = w.eng
            found = False
            top = root.children[0].a["callee"]
            for ev, anc in walk(root):
                if ev.kind != "ext":
                    continue
                name = ev.a["name"]
                args = ev.a.get("args", [])
                a0 = ev.a.get("recv") if ev.a.get("recv") is not None else (args[0] if args else None)
                if a0 is None:
                    continue
                over_values = isinstance(ev.node, ast.Call) and ev.node.args and isinstance(
                    ev.node.args[0], ast.Call) and isinstance(ev.node.args[0].func, ast.Attribute) and \
                    ev.node.args[0].func.attr == "values"
                if name in ("max", "min") and over_values:
                    continue            # extremum of the values (e.g. soft-max shift), not a choice of an arm
                if name == "max" and _is_label_keyed_dict(eng, a0):
                    key = ev.a["kwargs"].get("key")
                    okk = key is not None and any(cd[0] == "extmeth" and cd[2] == "get" and (cd[1].refs & a0.refs)
                                                  for cd in key.callee)
                    site_fn = ev.fn
                    ctx.check(okk, "R9.2", "the arm is chosen by max(d, key=d.get) over the expectations", ev.node,
                              site_fn, "max over an arm dictionary without key=<that dictionary>.get [%s]" % c.name)
                    found = found or okk
                elif name in ("numpy.argmax", ".argmax"):
                    ax = ev.a["kwargs"].get("axis")
                    if ax is None and name == ".argmax" and args:
                        ax = args[0]
                    oka = "slice" not in a0.tags and ax is not None and ax.has_const and ax.const == 1
                    ctx.check(oka, "R9.2", "np.argmax is taken row-wise over the unmodified expectation matrix",
                              ev.node, ev.fn, "argument is a re-sliced/reordered view or axis is not 1 [%s]" % c.name)
                    found = found or oka
                elif name in BAD_SELECTORS and (_is_label_keyed_dict(eng, a0) or "labels" in a0.tags or
                                                eng.is_label_collection(a0)):
                    ctx.violate("R9.2", "prediction path applies %s to the arms / expectations" % name.lstrip("."),
                                ev.node, ev.fn, "predict must return the first maximum in arm-list order [%s]" %
                                c.name)
            n += 1
            ctx.check(found, "R9.2", "MAB.predict selects the arm by a first-maximum over expectations [%s]" % c.name,
                      top.node, top, "no max(d, key=d.get) / np.argmax(E, axis=1) on the prediction path",
                      construct="selection on the predict path [%s]" % c.name)
    ctx.floor("R9.2", "predict traces checked for the selecting maximum", n, 55)


def check(ctx):
    F = facts(ctx)
    ctx.rule("R9.1", "context-free predict = argmax o predict_expectations; argmax is first-maximum")
    ctx.rule("R9.2", "is_predict only selects a final projection; same random stream consumption")
    ctx.rule("R9.3", "dictionaries that are maximised list the arms in arm-list order")
    check_context_free(ctx)
    check_projections(ctx)
    check_streams(ctx, F)
    check_provenance(ctx, F)
