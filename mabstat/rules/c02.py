# -*- coding: utf-8 -*-
"""C02 - linear policies are exact per-arm ridge regressions with the stated bonus."""

import ast

from .common import facts, parent
from .c01 import check_selectors
from .shapes import Arr, Dim, DimVal, ListOf, ONE, Opaque, SCALAR, ShapeError, ShapeInterp, Undecided

EXPLANATION = (
    "Two small abstract interpreters over the numpy code of linear.py / utils.py plus def-use rules. (R2.1 shape "
    "safety) _RidgeRegression.predict, _LinTS.predict, _LinUCB.predict, _RidgeRegression.fit/init and "
    "_Linear._vectorized_predict_context are interpreted over symbolic shapes for all four classes (one feature | "
    "several) x (one query row | several): every operation must be shape compatible, no two-sided broadcast (an "
    "accidental outer product) may occur, predict must return shape (m,), the per-arm stack must fit the (m, k) "
    "expectation matrix and stores into model fields must keep their shapes. (R2.2 initial model) init is "
    "interpreted in a scaled-identity domain c*lambda^e*I / zero vector: A = lambda*I, A_inv must be lambda^-1*I so "
    "that A*A_inv = I, Xty and beta zero. (R2.3) in fit, A and Xty are updated in accumulate form from the batch, "
    "A_inv and beta are derived from them only and in def-use order; only __init__, init and fit write these "
    "fields; a new arm is initialised when a fit has happened; each predict reads exactly the documented fields. "
    "(R2.4) rows are selected jointly by decisions == arm. (R2.5) may-alias analysis of the query parameter of each "
    "model's predict: no in-place operation (augmented assignment, element store, out=, in-place method, a scaler "
    "built with copy=False) may reach a value that can share memory with it, since the same matrix is handed to "
    "every arm's model. Decides shape correctness for every number of features "
    "and query rows and the never-observed-arm model; numerical agreement with an oracle is not decided.")
ASSUMPTIONS = ["numpy broadcasting / dot / squeeze shape rules as encoded in mabstat/rules/shapes.py",
               "scale=True path preserves shapes (sklearn StandardScaler.transform)",
               "numerical conditioning of inv and the LinTS distribution are not decided", "CPython ast"]

MODEL_CLASSES = ("_RidgeRegression", "_LinTS", "_LinUCB")
DOCUMENTED_READS = {"_RidgeRegression": {"beta"}, "_LinUCB": {"beta", "A_inv", "alpha"},
                    "_LinTS": {"beta", "A_inv", "alpha", "rng"}}


def _fields(si):
    d = si.dim("d")
    return {"beta": Arr((d,)), "A": Arr((d, d)), "A_inv": Arr((d, d)), "Xty": Arr((d,)), "alpha": SCALAR,
            "l2_lambda": SCALAR, "epsilon": SCALAR, "scaler": SCALAR, "scale": SCALAR}


def _squeezes(prog):
    """does _NumpyRNG.multivariate_normal squeeze its sample?  (re-validated on every run)"""
    fn = prog.method("_NumpyRNG", "multivariate_normal")
    rets = [n for n in ast.walk(fn.node) if isinstance(n, ast.Return) and n.value is not None]
    if len(rets) != 1:
        return None
    s = ast.unparse(rets[0].value)
    if s.startswith("np.squeeze(self.rng.multivariate_normal("):
        return True
    if s.startswith("self.rng.multivariate_normal("):
        return False
    return None


def check_shapes(ctx):
    prog = ctx.prog
    sq = _squeezes(prog)
    rngfn = prog.method("_NumpyRNG", "multivariate_normal")
    if sq is None:
        ctx.undecided("R2.1", "_NumpyRNG.multivariate_normal has an unrecognised return form", rngfn.node, rngfn,
                      construct="def _NumpyRNG.multivariate_normal")
        return
    n = 0
    for d_one in (True, False):
        for m_one in (True, False):
            sc = {"d": d_one, "m": m_one}
            tag = "d%s,m%s" % ("=1" if d_one else ">1", "=1" if m_one else ">1")
            for cname in MODEL_CLASSES:
                cls = prog.cls(cname)
                fn = cls.resolve("predict")
                ctx.saw_fn(fn)
                si = ShapeInterp(prog, sc)
                si.squeeze_in_wrapper = sq
                m, d = si.dim("m"), si.dim("d")
                n += 1
                inst = "%s.predict is shape safe and returns (m,) for %s" % (cname, tag)
                try:
                    r = si.run(fn, {"x": Arr((m, d))}, _fields(si))
                    if isinstance(r, Opaque):
                        raise Undecided(r.why)
                    ok = isinstance(r, Arr) and len(r.shape) == 1 and r.shape[0] == m
                    ctx.check(ok, "R2.1", inst, fn.node, fn, "returns shape %r instead of (m,)" % (r,),
                              construct="def %s.predict [%s]" % (fn.cls.name, tag))
                except ShapeError as e:
                    ctx.violate("R2.1", inst, fn.node, fn, str(e), construct="def %s.predict [%s]" % (fn.cls.name,
                                                                                                     tag))
                except Undecided as e:
                    ctx.undecided("R2.1", inst, fn.node, fn, "shape interpreter cannot evaluate %s" % e,
                                  construct="def %s.predict [%s]" % (fn.cls.name, tag))
            # fit / init
            for meth, env_f in (("fit", lambda si: {"X": Arr((Dim("n"), si.dim("d"))), "y": Arr((Dim("n"),))}),
                                ("init", lambda si: {"num_features": DimVal(si.dim("d"))})):
                fn = prog.method("_RidgeRegression", meth)
                ctx.saw_fn(fn)
                si = ShapeInterp(prog, sc)
                n += 1
                inst = "_RidgeRegression.%s keeps the shapes of the normal equations for %s" % (meth, tag)
                try:
                    flds = _fields(si)
                    si.run(fn, env_f(si), flds)
                    d = si.dim("d")
                    want = {"beta": (d,), "Xty": (d,), "A": (d, d), "A_inv": (d, d)}
                    for k in want:
                        if isinstance(flds[k], Opaque):
                            raise Undecided("self.%s: %s" % (k, flds[k].why))
                    bad = {k: flds[k] for k, v in want.items() if not (isinstance(flds[k], Arr) and
                                                                      tuple(flds[k].shape) == v)}
                    ctx.check(not bad, "R2.1", inst, fn.node, fn, "fields with wrong shapes: %s" % bad,
                              construct="def _RidgeRegression.%s [%s]" % (meth, tag))
                except ShapeError as e:
                    ctx.violate("R2.1", inst, fn.node, fn, str(e), construct="def _RidgeRegression.%s [%s]" % (meth,
                                                                                                              tag))
                except Undecided as e:
                    ctx.undecided("R2.1", inst, fn.node, fn, "shape interpreter cannot evaluate %s" % e,
                                  construct="def _RidgeRegression.%s [%s]" % (meth, tag))
            # vectorised prediction over contexts and arms, for each model class
            fv = prog.method("_Linear", "_vectorized_predict_context")
            ctx.saw_fn(fv)
            for cname in MODEL_CLASSES:
                pfn = prog.cls(cname).resolve("predict")

                def resolve(si2, x, depth, pfn=pfn):
                    sub = ShapeInterp(prog, sc, None)
                    sub.squeeze_in_wrapper = sq
                    sub.fresh = si2.fresh + 100
                    # the nested call sees the same scenario; its query rows are the selected rows
                    return sub.run(pfn, {"x": x}, _fields(sub))
                si = ShapeInterp(prog, sc, resolve)
                si.squeeze_in_wrapper = sq
                m, d, k = si.dim("m"), si.dim("d"), Dim("k")
                flds = _fields(si)
                flds["arms"] = ListOf(k, SCALAR)
                n += 1
                inst = "_Linear._vectorized_predict_context stacks %s predictions into an (m, k) matrix for %s" % (
                    cname, tag)
                try:
                    si.run(fv, {"contexts": Arr((m, d)), "is_predict": SCALAR}, flds)
                    ctx.ok("R2.1", inst, fv.node, fv, construct="def _vectorized_predict_context [%s, %s]" % (cname,
                                                                                                               tag))
                except ShapeError as e:
                    ctx.violate("R2.1", inst, fv.node, fv, str(e),
                                construct="def _vectorized_predict_context [%s, %s]" % (cname, tag))
                except Undecided as e:
                    ctx.undecided("R2.1", inst, fv.node, fv, "shape interpreter cannot evaluate %s" % e,
                                  construct="def _vectorized_predict_context [%s, %s]" % (cname, tag))
    ctx.floor("R2.1", "(function, shape class) interpretations", n, 32)


# ------------------------------------------------------------------------------------------------ R2.2
def _scaled(e, env):
    """('I', exponent) | ('zero',) | ('num',) | None"""
    s = ast.unparse(e)
    if isinstance(e, ast.Call):
        f = ast.unparse(e.func)
        if f in ("np.identity", "np.eye"):
            return ("I", 0)
        if f == "np.zeros":
            return ("zero",)
        if f in ("np.ones", "np.full", "np.empty", "np.arange"):
            return ("nonzero",)
        if f == "np.linalg.inv" and e.args:
            v = _scaled(e.args[0], env)
            return ("I", -v[1]) if v and v[0] == "I" else None
        if f == "np.dot" and len(e.args) == 2:
            a, b = _scaled(e.args[0], env), _scaled(e.args[1], env)
            if (a and a[0] == "zero") or (b and b[0] == "zero"):
                return ("zero",)
            if a and b and a[0] == "I" and b[0] == "I":
                return ("I", a[1] + b[1])
            if a and b and "nonzero" in (a[0], b[0]):
                return ("nonzero",)
            return None
        if isinstance(e.func, ast.Attribute) and e.func.attr == "copy" and not e.args:
            return _scaled(e.func.value, env)
        if f == "StandardScaler":
            return ("num",)
    if isinstance(e, ast.Attribute) and isinstance(e.value, ast.Name) and e.value.id == "self":
        if e.attr == "l2_lambda":
            return ("lam",)
        return env.get(e.attr)
    if isinstance(e, ast.BinOp):
        a, b = _scaled(e.left, env), _scaled(e.right, env)
        if isinstance(e.op, ast.Mult):
            if a == ("lam",) and b and b[0] == "I":
                return ("I", b[1] + 1)
            if b == ("lam",) and a and a[0] == "I":
                return ("I", a[1] + 1)
        if isinstance(e.op, ast.Div) and b == ("lam",) and a and a[0] == "I":
            return ("I", a[1] - 1)
    if isinstance(e, ast.IfExp):
        return ("num",)
    if isinstance(e, ast.Constant):
        return ("num",)
    return None


def check_initial_model(ctx):
    prog = ctx.prog
    fn = prog.method("_RidgeRegression", "init")
    ctx.saw_fn(fn)
    env = {}
    nodes = {}
    for st in fn.node.body:
        if isinstance(st, ast.Assign) and isinstance(st.targets[0], ast.Attribute) and \
                ast.unparse(st.targets[0].value) == "self":
            env[st.targets[0].attr] = _scaled(st.value, env)
            nodes[st.targets[0].attr] = st
    for f in ("Xty", "A", "A_inv", "beta"):
        if env.get(f) is None:
            ctx.undecided("R2.2", "init: value of %s is outside the scaled-identity domain" % f, nodes.get(f, fn.node),
                          fn, "cannot interpret `%s`" % (ast.unparse(nodes[f]) if f in nodes else "missing"))
            return
    ctx.check(env["Xty"] == ("zero",), "R2.2", "a never-observed arm has X'y = 0", nodes["Xty"], fn)
    ctx.check(env["A"] == ("I", 1), "R2.2", "a never-observed arm has A = lambda * I", nodes["A"], fn,
              "A is lambda^%s * I" % (env["A"][1] if env["A"][0] == "I" else "?"))
    ok = env["A_inv"][0] == "I" and env["A"][0] == "I" and env["A_inv"][1] + env["A"][1] == 0
    ctx.check(ok, "R2.2", "a never-observed arm has A_inv = I / lambda (A * A_inv = I)", nodes["A_inv"], fn,
              "A * A_inv = lambda^%s * I: the exploration bonus of an arm without observations is scaled by "
              "lambda instead of 1/lambda" % (env["A_inv"][1] + env["A"][1] if env["A_inv"][0] == "I" else "?"))
    ctx.check(env["beta"] == ("zero",), "R2.2", "a never-observed arm has zero coefficients", nodes["beta"], fn)


# ------------------------------------------------------------------------------------------------ R2.3
def check_incremental(ctx):
    prog = ctx.prog
    fn = prog.method("_RidgeRegression", "fit")
    ctx.saw_fn(fn)
    batch = {"X", "y"}
    changed = True
    while changed:
        changed = False
        for n in ast.walk(fn.node):
            if isinstance(n, ast.Assign) and isinstance(n.targets[0], ast.Name):
                names = {x.id for x in ast.walk(n.value) if isinstance(x, ast.Name)}
                if names & batch and n.targets[0].id not in batch:
                    batch.add(n.targets[0].id)
                    changed = True
    order = []
    for st in fn.node.body:
        if isinstance(st, ast.Assign) and isinstance(st.targets[0], ast.Attribute) and \
                ast.unparse(st.targets[0].value) == "self":
            f = st.targets[0].attr
            order.append(f)
            reads = {x.attr for x in ast.walk(st.value) if isinstance(x, ast.Attribute) and
                     isinstance(x.value, ast.Name) and x.value.id == "self"}
            names = {x.id for x in ast.walk(st.value) if isinstance(x, ast.Name)}
            if f in ("A", "Xty"):
                v = st.value
                acc = isinstance(v, ast.BinOp) and isinstance(v.op, ast.Add) and (
                    ast.unparse(v.left) == "self." + f or ast.unparse(v.right) == "self." + f) and (names & batch)
                ctx.check(bool(acc), "R2.3", "%s is updated in accumulate form from the batch" % f, st, fn,
                          "expected self.%s = self.%s + g(batch)" % (f, f))
            elif f == "A_inv":
                ctx.check(reads == {"A"} and not (names & batch), "R2.3", "A_inv is derived from A only", st, fn,
                          "reads %s, batch names %s" % (sorted(reads), sorted(names & batch)))
            elif f == "beta":
                ctx.check(reads == {"A_inv", "Xty"} and not (names & batch), "R2.3",
                          "beta is derived from A_inv and Xty only", st, fn,
                          "reads %s, batch names %s" % (sorted(reads), sorted(names & batch)))
    pos = {f: i for i, f in enumerate(order)}
    ok = all(f in pos for f in ("A", "A_inv", "Xty", "beta")) and pos["A"] < pos["A_inv"] < pos["beta"] and \
        pos["Xty"] < pos["beta"]
    ctx.check(ok, "R2.3", "derived quantities are recomputed after their inputs (A, A_inv, X'y, beta)", fn.node, fn,
              "order of stores: %s" % order, construct="def _RidgeRegression.fit (order)")
    # who writes the model fields
    n = 0
    for f in prog.all_functions():
        for node in ast.walk(f.node):
            if isinstance(node, ast.Attribute) and node.attr in ("A", "A_inv", "Xty", "beta") and \
                    isinstance(node.ctx, (ast.Store, ast.Del)):
                n += 1
                ctx.check(f.qualname in ("_RidgeRegression.__init__", "_RidgeRegression.init", "_RidgeRegression.fit"),
                          "R2.3", "model field %s is written only by __init__, init and fit" % node.attr, node, f,
                          "%s writes it" % f.qualname)
    ctx.floor("R2.3", "stores to the model fields", n, 12)
    up = prog.method("_Linear", "_uptake_new_arm")
    from .pattern import find
    n1, b1 = find("_F_ = self.num_features is not None", up.node)
    n2, _ = find("if _F_:\n    self.arm_to_model[arm].init(num_features=self.num_features)", up.node, b1) \
        if b1 else (None, None)
    n3, _ = find("if self.num_features is not None:\n    self.arm_to_model[arm].init(num_features=self.num_features)",
                 up.node)
    n4, _ = find("if self.num_features is not None:\n    self.arm_to_model[arm].init(self.num_features)", up.node)
    ok = n2 is not None or n3 is not None or n4 is not None
    ctx.check(ok, "R2.3", "an arm added after a fit gets an initialised model", up.node, up,
              construct="def _Linear._uptake_new_arm")
    # documented reads of each predict
    for cname, want in DOCUMENTED_READS.items():
        pf = prog.cls(cname).methods.get("predict")
        if pf is None:
            continue
        reads = {x.attr for x in ast.walk(pf.node) if isinstance(x, ast.Attribute) and isinstance(x.value, ast.Name)
                 and x.value.id == "self" and isinstance(x.ctx, ast.Load)} - {"scaler", "_scale_predict_context"}
        ctx.check(reads == want, "R2.3", "%s.predict reads exactly %s" % (cname, sorted(want)), pf.node, pf,
                  "reads %s" % sorted(reads), construct="def %s.predict (reads)" % cname)


# ------------------------------------------------------------------------------------------------ R2.5
FRESH_CALLS = {"np.array", "np.copy", "np.dot", "np.matmul", "np.sqrt", "np.sum", "np.multiply", "np.zeros",
               "np.ones", "np.empty", "np.concatenate", "np.hstack", "np.vstack", "np.einsum", "deepcopy",
               "copy.deepcopy", "np.linalg.inv", "np.atleast_2d_copy"}
VIEW_CALLS = {"np.asarray", "np.squeeze", "np.ravel", "np.reshape", "np.transpose", "np.atleast_2d", "np.atleast_1d",
              "np.asanyarray", "np.ascontiguousarray", "np.expand_dims", "np.broadcast_to", "np.swapaxes"}
VIEW_METHODS = {"reshape", "ravel", "squeeze", "transpose", "view", "swapaxes"}
INPLACE_METHODS = {"sort", "fill", "resize", "put", "itemset", "partition", "setfield", "clip_inplace"}


def _false_kw(call, name):
    for k in call.keywords:
        if k.arg == name:
            return not (isinstance(k.value, ast.Constant) and k.value.value is True)
    return False


def _may_alias(e, aliases):
    """may the value of e share memory with one of the names in `aliases`?"""
    if isinstance(e, ast.Name):
        return e.id in aliases
    if isinstance(e, ast.Attribute):
        return e.attr in ("T", "real", "flat") and _may_alias(e.value, aliases)
    if isinstance(e, ast.Subscript):
        return _may_alias(e.value, aliases)        # basic slices are views; fancy indexing copies (over-approximated)
    if isinstance(e, ast.IfExp):
        return _may_alias(e.body, aliases) or _may_alias(e.orelse, aliases)
    if isinstance(e, ast.Call):
        f = ast.unparse(e.func)
        if f in VIEW_CALLS:
            return bool(e.args) and _may_alias(e.args[0], aliases)
        if f == "np.array":
            return _false_kw(e, "copy") and bool(e.args) and _may_alias(e.args[0], aliases)
        if isinstance(e.func, ast.Attribute):
            if e.func.attr in VIEW_METHODS:
                return _may_alias(e.func.value, aliases)
            if e.func.attr == "astype":
                return _false_kw(e, "copy") and _may_alias(e.func.value, aliases)
        return False
    return False


def _inplace_scalers(prog):
    """StandardScaler(...) constructions of the linear module that do not copy their operand"""
    out = []
    mod = prog.modules["linear"]
    for n in ast.walk(mod.tree):
        if isinstance(n, ast.Call) and ast.unparse(n.func).split(".")[-1] == "StandardScaler" and _false_kw(n, "copy"):
            out.append(n)
    return out


def _param_mutations(prog, cls, fn, param, inplace_scaler, depth=0, seen=None):
    """statements of fn (and of the self-methods it passes the value to) that may modify the array bound to param"""
    seen = seen if seen is not None else set()
    if (fn.qualname, param) in seen or depth > 3:
        return []
    seen.add((fn.qualname, param))
    aliases = {param}
    found = []

    def visit(stmts):
        for st in stmts:
            if isinstance(st, (ast.If, ast.While)):
                scan_expr(st.test, st)
                visit(st.body)
                visit(st.orelse)
                continue
            if isinstance(st, ast.For):
                scan_expr(st.iter, st)
                visit(st.body)
                visit(st.orelse)
                continue
            if isinstance(st, ast.With):
                visit(st.body)
                continue
            if isinstance(st, ast.Try):
                visit(st.body)
                for h in st.handlers:
                    visit(h.body)
                visit(st.orelse)
                visit(st.finalbody)
                continue
            scan_expr(st, st)
            if isinstance(st, ast.AugAssign):
                t = st.target
                if _may_alias(t.value if isinstance(t, ast.Subscript) else t, aliases):
                    found.append((st, fn, "augmented assignment works in place"))
            elif isinstance(st, ast.Assign):
                for t in st.targets:
                    if isinstance(t, ast.Subscript) and _may_alias(t.value, aliases):
                        found.append((st, fn, "element assignment"))
                for t in st.targets:
                    if isinstance(t, ast.Name):
                        if _may_alias(st.value, aliases) or _alias_through_call(st.value):
                            aliases.add(t.id)
                        else:
                            aliases.discard(t.id)

    def _alias_through_call(e):
        # x = self.helper(x): the helper may return its argument
        return isinstance(e, ast.Call) and isinstance(e.func, ast.Attribute) and \
            isinstance(e.func.value, ast.Name) and e.func.value.id == "self" and \
            any(_may_alias(a, aliases) for a in e.args) and cls.resolve(e.func.attr) is not None

    def scan_expr(node, st):
        for c in ast.walk(node):
            if not isinstance(c, ast.Call):
                continue
            for k in c.keywords:
                if k.arg == "out" and _may_alias(k.value, aliases):
                    found.append((st, fn, "out= argument"))
            if isinstance(c.func, ast.Attribute):
                if c.func.attr in INPLACE_METHODS and _may_alias(c.func.value, aliases):
                    found.append((st, fn, "in-place method .%s" % c.func.attr))
                if c.func.attr in ("transform", "fit_transform", "inverse_transform", "partial_fit", "fit") and \
                        "scaler" in ast.unparse(c.func.value) and inplace_scaler and c.args and \
                        _may_alias(c.args[0], aliases):
                    found.append((st, fn, "scaler built with copy=False works on its operand in place"))
                if isinstance(c.func.value, ast.Name) and c.func.value.id == "self":
                    callee = cls.resolve(c.func.attr)
                    if callee is not None:
                        for i, a in enumerate(c.args):
                            if _may_alias(a, aliases) and i + 1 < len(callee.params):
                                found.extend(_param_mutations(prog, cls, callee, callee.params[i + 1], inplace_scaler,
                                                              depth + 1, seen))
    visit(fn.node.body)
    return found


def check_query_unmodified(ctx):
    """The query matrix is handed to every arm's model in turn; a model that changes it in place (e.g. a scaler
    working without a copy on an alias of x) makes the later arms score different contexts."""
    prog = ctx.prog
    inplace = _inplace_scalers(prog)
    n = 0
    for cname in MODEL_CLASSES:
        cls = prog.cls(cname)
        f = cls.resolve("predict")
        ctx.saw_fn(f)
        if len(f.params) < 2:
            ctx.undecided("R2.5", "%s.predict has no query parameter" % cname, f.node, f)
            continue
        n += 1
        bad = _param_mutations(prog, cls, f, f.params[1], bool(inplace))
        inst = "%s.predict leaves the query matrix it is given unmodified" % cname
        if not bad:
            ctx.ok("R2.5", inst, f.node, f, construct="def %s.predict (query matrix)" % cname)
        for st, fn, why in bad:
            ctx.violate("R2.5", inst, st, fn, "%s on a value that may share memory with `%s`, which "
                        "_Linear._vectorized_predict_context hands to the next arm's model as well" % (why, f.params[1]))
    ctx.floor("R2.5", "model predict functions", n, 3)


# ------------------------------------------------------------------------------------------------ R2.6
def check_added_arm_model(ctx):
    """The model of an arm that arrives through add_arm is built with the bandit's own hyper-parameters: every
    constructor argument that the model class stores equals what the models built by the constructor hold."""
    from .common import facts
    from ..facts import walk
    F = facts(ctx)
    prog = ctx.prog
    n = 0
    for c in F.configs(np_=[None], lp=["LinGreedy", "LinTS", "LinUCB"]):
        w = F.world(c)
        root = F.trace(c, "add_arm")
        F.focus(c, root)
        ctx.analysed["configs"].add(c.name)
        h0 = w.init_heap
        imp0 = h0.objs[next(iter(h0.objs[w.mab_oid].fields["_imp"].refs))]
        models0 = []
        for r in imp0.fields["arm_to_model"].refs:
            d = h0.objs[r]
            if d.elem is not None:
                models0.extend(h0.objs[x] for x in d.elem.refs if x in h0.objs)
        if not models0:
            ctx.undecided("R2.6", "no per-arm model in the constructed %s bandit" % c.lp, construct=c.name,
                          where="_Linear.__init__")
            continue
        ref = models0[0]
        for ev, anc in walk(root):
            if ev.kind != "call" or ev.a["callee"].name != "__init__" or ev.a["callee"].cls is None or \
                    ev.a["callee"].cls.name not in MODEL_CLASSES:
                continue
            init = ev.a["callee"]
            site = anc[-1] if anc else ev
            stored = {}
            for k in init.cls.mro:
                f = k.methods.get("__init__")
                if f is None:
                    continue
                for node in ast.walk(f.node):
                    if isinstance(node, ast.Assign) and isinstance(node.targets[0], ast.Attribute) and \
                            ast.unparse(node.targets[0].value) == "self" and isinstance(node.value, ast.Name) and \
                            node.value.id in f.params:
                        stored[node.value.id] = node.targets[0].attr
            for pname, fld in sorted(stored.items()):
                av, fv = ev.a["args"].get(pname), ref.fields.get(fld)
                if av is None or fv is None:
                    continue
                n += 1
                same = av.refs == fv.refs and av.locs == fv.locs and \
                    (av.const == fv.const or (not av.has_const and not fv.has_const))
                ctx.check(same, "R2.6", "the model of an added arm gets the bandit's %s" % fld, ev.node, ev.fn,
                          "constructed models hold %r, the model built by add_arm gets %r: an arm added later is "
                          "regressed with another %s than its siblings [%s]" % (fv, av, fld, c.name),
                          construct="%s(..., %s) in add_arm" % (init.cls.name, pname))
    ctx.floor("R2.6", "constructor arguments of added-arm models compared", n, 9)


# ------------------------------------------------------------------------------------------------ R2.7
def check_small_variance(ctx):
    """Standardisation divides by scaler.scale_. The only features exempted from it (divisor forced to 1) are those
    whose divisor itself is below the tolerance: the mask must be computed from the very array it is applied to."""
    from .pattern import find, find_all
    prog = ctx.prog
    fn = prog.modules["linear"].functions.get("fix_small_variance")
    if fn is None:
        ctx.ok("R2.7", "no divisor of the standardisation is overridden (fix_small_variance absent)",
               construct="fix_small_variance", where="mabwiser/linear.py")
        return
    ctx.saw_fn(fn)
    sc = fn.params[0]
    forced = [(n, b) for n, b in find_all("%s.scale_[_M_] = _EV_" % sc, fn.node)]
    if not forced:
        ctx.ok("R2.7", "fix_small_variance does not override any divisor", fn.node, fn,
               construct="def fix_small_variance")
        return
    for n, b in forced:
        mask = b["_M_"]
        from .c15 import _inline
        cmp_ = _inline(fn.node, ast.Name(id=mask, ctx=ast.Load()))
        defs = [x for x in ast.walk(fn.node) if isinstance(x, ast.Assign) and len(x.targets) == 1 and
                isinstance(x.targets[0], ast.Name) and x.targets[0].id == mask]
        ok = isinstance(cmp_, ast.Compare) and len(cmp_.ops) == 1 and \
            isinstance(cmp_.ops[0], (ast.LtE, ast.Lt)) and \
            ast.unparse(cmp_.left) in ("%s.scale_" % sc, "np.abs(%s.scale_)" % sc) and \
            ast.unparse(cmp_.comparators[0]) == "SCALER_TOLERANCE"
        ctx.check(ok, "R2.7", "the features exempted from standardisation are those whose divisor scale_ is within "
                  "the tolerance", defs[0] if defs else n, fn,
                  "mask `%s`: the divisor scale_ is replaced by 1 for features selected by another statistic (or "
                  "another bound), so features that should be standardised are only centred" %
                  (ast.unparse(cmp_),), construct="def fix_small_variance (mask)")


def check(ctx):
    ctx.rule("R2.7", "divisors of the standardisation are overridden only where the divisor itself is ~0")
    ctx.rule("R2.6", "the model of an arm added later is built with the same hyper-parameters as the others")
    ctx.rule("R2.5", "a model's predict does not modify the query matrix shared by all arms")
    ctx.rule("R2.1", "shape safety for all (d, m) in {1, >1}^2; no two-sided broadcast; predict returns (m,)")
    ctx.rule("R2.2", "initial model: A = lambda*I, A_inv = I/lambda, X'y = 0, beta = 0")
    ctx.rule("R2.3", "accumulate / derive structure, writers, documented reads")
    ctx.rule("R2.4", "joint row selection by decisions == arm")
    check_shapes(ctx)
    check_initial_model(ctx)
    check_incremental(ctx)
    check_selectors(ctx, "R2.4")
    check_query_unmodified(ctx)
    check_added_arm_model(ctx)
    check_small_variance(ctx)
