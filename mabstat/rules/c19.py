# -*- coding: utf-8 -*-
"""C19 - copies and pickles of a bandit behave identically to the original."""

import ast

from ..facts import walk
from ..model import norm_stmt
from .common import facts, parent

EXPLANATION = (
    "The bandit's object graph is plain data, decided on the sources and on the abstract heap. (R19.1) every value "
    "stored into a field of MAB, of an implementor, of a regression model or of the generator wrapper - in the "
    "traces of MAB.__init__ and of every public entry point, all 55 configurations - is a constant, an array, a "
    "container, a program object, an sklearn estimator, a numpy generator or a caller-supplied value; never a "
    "lambda, a generator object, a joblib Parallel/pool, a lock, thread, file handle or module; every defaultdict "
    "factory is a module-level callable or functools.partial of one with constant arguments (AST). (R19.2) none of "
    "the classes of the graph customises copying or pickling (__getstate__/__setstate__/__reduce__/__reduce_ex__/"
    "__copy__/__deepcopy__/__slots__). (R19.3) no state lives outside the graph: no store reaches a module-global "
    "or class-level object, no id()-keyed registry exists; objects shared inside the graph (the arm list, the "
    "generator) are shared by reference between fields of the same root, which both pickle and deepcopy preserve. "
    "Decides that nothing in the graph can fail to round-trip or alias state outside it; that numpy generators, "
    "sklearn estimators and functools.partial round-trip exactly is trusted.")
ASSUMPTIONS = ["numpy Generator, sklearn estimators, functools.partial and defaultdict pickle/deepcopy exactly",
               "binarizers are picklable module-level functions (the property's own restriction)", "CPython ast"]

HOOKS = {"__getstate__", "__setstate__", "__reduce__", "__reduce_ex__", "__copy__", "__deepcopy__",
         "__getnewargs__", "__getnewargs_ex__"}
FORBIDDEN_CALLS = ("Parallel", "open", "Lock", "RLock", "Thread", "Pool", "ThreadPoolExecutor",
                   "ProcessPoolExecutor", "Semaphore", "Event", "Condition", "socket", "iter", "map", "filter")
GRAPH_MODULES = ("mab", "base_mab", "greedy", "ucb", "softmax", "thompson", "popularity", "rand", "linear",
                 "neighbors", "approximate", "clusters", "treebandit", "utils")


def check(ctx):
    F = facts(ctx)
    prog = ctx.prog
    ctx.rule("R19.1", "fields hold plain data: no lambdas, generators, pools, locks, handles; picklable default "
                      "factories")
    ctx.rule("R19.2", "no copy/pickle hooks, no __slots__")
    ctx.rule("R19.3", "no state outside the object graph")
    # ---------------------------------------------------------------- R19.1 (AST over every field store)
    n_stores = 0
    for fn in prog.all_functions():
        if fn.module.name not in GRAPH_MODULES or fn.cls is None or fn.cls.is_namedtuple:
            continue
        ctx.saw_fn(fn)
        for node in ast.walk(fn.node):
            val = None
            if isinstance(node, ast.Assign) and any(isinstance(t, (ast.Attribute, ast.Subscript))
                                                    for t in node.targets):
                val = node.value
            elif isinstance(node, ast.AnnAssign) and isinstance(node.target, ast.Attribute) and node.value is not None:
                val = node.value
            if val is None:
                continue
            tgt = node.targets[0] if isinstance(node, ast.Assign) else node.target
            root = tgt
            while isinstance(root, (ast.Attribute, ast.Subscript)):
                root = root.value
            if not (isinstance(root, ast.Name) and root.id == "self") and not isinstance(tgt, ast.Attribute):
                continue
            n_stores += 1
            bad = None
            for x in ast.walk(val):
                if isinstance(x, ast.Lambda):
                    bad = "a lambda"
                elif isinstance(x, ast.GeneratorExp):
                    p = parent(x)
                    consumed = isinstance(p, ast.Call) and x in p.args
                    if not consumed:
                        bad = "a generator object"
                elif isinstance(x, ast.Call):
                    f = ast.unparse(x.func).split(".")[-1]
                    if f in FORBIDDEN_CALLS and not (f in ("iter", "map", "filter") and isinstance(
                            parent(x), ast.Call)):
                        bad = "the result of %s(...)" % ast.unparse(x.func)
            if bad:
                ctx.violate("R19.1", "%s stores %s in a field" % (fn.qualname, bad), node, fn,
                            "the object graph would no longer be copyable / picklable")
    ctx.ok("R19.1", "no field store of a lambda / generator / pool / lock / handle (%d field stores)" % n_stores,
           construct="field stores", where="mabwiser/")
    ctx.floor("R19.1", "field stores examined", n_stores, 120)
    # defaultdict factories
    n_dd = 0
    for fn in prog.all_functions():
        if fn.module.name not in GRAPH_MODULES + ("simulator",):
            continue
        for node in ast.walk(fn.node):
            if isinstance(node, ast.Call) and ast.unparse(node.func) in ("defaultdict", "collections.defaultdict"):
                n_dd += 1
                ok = False
                why = "no factory"
                if node.args:
                    a = node.args[0]
                    if isinstance(a, ast.Name) and a.id in ("list", "dict", "int", "float", "set", "str", "tuple"):
                        ok = True
                    elif isinstance(a, ast.Call) and ast.unparse(a.func) in ("partial", "functools.partial"):
                        inner = a.args[0] if a.args else None
                        okf = isinstance(inner, (ast.Name, ast.Attribute)) and not (
                            isinstance(inner, ast.Name) and inner.id == "self")
                        okargs = all(isinstance(x, ast.Constant) for x in a.args[1:]) and all(
                            isinstance(k.value, ast.Constant) for k in a.keywords)
                        ok = bool(okf and okargs)
                    why = "factory `%s`" % ast.unparse(a)
                ctx.check(ok, "R19.1", "defaultdict factory is a module-level callable (or partial of one with "
                          "constant arguments)", node, fn, why)
    ctx.floor("R19.1", "defaultdict constructions", n_dd, 5)
    # trace-level: values stored into bandit objects
    n_ev = 0
    for c in F.configs():
        w = F.world(c)
        roots = [("__init__", F.init_trace(c))] + [(lab, F.trace(c, lab)) for lab in F.entry_labels(c)]
        for label, root in roots:
            F.focus(c, root)
            for ev, anc in walk(root):
                if ev.kind != "store":
                    continue
                for t in ev.a["targets"]:
                    if t.region == "global":
                        ctx.violate("R19.3", "%s writes an object outside the bandit's graph" % label.split("+")[0],
                                    ev.node, ev.fn, "state kept in a module / class level object is neither copied "
                                    "nor pickled with the bandit [%s]" % c.name)
                if ev.a["value"] is None or not any(t.region == "bandit" for t in ev.a["targets"]):
                    continue
                n_ev += 1
                v = ev.a["value"]
                if "lambda" in v.tags or ("generator" in v.tags and "comprehension" in v.tags and
                                          not isinstance(getattr(ev.node, "value", None), ast.Call)):
                    ctx.violate("R19.1", "%s stores an unpicklable value into %s" % (label.split("+")[0],
                                                                                  ev.a["targets"][0].field),
                                ev.node, ev.fn, "lambda / generator reaches bandit state [%s]" % c.name)
    ctx.floor("R19.1", "store events on traces", n_ev, 2000)
    # R19.3 (randomness): an estimator that is fitted without a random_state draws from numpy's process-wide
    # generator - state the bandit reads from outside its graph: a copy shares it with the original and a pickle
    # loses it, so original and copy diverge (the same facts decide C04 R4.2 for reproducibility)
    from .c04 import ESTIMATOR_CLS
    n_est = 0
    for c in F.configs():
        w = F.world(c)
        eng = w.eng
        roots = [("__init__", F.init_trace(c))] + [(lab, F.trace(c, lab)) for lab in F.entry_labels(c)]
        unseeded, fitted = {}, set()
        for label, root in roots:
            F.focus(c, root)
            for ev, anc in walk(root):
                if ev.kind == "store":
                    if ev.a["skind"].startswith(("mutcall:fit", "mutcall:partial_fit")):
                        fitted |= set(ev.a["base"].refs)
                    if ev.a["value"] is not None and any(t.region == "bandit" for t in ev.a["targets"]):
                        fitted |= set(ev.a["value"].refs)
                elif ev.kind == "ext" and ev.a.get("result") is not None and \
                        ev.a["spec"].get("cls") in ESTIMATOR_CLS:
                    n_est += 1
                    rs = ev.a["kwargs"].get("random_state")
                    if rs is None:
                        for sv in ev.a.get("starkw", []):
                            for r in sv.refs:
                                mk = eng.obj(r).mustkeys
                                if "random_state" in mk:
                                    rs = mk["random_state"]
                    if rs is None or (rs.has_const and rs.const is None):
                        for r in ev.a["result"].refs:
                            unseeded[r] = (ev, label)
        for r, (ev, label) in unseeded.items():
            if r in fitted:
                ctx.violate("R19.3", "%s is fitted without random_state" % ev.a["name"], ev.node, ev.fn,
                            "its randomness comes from numpy's process-wide generator, which is neither copied nor "
                            "pickled with the bandit: the original and its copies build different models [%s %s]" %
                            (c.name, label.split("+")[0]))
    ctx.floor("R19.3", "estimator constructions on traces", n_est, 20)
    # ---------------------------------------------------------------- R19.2
    n_cls = 0
    for cls in prog.classes.values():
        if cls.module.name not in GRAPH_MODULES or cls.is_namedtuple or cls.name in ("Constants",):
            continue
        n_cls += 1
        hooks = sorted(set(cls.methods) & HOOKS)
        slots = "__slots__" in cls.class_attrs
        ctx.check(not hooks and not slots, "R19.2", "%s does not customise copying / pickling" % cls.name, cls.node,
                  None, "defines %s%s" % (hooks, " and __slots__" if slots else ""),
                  where=prog.relpath(cls.module) + ":%d" % cls.node.lineno, construct="class " + cls.name)
    ctx.floor("R19.2", "classes of the object graph", n_cls, 20)
    # ---------------------------------------------------------------- R19.3 (AST part)
    for fn in prog.all_functions():
        if fn.module.name not in GRAPH_MODULES:
            continue
        for node in ast.walk(fn.node):
            if isinstance(node, ast.Call) and isinstance(node.func, ast.Name) and node.func.id == "id":
                ctx.violate("R19.3", "%s uses id()" % fn.qualname, node, fn,
                            "object identity does not survive copy / pickle")
    ctx.ok("R19.3", "no write to module/class level objects and no id() in the graph's code", construct="graph code",
           where="mabwiser/")
    # sharing inside the graph: rng and arms referenced by fields of objects of the same root
    k = 0
    for c in F.configs():
        w = F.world(c)
        heap = w.skeleton
        reach = w.reachable(w.mab_oid, heap)
        for oid in reach:
            o = heap.objs[oid]
            if o.region not in ("bandit",):
                continue
            for f, v in o.fields.items():
                for r in v.refs:
                    if r in heap.objs and heap.objs[r].region == "global":
                        k += 1
                        pc = prog.classes.get(o.cls)
                        ctx.violate("R19.3", "%s.%s references a module/class level object" % (o.cls, f),
                                    pc.node if pc else None, None, "shared state outside the graph [%s]" % c.name,
                                    where=o.cls or "?", construct="%s.%s" % (o.cls, f))
