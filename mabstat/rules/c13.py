# -*- coding: utf-8 -*-
"""C13 - warm_start only initialises cold arms, from their nearest trained arm."""

import ast

from ..facts import CONTEXT_FREE, LP_CLASS, calls_of, first_call, walk
from ..model import norm_stmt
from .c15 import _inline
from .common import facts, parent, value_dead
from . import derive
from .kill import is_object_publish, loc_of_target

EXPLANATION = (
    "Key-discipline and completeness rules for the warm-start copy, on the abstract traces of the eight learning "
    "policies that support it. (R13.1) every store of _copy_arms is keyed by the mapping's key (the cold arm), "
    "every value it reads is keyed by the mapping's value (the warm arm) and is wrapped in deepcopy (or re-derived "
    "right after by the policy's own derivation); (R13.2) the set of fields copied or re-derived equals the "
    "policy's per-arm learned state (accumulators and derived fields computed by the C01/C06 classification, "
    "minus value-dead ones); (R13.3) in _get_cold_arm_to_warm_arm the outer loop ranges over cold_arms, "
    "candidates come from trained_arms only, the source is the argmin over those candidates and the guard is the "
    "inclusive closest_distance <= threshold; (R13.4) cold_arms = not trained and not warm, trained_arms = "
    "trained; _warm_start computes the mapping before the first write and marks exactly the mapping's keys as "
    "warm with their source; fit resets the status and _set_arms_as_trained clears the warm flag only on a "
    "non-partial fit. Decides which arms can be touched and what is copied; cosine distances / the quantile as "
    "numbers are not decided (monotonicity follows from np.quantile's monotonicity, trusted).")
ASSUMPTIONS = ["np.quantile is monotone in q", "cdist cosine distances are symmetric", "CPython ast"]

WARM_CLASSES = ["_EpsilonGreedy", "_UCB1", "_Softmax", "_ThompsonSampling", "_Linear"]


def check_copy_arms(ctx, F):
    prog = ctx.prog
    n = 0
    for c in F.configs(np_=[None]):
        cls = LP_CLASS[c.lp]
        if cls == "_Random":
            continue
        root = F.trace(c, "warm_start")
        w = F.focus(c, root)
        eng = w.eng
        # the activation that walks the mapping (an override may wrap it with super()._copy_arms(...))
        cas = [ev for ev, _ in calls_of(root, name="_copy_arms")]
        ca = next((ev for ev in cas if any(e.kind == "for" for e in ev.children)), cas[0] if cas else None)
        if ca is None or ca.a["callee"].is_trivial():
            ctx.undecided("R13.1", "%s: _copy_arms not reached from warm_start" % cls, construct=cls + "._copy_arms",
                          where=cls)
            continue
        fn = ca.a["callee"]
        ctx.saw_fn(fn)
        # the mapping loop
        loops = [e for e in ca.children if e.kind == "for"]
        if not loops:
            ctx.undecided("R13.1", "%s._copy_arms has no loop over the mapping" % fn.cls.name, fn.node, fn,
                          construct="def %s._copy_arms" % fn.cls.name)
            continue
        loop = loops[0]
        tnode = loop.node.target
        if not (isinstance(tnode, ast.Tuple) and len(tnode.elts) == 2 and
                ast.unparse(loop.node.iter).endswith(".items()")):
            ctx.undecided("R13.1", "%s._copy_arms: loop is not `for cold, warm in mapping.items()`" % fn.cls.name,
                          loop.node, fn)
            continue
        cold, warm = ast.unparse(tnode.elts[0]), ast.unparse(tnode.elts[1])
        copied = set()
        for ev, anc in walk(loop):
            if ev.kind != "store" or ev.fn is not fn:
                continue
            node = ev.node
            if not (isinstance(node, ast.Assign) and isinstance(node.targets[0], ast.Subscript)):
                continue
            n += 1
            t = node.targets[0]
            key = ast.unparse(t.slice)
            fld = ast.unparse(t.value)
            v = node.value
            okk = key == cold
            okv = isinstance(v, ast.Call) and ast.unparse(v.func) in ("deepcopy", "copy.deepcopy") and len(
                v.args) == 1 and ast.unparse(v.args[0]) == "%s[%s]" % (fld, warm)
            for tt in ev.a["targets"]:
                if tt.region == "bandit" and tt.field:
                    copied.add(tt.field)
            ctx.check(okk and okv, "R13.1", "%s._copy_arms: %s of the cold arm := deepcopy of the warm arm's" %
                      (fn.cls.name, fld), node, fn, "store keyed by `%s`, value `%s` (cold=%s, warm=%s)" %
                      (key, ast.unparse(v), cold, warm))
        # fields re-derived by calls made from _copy_arms after the loop
        rederived = set()
        for ev, anc in walk(ca):
            if ev.kind == "store" and ev.fn is not fn:
                for tt in ev.a["targets"]:
                    if tt.region == "bandit" and tt.field and any(a is ca for a in anc):
                        rederived.add(tt.field)
        # R13.2 completeness
        fm = derive.FieldModel(F, c)
        imp = next(iter(w.imp_val().refs))
        learned = set()
        for loc in fm.acc | fm.derived:
            if loc[0] == imp and loc[1]:
                o = eng.obj(imp)
                fv = w.skeleton.objs[imp].fields.get(loc[1])
                is_arm_dict = fv is not None and any(
                    w.skeleton.objs[r].cls == "dict" and w.skeleton.objs[r].keys is not None and
                    "label" in w.skeleton.objs[r].keys.tags for r in fv.refs)
                if is_arm_dict and not value_dead(prog, o.cls, loc[1])[0]:
                    learned.add(loc[1])
        if cls == "_Linear":
            learned = {"arm_to_model"}
        missing = learned - copied - rederived
        extra = copied - learned - {"arm_to_expectation"}
        ctx.check(not missing, "R13.2", "%s._copy_arms transfers the complete per-arm learned state" % fn.cls.name,
                  fn.node, fn, "learned per-arm state %s, copied %s, re-derived %s: missing %s [%s]" %
                  (sorted(learned), sorted(copied), sorted(rederived), sorted(missing), c.name),
                  construct="def %s._copy_arms (completeness, %s)" % (fn.cls.name, cls))
    ctx.floor("R13.1", "copy statements in _copy_arms", n, 12)


def _candidates(lo):
    """(dictionary name, key variable, value expression, key source, line of the filling loop or None) of the
    per-cold-arm candidate dictionary, written as a filling loop or as a dict comprehension"""
    for s in lo.body:
        if isinstance(s, ast.For) and isinstance(s.target, ast.Name):
            st = [x for x in ast.walk(s) if isinstance(x, ast.Assign) and isinstance(x.targets[0], ast.Subscript)
                  and isinstance(x.targets[0].value, ast.Name)]
            if st and ast.unparse(st[0].targets[0].slice) == s.target.id:
                return st[0].targets[0].value.id, s.target.id, st[0].value, s.iter, s.lineno
        if isinstance(s, ast.Assign) and isinstance(s.targets[0], ast.Name) and isinstance(s.value, ast.DictComp) \
                and len(s.value.generators) == 1 and isinstance(s.value.generators[0].target, ast.Name) and \
                ast.unparse(s.value.key) == s.value.generators[0].target.id:
            g = s.value.generators[0]
            return s.targets[0].id, g.target.id, s.value.value, g.iter, None
    return None


def _subset_of_trained(e):
    """is the expression a sub-collection of self.trained_arms (whatever its container type and filter)?"""
    if isinstance(e, ast.Attribute):
        return ast.unparse(e) == "self.trained_arms"
    if isinstance(e, ast.Call):
        if isinstance(e.func, ast.Name) and e.func.id in ("set", "list", "sorted", "tuple", "frozenset") and e.args:
            return _subset_of_trained(e.args[0])
        if isinstance(e.func, ast.Attribute) and e.func.attr in ("intersection", "difference", "copy"):
            return _subset_of_trained(e.func.value)
        if isinstance(e.func, ast.Name) and e.func.id == "filter" and len(e.args) == 2:
            return _subset_of_trained(e.args[1])
        return False
    if isinstance(e, ast.BinOp):
        if isinstance(e.op, ast.BitAnd):
            return _subset_of_trained(e.left) or _subset_of_trained(e.right)
        if isinstance(e.op, ast.Sub):
            return _subset_of_trained(e.left)
        return False
    if isinstance(e, (ast.ListComp, ast.SetComp, ast.GeneratorExp)) and len(e.generators) == 1:
        g = e.generators[0]
        return isinstance(g.target, ast.Name) and ast.unparse(e.elt) == g.target.id and _subset_of_trained(g.iter)
    return False


def check_mapping(ctx):
    prog = ctx.prog
    fn = prog.method("BaseMAB", "_get_cold_arm_to_warm_arm")
    ctx.saw_fn(fn)
    # the loop over the cold arms (possibly under a guard on the trained arms: with no trained arm every candidate
    # set is empty and the mapping is empty either way)
    outer = [s for s in ast.walk(fn.node) if isinstance(s, ast.For) and
             " ".join(ast.unparse(_inline(fn.node, s.iter)).split()) == "self.cold_arms"]
    ok = False
    detail = ""
    rets = [s for s in ast.walk(fn.node) if isinstance(s, ast.Return) and isinstance(s.value, ast.Name)]
    other_rets = [s for s in ast.walk(fn.node) if isinstance(s, ast.Return) and not isinstance(s.value, ast.Name)]
    mapname = rets[-1].value.id if rets and len({r.value.id for r in rets}) == 1 and all(
        s.value is not None and ast.unparse(s.value) in ("{}", "dict()") for s in other_rets) else None
    if outer and mapname and len(fn.params) >= 3:
        lo = outer[0]
        cold = ast.unparse(lo.target)
        inner = [s for s in lo.body if isinstance(s, ast.For)]
        ok_inner = False
        cand = None
        dft = "self._get_pairwise_distances(%s)" % fn.params[1]
        thr = "self._get_distance_threshold(%s, quantile=%s)" % (dft, fn.params[2])

        def T(e):
            return " ".join(ast.unparse(_inline(fn.node, e, stop={cand, mapname})).split())
        ok_outer = T(lo.iter) == "self.cold_arms"
        form = _candidates(lo)
        if form is not None:
            cand, a, val, src, pos = form
            ok_inner = _subset_of_trained(_inline(fn.node, src, stop={cand, mapname})) and \
                T(val) == "%s[%s][%s]" % (dft, cold, a)
            if pos is not None:
                # loop form: the candidate dictionary starts empty for every cold arm
                fresh = [s for s in ast.walk(lo) if isinstance(s, ast.Assign) and ast.unparse(s.targets[0]) == cand]
                ok_inner = ok_inner and len(fresh) == 1 and ast.unparse(fresh[0].value) in ("{}", "dict()") and \
                    fresh[0].lineno < pos
        guards = [s for s in ast.walk(lo) if isinstance(s, ast.If) and any(
            isinstance(x, ast.Assign) and ast.unparse(x.targets[0]) == "%s[%s]" % (mapname, cold) for x in s.body)]
        stores = [x for x in ast.walk(fn.node) if isinstance(x, ast.Assign) and isinstance(x.targets[0], ast.Subscript)
                  and ast.unparse(x.targets[0].value) == mapname]
        closest_forms = ["argmin(%s)" % cand, "min(%s, key=%s.get)" % (cand, cand)] if cand is not None else []
        got = T(stores[0].value) if len(stores) == 1 else None
        ok_sel = cand is not None and len(stores) == 1 and len(guards) == 1 and got in closest_forms
        if cand is None and len(stores) == 1 and len(guards) == 1:
            # form C: no candidate dictionary, the closest arm is min(<trained arms>, key=<distances of the cold arm>.get)
            from .pattern import match
            mb = match("min(_ES_, key=_ED_.get)", ast.parse(got, mode="eval").body)
            if mb is not None and _subset_of_trained(ast.parse(mb["_ES_"], mode="eval").body) and \
                    " ".join(mb["_ED_"].split()) == "%s[%s]" % (dft, cold):
                ok_inner = ok_sel = True
                closest_forms = [got]
        dists = ["%s[%s][%s]" % (dft, cold, got)] + (["%s[%s]" % (cand, got)] if cand is not None else [])
        ok_guard = ok_sel and T(guards[0].test) in [f % (d, thr) if i == 0 else f % (thr, d) for d in dists
                                                     for i, f in enumerate(("%s <= %s", "%s >= %s"))] and \
            not guards[0].orelse
        ok = ok_outer and ok_inner and ok_sel and ok_guard
        if not ok and form is None:
            # form B: closest_distance, closest_arm = min((D[cold][a], a) for a in <trained arms>)
            from .pattern import find
            nb, bb = find("_CD_, _CL_ = min(((_EV_, _A_) for _A_ in _ES_))", lo)
            if nb is None:
                nb, bb = find("_CD_, _CL_ = min([(_EV_, _A_) for _A_ in _ES_])", lo)
            if nb is not None:
                srcb = _inline(fn.node, ast.parse(bb["_ES_"], mode="eval").body, stop={mapname})
                valb = " ".join(ast.unparse(_inline(fn.node, ast.parse(bb["_EV_"], mode="eval").body,
                                                    stop={mapname})).split())
                ok_inner = _subset_of_trained(srcb) and valb == "%s[%s][%s]" % (dft, cold, bb["_A_"])
                ok_sel = len(stores) == 1 and len(guards) == 1 and ast.unparse(stores[0].value) == bb["_CL_"]
                tb = ast.unparse(guards[0].test) if guards else ""
                ok_guard = ok_sel and tb in ("%s <= %s" % (bb["_CD_"], T(ast.parse(thr, mode="eval").body)),) or (
                    ok_sel and " ".join(ast.unparse(_inline(fn.node, guards[0].test, stop={mapname, bb["_CD_"]}))
                                        .split()) in ("%s <= %s" % (bb["_CD_"], thr), "%s >= %s" % (thr, bb["_CD_"])))
                ok = ok_outer and ok_inner and ok_sel and bool(ok_guard)
        detail = "outer over cold_arms: %s, candidates from trained_arms: %s, argmin over candidates: %s, inclusive " \
                 "guard: %s" % (ok_outer, ok_inner, ok_sel, ok_guard)
    ctx.check(ok, "R13.3", "the mapping sends each cold arm to its closest trained arm if the distance does not exceed "
              "the threshold", fn.node, fn, detail, construct="def BaseMAB._get_cold_arm_to_warm_arm")
    am = prog.function("utils", "argmin")
    body = [s for s in am.node.body if not (isinstance(s, ast.Expr) and isinstance(s.value, ast.Constant))]
    p = am.params[0]
    ctx.check(len(body) == 1 and ast.unparse(body[0]) == "return min(%s, key=%s.get)" % (p, p), "R13.3",
              "utils.argmin returns the first key with the minimal value", am.node, am, construct="def argmin")


def check_status(ctx, F):
    from .pattern import match, find
    prog = ctx.prog
    base = prog.cls("BaseMAB")
    cold = base.methods["cold_arms"]
    trained = base.methods["trained_arms"]
    cs = " ".join(ast.unparse(cold.node.body[-1]).split())
    ts = " ".join(ast.unparse(trained.node.body[-1]).split())
    ctx.check(match("return [_A_ for _A_ in self.arms if not self.arm_to_status[_A_][IS_TRAINED] and (not "
                    "self.arm_to_status[_A_][IS_WARM])]", cold.node.body[-1]) is not None, "R13.4",
              "cold_arms = arms that are neither trained nor warm", cold.node, cold, cs,
              construct="def BaseMAB.cold_arms")
    ctx.check(match("return [_A_ for _A_ in self.arms if self.arm_to_status[_A_][IS_TRAINED]]",
                    trained.node.body[-1]) is not None, "R13.4",
              "trained_arms = arms that are trained", trained.node, trained, ts, construct="def BaseMAB.trained_arms")
    ws = prog.method("BaseMAB", "_warm_start")
    pat = """
_M_ = self._get_cold_arm_to_warm_arm(%s, %s)
self._copy_arms(_M_)
for _C_, _W_ in _M_.items():
    ...
    self.arm_to_status[_C_][IS_WARM] = True
    ...
    self.arm_to_status[_C_][WARM_STARTED_BY] = _W_
    ...
""" % (ws.params[1], ws.params[2])
    ok = match(pat, ws.node.body) is not None or match(pat.replace("IS_WARM", "@").replace(
        "WARM_STARTED_BY] = _W_", "IS_WARM] = True").replace("@] = True", "WARM_STARTED_BY] = _W_"),
        ws.node.body) is not None
    ctx.check(ok, "R13.4", "_warm_start: compute the mapping, copy, then mark exactly the mapping's keys as warm", ws.node,
              ws, construct="def BaseMAB._warm_start")
    st = prog.method("BaseMAB", "_set_arms_as_trained")
    ok2 = False
    for node in ast.walk(st.node):
        if isinstance(node, ast.Assign) and match("self.arm_to_status[_A_][IS_WARM] = _EV_", node) is not None:
            g = parent(node)
            ok2 = isinstance(g, ast.If) and ast.unparse(g.test) == "not is_partial"
    ctx.check(ok2, "R13.4", "the warm flag is cleared only by a non-partial fit", st.node, st,
              construct="def BaseMAB._set_arms_as_trained")
    # trained arms are never written by warm_start: every store in warm_start traces is keyed by the cold arm
    n = 0
    for c in F.configs(np_=[None]):
        if LP_CLASS[c.lp] == "_Random":
            continue
        root = F.trace(c, "warm_start")
        w = F.focus(c, root)
        ws_call = first_call(root, "_warm_start")
        if ws_call is None:
            continue
        for ev, anc in walk(ws_call):
            if ev.kind != "store":
                continue
            ts_ = [t for t in ev.a["targets"] if t.region == "bandit"]
            if not ts_:
                continue
            n += 1
            key = ev.a.get("key")
            base_v = ev.a.get("base")
            # keyed directly by the loop's cold variable, or a whole-dictionary re-derivation
            keyed = False
            if isinstance(ev.node, ast.Assign) and isinstance(ev.node.targets[0], ast.Subscript):
                ktxt = ast.unparse(ev.node.targets[0].slice)
                inner = ev.node.targets[0].value
                if isinstance(inner, ast.Subscript):
                    ktxt = ast.unparse(inner.slice)
                cold_names = set()
                for a in anc:
                    if a.kind == "for" and isinstance(a.node, ast.For) and isinstance(a.node.target, ast.Tuple) \
                            and ast.unparse(a.node.iter).endswith(".items()"):
                        cold_names.add(ast.unparse(a.node.target.elts[0]))
                keyed = ktxt in cold_names
            whole = ev.fn is not None and ev.fn.name in ("_expectation_operation", "_normalize_expectations")
            # invalidation of a derived field (`self.cache = None`) is not a write to any arm's learned state
            v = ev.a.get("value")
            if ev.a["step"].startswith(".") and v is not None and v.has_const and v.const is None:
                whole = True
            ctx.check(keyed or whole, "R13.4", "warm_start writes only entries of cold arms (or re-derives a whole "
                      "dictionary)", ev.node, ev.fn, "store not keyed by the cold arm [%s]" % c.name)
    ctx.floor("R13.4", "stores on warm_start traces", n, 25)


def check_status_transitions(ctx, F):
    """R13.5: an arm stops being warm only through a (non-partial) fit. The warm flag and its donor are written by
    _warm_start and inside a fit activation only; remove_arm, add_arm, partial_fit and the predictions never touch
    them (add_arm / remove_arm create and drop whole records)."""
    n = 0
    g = ctx.prog.modules["base_mab"].globals
    warm_keys = tuple(g[k].value for k in ("IS_WARM", "WARM_STARTED_BY") if k in g and isinstance(g[k], ast.Constant))
    if len(warm_keys) != 2:
        ctx.undecided("R13.5", "status keys IS_WARM / WARM_STARTED_BY are not module constants of base_mab",
                      construct="base_mab status keys", where="mabwiser/base_mab.py")
        return
    for c in F.configs(np_=[None]):
        if LP_CLASS[c.lp] == "_Random":
            continue
        for lab in F.entry_labels(c):
            root = F.trace(c, lab)
            F.focus(c, root)
            for ev, anc in walk(root):
                if ev.kind != "store":
                    continue
                ts = [t for t in ev.a["targets"] if t.field == "arm_to_status" and len(t.sub) == 2]
                key = ev.a.get("key")
                if not ts or key is None or not key.has_const or key.const not in warm_keys:
                    continue
                n += 1
                inside = [a.a["callee"].name for a in anc if a.kind == "call"]
                ok = "_warm_start" in inside or "fit" in inside
                ctx.check(ok, "R13.5", "the warm status of an arm is written by warm_start and by fit only", ev.node,
                          ev.fn, "%s writes `%s` of a status record outside _warm_start / fit (call chain %s): an "
                          "arm that was warm started can become cold again and be warm started a second time [%s]" %
                          (lab, key.const, " -> ".join(inside), c.name))
    ctx.floor("R13.5", "writes of the warm status on traces", n, 30)


def check(ctx):
    F = facts(ctx)
    ctx.rule("R13.1", "_copy_arms: stores keyed by the cold arm, reads keyed by the warm arm, deep copies")
    ctx.rule("R13.2", "_copy_arms transfers the complete per-arm learned state")
    ctx.rule("R13.3", "cold -> closest trained arm, inclusive threshold")
    ctx.rule("R13.4", "status bookkeeping and write discipline of warm_start")
    check_copy_arms(ctx, F)
    check_mapping(ctx)
    check_status(ctx, F)
    ctx.rule("R13.5", "warm status is written by _warm_start and inside fit only")
    check_status_transitions(ctx, F)
