# -*- coding: utf-8 -*-
"""C07 - fit discards everything learned before (reset completeness by kill analysis)."""

import ast

from ..facts import IMPLEMENTORS, LP_CLASS, NP_CLASS, call_chain, first_call, fmt_target, walk
from ..model import norm_stmt
from .common import facts, value_dead
from .kill import KillWalker, loc_of_target, all_written_locations

EXPLANATION = (
    "Kill (must-reset) analysis on the abstract trace of <Implementor>.fit for each of the 55 configurations. "
    "W = every bandit-state location (object, field) that fit, partial_fit, warm_start, predict or "
    "predict_expectations may write (from the inlined, receiver-exact traces), minus random streams, the C14 "
    "binarisation flag and value-dead fields (recomputed). Walking fit in program order with a MUST-killed set "
    "(intersection at branches, loops kill only when they range over all arms / all own keys / all clusters), "
    "each location in W must be killed (rebound from non-self data, reset-all, own-key overwrite, refit of an "
    "sklearn estimator, sub-policy fit) before fit accumulates on it or reads it, and by the end of fit on every "
    "path. Decides 'no pre-fit learned state can survive or influence fit'; does not decide that sklearn's fit "
    "forgets (trusted table).")
ASSUMPTIONS = [
    "sklearn KMeans/MiniBatchKMeans/DecisionTreeRegressor/StandardScaler.fit re-initialise the estimator",
    "arm-keyed dictionaries have exactly the current arms as keys (C08 R8.1), so a loop over self.arms covers them",
    "externals table; CPython ast",
]

ENTRIES_W = ["fit", "partial_fit", "warm_start", "predict", "predict_expectations", "predict+ctx",
             "predict_expectations+ctx"]
EXEMPT_FIELDS = {"is_contextual_binarized": "C14 typestate flag, decided by C14"}


def check(ctx):
    F = facts(ctx)
    prog = ctx.prog
    ctx.rule("R7.1", "every location any training/warm-start/prediction path may write is killed by fit on every "
                     "path before fit reads or accumulates on it")
    ctx.rule("R7.2", "MAB.fit sets _is_initial_fit; nothing else at facade level persists across fit")
    per_class_W = {}
    dead_cache = {}
    classes_done = set()
    for c in F.configs():
        imp_cls = NP_CLASS[c.np] if c.np else LP_CLASS[c.lp]
        w = F.world(c)
        eng = w.eng
        # ---- W: locations written by any of the entries (bandit region, below the facade)
        W = {}
        for label in F.entry_labels(c):
            if label not in ENTRIES_W:
                continue
            root = F.trace(c, label)
            for loc, (ev, t) in all_written_locations(eng, root).items():
                W.setdefault(loc, (label, ev, t))
        wanted = {}
        for loc, (label, ev, t) in W.items():
            oid, field = loc
            o = eng.obj(oid)
            if o.cls == "MAB":
                continue
            if o.cls in ("_NumpyRNG", "ext:numpy.random.Generator"):
                continue
            if field in EXEMPT_FIELDS:
                continue
            if field is not None and o.cls in prog.classes:
                k = (o.cls, field)
                if k not in dead_cache:
                    dead_cache[k] = value_dead(prog, o.cls, field)[0]
                if dead_cache[k]:
                    ctx.ok("R7.1", "%s.%s is value-dead (exempt)" % k, construct="%s.%s" % k, where=o.cls)
                    continue
            wanted[loc] = (label, ev, t)
        # ---- kill walk over fit
        root = F.trace(c, "fit")
        fit_call = first_call(root, "fit")
        if fit_call is None:
            ctx.undecided("R7.1", "%s.fit not reached from MAB.fit [%s]" % (imp_cls, c.name), where=imp_cls,
                          construct=imp_cls + ".fit")
            continue
        eng.heap = root.a["heap"]
        kw = KillWalker(eng, w, set(wanted))
        K = kw.run(fit_call)
        classes_done.add(imp_cls)
        names = per_class_W.setdefault(imp_cls, set())
        for loc, (label, ev, t) in sorted(wanted.items(), key=lambda kv: str(kv[0])):
            o = eng.obj(loc[0])
            lname = "%s.%s" % (o.cls, loc[1]) if loc[1] else "%s(state)" % o.cls
            names.add(lname)
            inst = "%s.fit kills %s" % (imp_cls, lname)
            fitfn = fit_call.a["callee"]
            if loc in kw.early:
                bev, why = kw.early[loc]
                ctx.violate("R7.1", inst, bev.node, bev.fn,
                            "%s before the location is reset in fit [%s]; path %s" % (why, c.name, kw.path(bev)))
            elif loc not in K:
                ctx.violate("R7.1", inst, ev.node, ev.fn,
                            "written by %s (%s) but not reset by %s.fit on every path [%s]" %
                            (label, ev.a["skind"], imp_cls, c.name))
            else:
                ctx.ok("R7.1", inst, fitfn.node, fitfn, where=prog.loc(fitfn, fitfn.node),
                       construct="def %s.fit" % fitfn.cls.name)
        # ---- facade
        mf = first_call(root, "fit", recv_not=None)
        facade_fields = set()
        for ev, anc in walk(root):
            if ev.kind == "store":
                for t in ev.a["targets"]:
                    if t.ocls == "MAB" and t.region == "bandit":
                        facade_fields.add(t.field)
        ctx.check(facade_fields == {"_is_initial_fit"}, "R7.2", "MAB.fit facade writes %s" % sorted(facade_fields),
                  construct="def MAB.fit", where="mabwiser/mab.py", detail="expected exactly {_is_initial_fit}")
    ctx.floor("R7.1", "implementor classes analysed", len(classes_done), 12)
    total = sum(len(v) for v in per_class_W.values())
    ctx.floor("R7.1", "distinct resettable locations over all classes", total, 45)
    for k, v in sorted(per_class_W.items()):
        ctx.note("W[%s] = %s" % (k, sorted(v)))
