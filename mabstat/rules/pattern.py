# -*- coding: utf-8 -*-
"""Structural patterns with metavariables, so that AST idiom rules do not depend on the spelling of local names.

Pattern source is python; identifiers of the form _A_ .. _Z_ / _A1_ (underscore, capital, optional digits, underscore)
are *name variables*: they match any ast.Name and must match the same name everywhere; identifiers of the form
_EA_ .. _EZ_ are *expression variables*: they match any expression (the same one everywhere, compared by unparse).
A statement `...` inside a statement list of the pattern matches any run of statements.
`find(pattern, tree)` returns the first (node, bindings); `match(pattern, node)` returns bindings or None."""

import ast
import re

NAME_VAR = re.compile(r"^_(?!E)[A-Z][A-Z0-9]*_$")
EXPR_VAR = re.compile(r"^_E[A-Z][A-Z0-9]*_$")


def compile_pattern(src, mode=None):
    src = src.strip()
    try:
        tree = ast.parse(src, mode="eval")
        return tree.body
    except SyntaxError:
        tree = ast.parse(src)
        return tree.body[0] if len(tree.body) == 1 else tree.body


def _match(p, n, b):
    if isinstance(p, ast.Name):
        if EXPR_VAR.match(p.id):
            s = ast.unparse(n) if isinstance(n, ast.AST) else None
            if s is None:
                return False
            if p.id in b:
                return b[p.id] == s
            b[p.id] = s
            return True
        if NAME_VAR.match(p.id):
            if not isinstance(n, ast.Name):
                return False
            if p.id in b:
                return b[p.id] == n.id
            b[p.id] = n.id
            return True
        return isinstance(n, ast.Name) and n.id == p.id
    if isinstance(p, ast.arg):
        if not isinstance(n, ast.arg):
            return False
        if NAME_VAR.match(p.arg):
            if p.arg in b:
                return b[p.arg] == n.arg
            b[p.arg] = n.arg
            return True
        return p.arg == n.arg
    if type(p) is not type(n):
        return False
    if isinstance(p, ast.Constant):
        return p.value == n.value and type(p.value) is type(n.value)
    for f in p._fields:
        if f in ("ctx", "type_comment", "lineno", "col_offset", "end_lineno", "end_col_offset", "kind"):
            continue
        pv, nv = getattr(p, f, None), getattr(n, f, None)
        if isinstance(pv, list):
            if not isinstance(nv, list):
                return False
            if not _match_list(pv, nv, b):
                return False
        elif isinstance(pv, ast.AST):
            if not isinstance(nv, ast.AST) or not _match(pv, nv, b):
                return False
        else:
            if isinstance(pv, str) and NAME_VAR.match(pv):
                if pv in b:
                    if b[pv] != nv:
                        return False
                else:
                    b[pv] = nv
            elif pv != nv:
                return False
    return True


def _is_gap(x):
    return isinstance(x, ast.Expr) and isinstance(x.value, ast.Constant) and x.value.value is Ellipsis


def _is_doc(x):
    return isinstance(x, ast.Expr) and isinstance(x.value, ast.Constant) and isinstance(x.value.value, str)


def _match_list(pv, nv, b):
    """Sequence match; a statement `...` in the pattern matches any run of statements (possibly empty); docstring
    statements of the subject are ignored."""
    if nv and isinstance(nv[0], ast.stmt):
        nv = [y for y in nv if not _is_doc(y)]
    if not any(_is_gap(x) for x in pv):
        if len(pv) != len(nv):
            return False
        for x, y in zip(pv, nv):
            if isinstance(x, ast.AST):
                if not _match(x, y, b):
                    return False
            elif x != y:
                return False
        return True

    def rec(i, j, bb):
        if i == len(pv):
            return bb if j == len(nv) else None
        if _is_gap(pv[i]):
            for k in range(j, len(nv) + 1):
                r = rec(i + 1, k, dict(bb))
                if r is not None:
                    return r
            return None
        if j >= len(nv):
            return None
        b2 = dict(bb)
        if not _match(pv[i], nv[j], b2):
            return None
        return rec(i + 1, j + 1, b2)
    r = rec(0, 0, dict(b))
    if r is None:
        return False
    b.update(r)
    return True


def match(pattern, node, binds=None):
    p = compile_pattern(pattern) if isinstance(pattern, str) else pattern
    b = dict(binds or {})
    if isinstance(p, list):
        if not isinstance(node, list) or not _match_list(p, node, b):
            return None
        return b
    return b if _match(p, node, b) else None


def find(pattern, tree, binds=None):
    p = compile_pattern(pattern) if isinstance(pattern, str) else pattern
    nodes = ast.walk(tree) if isinstance(tree, ast.AST) else (n for t in tree for n in ast.walk(t))
    for n in nodes:
        if type(n) is type(p):
            b = match(p, n, binds)
            if b is not None:
                return n, b
    return None, None


def find_all(pattern, tree, binds=None):
    p = compile_pattern(pattern) if isinstance(pattern, str) else pattern
    out = []
    nodes = ast.walk(tree) if isinstance(tree, ast.AST) else (n for t in tree for n in ast.walk(t))
    for n in nodes:
        if type(n) is type(p):
            b = match(p, n, binds)
            if b is not None:
                out.append((n, b))
    return out


def any_match(patterns, node, binds=None):
    for p in patterns:
        b = match(p, node, binds)
        if b is not None:
            return b
    return None
