# -*- coding: utf-8 -*-
"""MUST-kill walk over a trace tree (A1 kill analysis / DESIGN A.2)."""

import ast

from ..facts import walk
from ..interp import CONTAINER_CLS

ACCUMULATING = ("aug", "mutcall:append", "mutcall:extend", "mutcall:+=", "mutcall:insert", "mutcall:add",
                "mutcall:partial_fit", "mutcall:setdefault", "mutcall:update")


def loc_of_target(t):
    return (t.oid, t.field)


def is_object_publish(eng, ev):
    """A store of references to program objects into a container slot (the objects' own fields are tracked)."""
    v = ev.a["value"]
    if ev.a["step"] != "[*]" or not v.refs or v.locs:
        return False
    return all(eng.obj(r).cls in eng.prog.classes or (eng.obj(r).cls or "").startswith("ext:") for r in v.refs)


def all_written_locations(eng, root):
    out = {}
    for ev, anc in walk(root):
        if ev.kind != "store":
            continue
        if is_object_publish(eng, ev) and ev.a["skind"] == "setitem":
            continue
        for t in ev.a["targets"]:
            if t.region != "bandit":
                continue
            out.setdefault(loc_of_target(t), (ev, t))
    return out


def dep_locations(eng, deps):
    """Bandit/heap locations (anchor oid, field) a dependence set refers to (content reads, not key reads)."""
    out = set()
    for d in deps:
        if not (isinstance(d, tuple) and len(d) == 2 and isinstance(d[0], int)):
            continue
        oid, steps = d
        if oid not in eng.heap.objs and oid not in eng.persistent:
            continue
        if steps and steps[0].startswith("."):
            out.add((oid, steps[0][1:]))
        else:
            a, st = eng.anchor(oid)
            if st and st[0].startswith("."):
                out.add((a.oid, st[0][1:]))
            else:
                out.add((oid, None))
    return out


class KillWalker:
    def __init__(self, eng, world, wanted):
        self.eng = eng
        self.world = world
        self.wanted = wanted
        self.early = {}
        self.loop_stack = []
        self.call_stack = []
        self.ret_stack = []
        mab = world.skeleton.objs[world.mab_oid]
        self.arms_oids = set(mab.fields["arms"].refs)
        self.parent_of = {}
        self._loop_kills = set()
        self.regions = {"bandit"}
        self.self_only = False

    # ------------------------------------------------------------------ public
    def run(self, call_ev):
        self.heap0 = self.eng.heap
        K = self.call(call_ev, set())
        return K

    def _is_arms(self, it):
        """The iterable is the bandit's arm list (or a deep copy of it inside a worker-local policy)."""
        for r in it.refs:
            cur, hops = r, 0
            while hops < 10:
                if cur in self.arms_oids:
                    return True
                ob = self.eng.heap.objs.get(cur) or self.eng.persistent.get(cur)
                if ob is None or ob.copy_of is None or ob.copy_of[1] != ():
                    break
                cur, hops = ob.copy_of[0], hops + 1
        return False

    def wanted_objs(self):
        return {l[0] for l in self.wanted}

    def path(self, ev):
        return " -> ".join(f.qualname for f, _ in ev.stack)

    # ------------------------------------------------------------------ structure
    def call(self, ev, K):
        self.ret_stack.append([])
        self.call_stack.append(ev)
        Kb, falls = self.block(ev.children, set(K))
        self.call_stack.pop()
        rets = self.ret_stack.pop()
        exits = rets + ([Kb] if falls else [])
        if not exits:
            return K
        out = set(exits[0])
        for e in exits[1:]:
            out &= e
        return out

    def block(self, evs, K):
        for ev in evs:
            k = ev.kind
            if k == "store":
                self.on_store(ev, K)
            elif k == "call":
                K = self.call(ev, K)
            elif k == "dispatch":
                outs = [self.call(a, set(K)) if a.kind == "call" else set(K) for a in ev.a["alts"]]
                if outs:
                    K2 = set(outs[0])
                    for o in outs[1:]:
                        K2 &= o
                    # alternatives over *which object* the receiver is: each one resets its own object, and the
                    # covering-loop justification (checked in on_store) says every such object is visited
                    for a, o in zip(ev.a["alts"], outs):
                        rv = a.a.get("recv") if a.kind == "call" else None
                        if rv is None:
                            continue
                        for loc in o - K:
                            if loc[0] in rv.refs or self._owned_by_any(loc[0], rv.refs):
                                K2.add(loc)
                    K = K2
            elif k == "if":
                K, _ = self.block(ev.a["test_evs"], K)
                self.note_guard_reads(ev, K)
                if "decided" in ev.a:
                    K, falls = self.block(ev.a["then"] if ev.a["decided"] else ev.a["orelse"], K)
                    if not falls:
                        return K, False
                else:
                    K1, f1 = self.block(ev.a["then"], set(K))
                    K2, f2 = self.block(ev.a["orelse"], set(K))
                    if f1 and f2:
                        K = K1 & K2
                    elif f1:
                        K = K1
                    elif f2:
                        K = K2
                    else:
                        return K, False
            elif k in ("for", "while"):
                K, _ = self.block(ev.a["head"], K)
                self.loop_stack.append(ev)
                Kb, fb = self.block(ev.a["body"], set(K))
                self.loop_stack.pop()
                # kills inside a loop only survive when they were justified by an all-keys loop (see on_store):
                # those are recorded in self.loop_kills
                K |= {l for l in (Kb - K) if (id(ev), l) in self._loop_kills}
            elif k == "try":
                Kb, fb = self.block(ev.a["body"], set(K))
                for h in ev.a["handlers"]:
                    self.block(h, set(K))
                K2, _ = self.block(ev.a["final"], set(K))
                K = K2
            elif k == "return":
                self.ret_stack[-1].append(set(K))
                return K, False
            elif k == "raise":
                return K, False
        return K, True

    # ------------------------------------------------------------------ stores
    def owned_below(self, o_oid, field):
        """wanted locations whose object is reachable (by owner links) through field `field` of object o_oid."""
        out = set()
        for (oid, f) in self.wanted:
            cur, hops = oid, 0
            while hops < 12:
                ob = self.eng.heap.objs.get(cur) or self.eng.persistent.get(cur)
                if ob is None or ob.owner is None:
                    break
                p, step = ob.owner
                if p == o_oid and step == "." + str(field):
                    out.add((oid, f))
                    break
                cur, hops = p, hops + 1
        return out

    def is_summary(self, oid):
        ob = self.eng.obj(oid)
        return ob.owner is not None and ob.owner[1] == "[*]"

    def summary_chain(self, oid):
        """Summary objects (elements of containers) on the owner chain of oid, innermost first."""
        out, cur, hops = [], oid, 0
        while hops < 12:
            ob = self.eng.heap.objs.get(cur) or self.eng.persistent.get(cur)
            if ob is None or ob.owner is None:
                break
            if ob.owner[1] == "[*]" and ob.cls not in CONTAINER_CLS and ob.cls is not None:
                out.append(cur)
            cur, hops = ob.owner[0], hops + 1
        return out

    def selecting_loop(self, ev, S, direct):
        """The enclosing loop that picks summary object S by its loop variable and ranges over all of S's
        siblings (all arms / all elements of the container / all clusters)."""
        for lev in reversed(self.loop_stack):
            lid = lev.a["loop_id"]
            tag, itag = "loopvar:%d" % lid, "idx:loopvar:%d" % lid
            selected = False
            base = ev.a.get("base")
            if direct and base is not None and (tag in base.tags or itag in base.tags):
                selected = True
            if not selected:
                for cev in reversed(self.call_stack):
                    if lid not in {l for l, _ in cev.loops}:
                        break
                    rv = cev.a.get("recv")
                    if rv is not None and (tag in rv.tags or itag in rv.tags) and S in rv.refs:
                        selected = True
                        break
            if selected and self.loop_covers_object(lev, S):
                return lev
        return None

    def key_loop(self, ev, t):
        """For a subscript store: the enclosing loop whose variable is the key and that ranges over all keys."""
        key = ev.a.get("key")
        if key is None:
            return None
        for lev in reversed(self.loop_stack):
            if "loopvar:%d" % lev.a["loop_id"] in key.tags and self.loop_is_all_keys(lev, t):
                return lev
        return None

    def loop_covers_object(self, lev, S):
        it = lev.a["iter"]
        if it is None:
            return False
        if self._is_arms(it):
            return True
        src = it
        if it.extra is not None and it.extra[0] == "keysof":
            src = it.extra[1]
        if it.extra is not None and it.extra[0] == "items":
            src = it.extra[3]
        if it.extra is not None and it.extra[0] == "enumerate":
            src = it.extra[1]
        if it.extra is not None and it.extra[0] == "zip":
            # zip(...) ranges over all elements of a member when the others are at least as long; accepted for the
            # container that owns S when it is a member
            for m in it.extra[1]:
                ob = self.eng.obj(S)
                if ob.owner is not None and ob.owner[0] in m.refs:
                    src = m
        ob = self.eng.obj(S)
        if ob.owner is not None and ob.owner[0] in src.refs:
            return True
        return self._is_cluster_range(lev)

    def _is_cluster_range(self, lev):
        node = lev.a.get("iter_node")
        if node is not None and ast.unparse(node) == "range(self.n_clusters)":
            try:
                init = self.eng.prog.method("_Clusters", "__init__")
            except Exception:
                return False
            # the constructor parameter that self.n_clusters is set from (and that is not rebound) counts as well
            counts = {"range(self.n_clusters)"}
            for n in ast.walk(init.node):
                if isinstance(n, (ast.Assign, ast.AnnAssign)) and isinstance(getattr(n, "value", None), ast.Name) and \
                        n.value.id in init.params:
                    tg = n.targets[0] if isinstance(n, ast.Assign) else n.target
                    if ast.unparse(tg) == "self.n_clusters" and not any(
                            isinstance(x, ast.Name) and x.id == n.value.id and isinstance(x.ctx, ast.Store)
                            for x in ast.walk(init.node)):
                        counts.add("range(%s)" % n.value.id)
            for n in ast.walk(init.node):
                if isinstance(n, ast.Assign) and ast.unparse(n.targets[0]) == "self.lp_list" and \
                        isinstance(n.value, ast.ListComp) and \
                        ast.unparse(n.value.generators[0].iter) in counts:
                    return True
            # the list is built by a loop: empty, then exactly one append per turn of `for _ in range(n_clusters)`
            from .common import _count_writes

            def is_app(x):
                return isinstance(x, ast.Call) and isinstance(x.func, ast.Attribute) and x.func.attr == "append" and \
                    ast.unparse(x.func.value) == "self.lp_list" and len(x.args) == 1
            empties = [n for n in ast.walk(init.node) if isinstance(n, ast.Assign) and
                       ast.unparse(n.targets[0]) == "self.lp_list" and ast.unparse(n.value) in ("[]", "list()")]
            loops = [n for n in ast.walk(init.node) if isinstance(n, ast.For) and
                     ast.unparse(n.iter) == "range(self.n_clusters)" and any(is_app(x) for x in ast.walk(n))]
            apps = [x for x in ast.walk(init.node) if is_app(x)]
            if len(empties) == 1 and len(loops) == 1 and _count_writes(loops[0].body, is_app) == {1} and \
                    all(any(x is y for y in ast.walk(loops[0])) for x in apps) and \
                    empties[0].lineno < loops[0].lineno and not any(
                        isinstance(x, (ast.Break, ast.Continue, ast.Return)) for x in ast.walk(loops[0])):
                return True
        return False

    def _loops_of(self, cev):
        # loops enclosing a call event = loop ids recorded on the event
        ids = {l for l, _ in cev.loops}
        return [l for l in self.loop_stack if l.a["loop_id"] in ids]

    def _owned_by_any(self, oid, owners):
        cur, hops = oid, 0
        while hops < 12:
            ob = self.eng.heap.objs.get(cur) or self.eng.persistent.get(cur)
            if ob is None or ob.owner is None:
                return False
            if ob.owner[0] in owners:
                return True
            cur, hops = ob.owner[0], hops + 1
        return False

    def loop_is_all_keys(self, lev, t):
        eng = self.eng
        it = lev.a["iter"]
        if it is None:
            return False
        if self._is_arms(it):
            return True
        src = it
        if it.extra is not None and it.extra[0] in ("keysof",):
            src = it.extra[1]
        if it.extra is not None and it.extra[0] == "items":
            src = it.extra[3]
        # the container that holds the target
        tobj = eng.obj(t.oid)
        containers = set()
        if t.field is not None and t.field in tobj.fields:
            containers |= tobj.fields[t.field].refs
        cur = tobj
        hops = 0
        while cur.owner is not None and hops < 12:
            if cur.owner[1] == "[*]":
                containers.add(cur.owner[0])
            cur = eng.obj(cur.owner[0])
            hops += 1
        if src.refs & containers:
            return True
        # another arm-keyed dictionary of the same object: all arm_to_* dictionaries of a policy have exactly the
        # current arms as keys (C08 R8.1 decides that), so walking one of them visits every key of the others
        for r in src.refs:
            so = eng.heap.objs.get(r) or eng.persistent.get(r)
            if so is None or so.cls != "dict" or so.owner is None or so.keys is None or "label" not in so.keys.tags:
                continue
            fld = so.owner[1]
            if isinstance(fld, str) and fld.startswith(".arm_to_") and so.owner[0] == t.oid and \
                    t.field is not None and t.field.startswith("arm_to_"):
                return True
        return False

    def note_guard_reads(self, ev, K):
        tv = ev.a.get("test_val")
        if tv is None or self.self_only:
            return
        for loc in dep_locations(self.eng, tv.deps):
            if loc in self.wanted and loc not in K and loc not in self.early:
                self.early[loc] = (ev, "control flow of fit depends on the value")

    def on_store(self, ev, K):
        eng = self.eng
        skind = ev.a["skind"]
        value = ev.a["value"]
        vlocs = dep_locations(eng, value.deps) if value is not None else set()
        bandit_targets = [t for t in ev.a["targets"] if t.region in self.regions]
        # reads of un-reset state flowing into the model that fit builds
        if bandit_targets and not self.self_only:
            for loc in vlocs:
                if loc in self.wanted and loc not in K and loc not in self.early and \
                        not all(loc_of_target(t) == loc for t in bandit_targets):
                    self.early[loc] = (ev, "value stored by fit is computed from it")
            if value is not None:
                for r in value.refs:
                    ob = eng.obj(r)
                    if ob.region == "fresh" and ob.copy_of is not None and ob.copy_of[1] == () and \
                            r not in self.wanted_objs():
                        src = ob.copy_of[0]
                        for loc in self.wanted:
                            if loc[0] == src and loc not in K and loc not in self.early:
                                self.early[loc] = (ev, "a copy of the un-reset object is published")
        for t in bandit_targets:
            loc = loc_of_target(t)
            accumulates = skind.startswith(ACCUMULATING) or skind.startswith("aug") or loc in vlocs
            if skind == "reset-all":
                accumulates = False
            if accumulates:
                if loc in self.wanted and loc not in K and loc not in self.early:
                    self.early[loc] = (ev, "accumulate-form write (%s)" % skind)
                continue
            kill = False
            levs = []
            if skind in ("rebind",) and not t.sub:
                kill = True
            elif skind == "reset-all" or skind == "mutcall:clear":
                kill = True
            elif skind == "setitem" and len(t.sub) == 1:
                lk = self.key_loop(ev, t)
                kill = lk is not None
                if kill:
                    levs.append(lk)
            elif skind.startswith("mutcall:") and ev.a.get("refit"):
                kill = True
            if not kill:
                continue
            weak = False
            for S in self.summary_chain(t.oid):
                ls = self.selecting_loop(ev, S, direct=(S == t.oid))
                if ls is None:
                    weak = True         # update of one of many objects: not a kill
                    break
                levs.append(ls)
            if weak:
                continue
            newly = {loc}
            if not t.sub:
                newly |= self.owned_below(t.oid, t.field)
            K |= newly
            # kills justified inside loops survive those loops only if the loop covers everything
            if levs:
                first = min(self.loop_stack.index(l) for l in levs)
                for l in self.loop_stack[first:]:
                    for x in newly:
                        self._loop_kills.add((id(l), x))
