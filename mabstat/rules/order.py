# -*- coding: utf-8 -*-
"""A3 ordering walker: path-sensitive walk of a trace tree carrying a small abstract state (joined at merges)."""


class PathWalker:
    """Subclass and override on_event(ev, state) -> state and join(a, b)."""

    def join(self, a, b):
        return a | b

    def on_event(self, ev, state):
        return state

    def enter_body(self, loop_ev, state):
        """State at the start of one iteration of a loop."""
        return state

    def run(self, call_ev, state):
        return self._call(call_ev, state)

    def _call(self, ev, state):
        self._rets = getattr(self, "_rets", [])
        self._rets.append([])
        out, falls = self._block(ev.children, state)
        rets = self._rets.pop()
        states = rets + ([out] if falls else [])
        if not states:
            return state
        res = states[0]
        for s in states[1:]:
            res = self.join(res, s)
        return res

    def _block(self, evs, state):
        for ev in evs:
            k = ev.kind
            if k == "call":
                state = self.on_event(ev, state)
                state = self._call(ev, state)
            elif k == "dispatch":
                outs = [self._call(a, state) if a.kind == "call" else state for a in ev.a["alts"]]
                if outs:
                    res = outs[0]
                    for o in outs[1:]:
                        res = self.join(res, o)
                    state = res
            elif k == "if":
                state, _ = self._block(ev.a["test_evs"], state)
                if "decided" in ev.a:
                    state, falls = self._block(ev.a["then"] if ev.a["decided"] else ev.a["orelse"], state)
                    if not falls:
                        return state, False
                else:
                    s1, f1 = self._block(ev.a["then"], state)
                    s2, f2 = self._block(ev.a["orelse"], state)
                    if f1 and f2:
                        state = self.join(s1, s2)
                    elif f1:
                        state = s1
                    elif f2:
                        state = s2
                    else:
                        return state, False
            elif k in ("for", "while"):
                state = self.on_event(ev, state)
                state, _ = self._block(ev.a["head"], state)
                sb, fb = self._block(ev.a["body"], self.enter_body(ev, state))
                # second pass: effects of one iteration are visible to the next
                sb2, fb2 = self._block(ev.a["body"], self.enter_body(ev, self.join(state, sb)))
                state = self.join(state, self.join(sb, sb2))
            elif k == "try":
                sb, fb = self._block(ev.a["body"], state)
                res = sb if fb else None
                for h in ev.a["handlers"]:
                    sh, fh = self._block(h, self.join(state, sb))
                    if fh:
                        res = sh if res is None else self.join(res, sh)
                if res is None:
                    return state, False
                state, ff = self._block(ev.a["final"], res)
                if not ff:
                    return state, False
            elif k == "return":
                state = self.on_event(ev, state)
                self._rets[-1].append(state)
                return state, False
            elif k == "raise":
                state = self.on_event(ev, state)
                return state, False
            else:
                state = self.on_event(ev, state)
        return state, True
