# -*- coding: utf-8 -*-
"""Spelling-independent form of the small expression classes the sibling rules compare: orderings, index selection
(np.where / np.nonzero / np.flatnonzero), flattening, emptiness tests and empty container displays. Two expressions
with the same semantic form compute the same value; the converse is not claimed."""

import ast
import copy

FLATTEN = {"ravel", "flatten"}
SELECTORS_T = {"np.where", "np.nonzero", "numpy.where", "numpy.nonzero"}      # return a tuple with one array
SELECTORS = {"np.flatnonzero", "numpy.flatnonzero"}                           # return the array


def _call(name, *args):
    return ast.Call(func=ast.Name(id=name, ctx=ast.Load()), args=list(args), keywords=[])


def _is_sel(n):
    return isinstance(n, ast.Call) and isinstance(n.func, ast.Name) and n.func.id == "SELECT_T"


def _is_zero(n):
    return isinstance(n, ast.Constant) and n.value == 0 and not isinstance(n.value, bool)


class _Sem(ast.NodeTransformer):
    def visit_Compare(self, node):
        self.generic_visit(node)
        if len(node.ops) != 1:
            return node
        op, l, r = node.ops[0], node.left, node.comparators[0]
        if isinstance(op, (ast.Gt, ast.GtE)):
            node = ast.Compare(left=r, ops=[ast.Lt() if isinstance(op, ast.Gt) else ast.LtE()], comparators=[l])
            op, l, r = node.ops[0], node.left, node.comparators[0]
        # emptiness:  SIZE(x) == 0 | SIZE(x) <= 0 | SIZE(x) < 1  ->  EMPTY(x);   0 < SIZE(x) | SIZE(x) != 0 -> not EMPTY
        def size_of(e):
            return e.args[0] if isinstance(e, ast.Call) and isinstance(e.func, ast.Name) and e.func.id == "SIZE" \
                else None
        if isinstance(op, (ast.Eq, ast.LtE)) and size_of(l) is not None and _is_zero(r):
            return _call("EMPTY", size_of(l))
        if isinstance(op, ast.Eq) and size_of(r) is not None and _is_zero(l):
            return _call("EMPTY", size_of(r))
        if isinstance(op, ast.Lt) and size_of(l) is not None and isinstance(r, ast.Constant) and r.value == 1:
            return _call("EMPTY", size_of(l))
        if isinstance(op, ast.Lt) and size_of(r) is not None and _is_zero(l):
            return ast.UnaryOp(op=ast.Not(), operand=_call("EMPTY", size_of(r)))
        if isinstance(op, ast.LtE) and size_of(r) is not None and isinstance(l, ast.Constant) and l.value == 1:
            return ast.UnaryOp(op=ast.Not(), operand=_call("EMPTY", size_of(r)))
        if isinstance(op, ast.NotEq) and size_of(l) is not None and _is_zero(r):
            return ast.UnaryOp(op=ast.Not(), operand=_call("EMPTY", size_of(l)))
        if isinstance(op, ast.NotEq) and size_of(r) is not None and _is_zero(l):
            return ast.UnaryOp(op=ast.Not(), operand=_call("EMPTY", size_of(r)))
        return node

    def visit_Call(self, node):
        self.generic_visit(node)
        f = ast.unparse(node.func)
        if f in SELECTORS and len(node.args) == 1 and not node.keywords:
            return _call("SELECT", node.args[0])
        if f in SELECTORS_T and len(node.args) == 1 and not node.keywords:
            return _call("SELECT_T", node.args[0])
        if f == "len" and len(node.args) == 1 and not node.keywords:
            return _call("SIZE", node.args[0])
        if isinstance(node.func, ast.Attribute) and node.func.attr in ("argmax", "argmin", "sum", "mean") and \
                not (isinstance(node.func.value, ast.Name) and node.func.value.id in ("np", "numpy")) and \
                (node.keywords or node.args) and all(k.arg == "axis" for k in node.keywords) and len(node.args) <= 1:
            # X.argmax(axis=k)  ==  np.argmax(X, axis=k)
            kws = list(node.keywords) or [ast.keyword(arg="axis", value=node.args[0])]
            return ast.Call(func=ast.Attribute(value=ast.Name(id="np", ctx=ast.Load()), attr=node.func.attr,
                                               ctx=ast.Load()), args=[node.func.value], keywords=kws)
        if isinstance(node.func, ast.Attribute) and node.func.attr in FLATTEN and not node.args and not node.keywords:
            return _call("FLAT", node.func.value)
        if isinstance(node.func, ast.Attribute) and node.func.attr == "reshape" and len(node.args) == 1 and \
                not node.keywords and ast.unparse(node.args[0]) in ("-1", "(-1,)"):
            return _call("FLAT", node.func.value)
        if f in ("list", "dict", "tuple", "set") and not node.args and not node.keywords and f != "set":
            return {"list": ast.List(elts=[], ctx=ast.Load()), "dict": ast.Dict(keys=[], values=[]),
                    "tuple": ast.Tuple(elts=[], ctx=ast.Load())}[f]
        return node

    def visit_Subscript(self, node):
        self.generic_visit(node)
        # the one-element tuple np.where returns indexes like its only member
        if _is_sel(node.value) and _is_zero(node.slice):
            return _call("SELECT", node.value.args[0])
        return node

    def visit_Attribute(self, node):
        self.generic_visit(node)
        if node.attr == "size" and isinstance(node.ctx, ast.Load):
            return _call("SIZE", node.value)
        return node

    def visit_UnaryOp(self, node):
        self.generic_visit(node)
        if isinstance(node.op, ast.Not) and isinstance(node.operand, ast.UnaryOp) and \
                isinstance(node.operand.op, ast.Not):
            return node.operand.operand
        return node


def sem_norm(node):
    """semantic form of an expression (a new tree)"""
    out = _Sem().visit(copy.deepcopy(node))
    ast.fix_missing_locations(out)
    return out


def sem_text(node) -> str:
    return " ".join(ast.unparse(sem_norm(node)).split())


def emptiness(test, polarity=True):
    """(subject text, is_empty) when `test` (taken with the given polarity) decides whether a selection / list is
    empty; else None. Truthiness of a bare name or of SIZE(x) counts: `if indices:` / `if len(indices):`."""
    t = sem_norm(test)
    neg = not polarity
    while isinstance(t, ast.UnaryOp) and isinstance(t.op, ast.Not):
        t = t.operand
        neg = not neg
    if isinstance(t, ast.Call) and isinstance(t.func, ast.Name) and t.func.id == "EMPTY":
        subj = t.args[0]
        empty = not neg
    elif isinstance(t, ast.Call) and isinstance(t.func, ast.Name) and t.func.id == "SIZE":
        subj = t.args[0]
        empty = neg
    elif isinstance(t, (ast.Name, ast.Subscript, ast.Attribute)) or isinstance(t, ast.Call) and \
            ast.unparse(t.func) in ("list", "sorted", "set", "tuple"):
        subj = t                # truth value of a built-in container
        empty = neg
    else:
        return None
    return " ".join(ast.unparse(subj).split()), empty


def as_index(node):
    """semantic form of an expression that is only used as an index into arrays: the tuple np.where returns selects
    the same elements as its only member"""
    t = sem_norm(node)
    if _is_sel(t):
        t = _call("SELECT", t.args[0])
    # a boolean mask and the positions of its true entries select the same elements
    if isinstance(t, ast.Call) and isinstance(t.func, ast.Name) and t.func.id == "SELECT" and \
            isinstance(t.args[0], (ast.Compare, ast.BoolOp, ast.UnaryOp)):
        t = t.args[0]
    return " ".join(ast.unparse(t).split())


class Env:
    """Reaching definitions of the locals of a loop body, as expressions over the loop variables, parameters and
    fields: env_at[id(stmt)] maps a local to the expression it holds when stmt starts (absent = not expressible)."""

    def __init__(self, body, stop=()):
        self.env_at = {}
        self.stop = set(stop)
        self._block(body, {})

    def subst(self, expr, env):
        class R(ast.NodeTransformer):
            def visit_Name(self, node):
                if isinstance(node.ctx, ast.Load) and node.id in env:
                    return copy.deepcopy(env[node.id])
                return node
        return R().visit(copy.deepcopy(expr))

    @staticmethod
    def _assigned(stmts):
        out = set()
        for st in stmts:
            for n in ast.walk(st):
                if isinstance(n, ast.Name) and isinstance(n.ctx, (ast.Store, ast.Del)):
                    out.add(n.id)
        return out

    @staticmethod
    def _mutated(stmts):
        """locals changed in place (stores through them, mutating method calls on them)"""
        from ..model import MUTATING_METHODS
        out = set()
        for st in stmts:
            for n in ast.walk(st):
                b = None
                # (stores through a local - x.attr = v, x[k] = v - do not change which object the local denotes;
                # the environment is used to identify objects and the expressions they come from)
                if isinstance(n, ast.AugAssign) and isinstance(n.target, ast.Name):
                    b = n.target
                elif isinstance(n, ast.Call) and isinstance(n.func, ast.Attribute) and \
                        n.func.attr in MUTATING_METHODS and n.func.attr not in ("fit", "partial_fit"):
                    b = n.func.value
                while isinstance(b, (ast.Subscript, ast.Attribute)):
                    b = b.value
                if isinstance(b, ast.Name):
                    out.add(b.id)
        return out

    @staticmethod
    def _kill(env, names):
        names = set(names)
        for n in names:
            env.pop(n, None)
        for k in list(env):
            if any(isinstance(x, ast.Name) and x.id in names for x in ast.walk(env[k])):
                del env[k]

    def _block(self, stmts, env):
        for st in stmts:
            self.env_at[id(st)] = dict(env)
            if isinstance(st, ast.Assign) and len(st.targets) == 1 and isinstance(st.targets[0], ast.Name) and \
                    st.targets[0].id not in self.stop:
                t = st.targets[0].id
                v = self.subst(st.value, env)
                self._kill(env, {t} | self._mutated([st]))
                if not any(isinstance(x, ast.Name) and x.id == t for x in ast.walk(v)):
                    env[t] = v
            elif isinstance(st, ast.If):
                self._block(st.body, dict(env))
                self._block(st.orelse, dict(env))
                self._kill(env, self._assigned([st]) | self._mutated([st]))
            elif isinstance(st, (ast.For, ast.While, ast.With, ast.Try)):
                killed = self._assigned([st]) | self._mutated([st])
                self._kill(env, killed)
                for fld in ("body", "orelse", "finalbody"):
                    self._block(getattr(st, fld, []) or [], dict(env))
                for h in getattr(st, "handlers", []):
                    self._block(h.body, dict(env))
            else:
                self._kill(env, self._assigned([st]) | self._mutated([st]))
        return env

    def at(self, stmt, expr):
        """expr as it evaluates when stmt starts"""
        return self.subst(expr, self.env_at.get(id(stmt), {}))
