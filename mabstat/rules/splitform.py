"""Scenario evaluation of Simulator._run_train_test_split (C16 R16.3, C04 R4.2).

The method is straight-line code under two tests the caller's configuration fixes for the whole call: `self.is_ordered`
and `self.contexts is None`.  For each of the four scenarios the body is evaluated over a small symbolic domain, so
the verdict does not depend on how the split is spelled (explicit operands or a list built step by step and passed as
`*arrays`; tuple unpacking or slices of the result list; conditional expressions or nested ifs):

  ('none',)                        the constant None
  ('expr', text)                   any other expression, local scalars substituted away
  ('slice', src, lo, hi)           src[lo:hi] with texts (None for an omitted bound)
  ('list', [v, ..])                a list / tuple of known length
  ('split', part, k, operand, site)  the train / test half train_test_split returns for its k-th operand
  ('unknown', why)

Nothing is executed; the evaluator reads the canonical tree of the current working tree on every run.
"""
import ast
import copy


class Undecided(Exception):
    pass


def _txt(node):
    return " ".join(ast.unparse(node).split())


class _Subst(ast.NodeTransformer):
    def __init__(self, env):
        self.env = env

    def visit_Name(self, n):
        v = self.env.get(n.id)
        if isinstance(n.ctx, ast.Load) and v is not None and v[0] == "expr":
            try:
                return ast.parse(v[1], mode="eval").body
            except SyntaxError:
                return n
        return n


class Scenario:
    def __init__(self, fn_node, ordered, has_ctx):
        self.ordered, self.has_ctx = ordered, has_ctx
        self.env = {}
        self.calls = []          # train_test_split call nodes evaluated in this scenario
        self.returned = None
        self.fn_node = fn_node

    # ---- expressions
    def text(self, node):
        return _txt(_Subst(self.env).visit(copy.deepcopy(node)))

    def decide(self, test):
        """True / False when the scenario fixes the test, None otherwise."""
        if isinstance(test, ast.UnaryOp) and isinstance(test.op, ast.Not):
            d = self.decide(test.operand)
            return None if d is None else not d
        if isinstance(test, ast.BoolOp):
            ds = [self.decide(v) for v in test.values]
            if isinstance(test.op, ast.And):
                if any(d is False for d in ds):
                    return False
                return True if all(d is True for d in ds) else None
            if any(d is True for d in ds):
                return True
            return False if all(d is False for d in ds) else None
        if isinstance(test, ast.Name):
            v = self.env.get(test.id)
            if v is not None and v[0] == "none":
                return False
            if v is not None and v[0] in ("slice", "split"):
                return None
        t = self.text(test)
        if t == "self.is_ordered":
            return self.ordered
        if t in ("self.contexts is not None", "not self.contexts is None"):
            return self.has_ctx
        if t in ("self.contexts is None",):
            return not self.has_ctx
        if isinstance(test, ast.Compare) and len(test.ops) == 1 and isinstance(test.ops[0], (ast.Is, ast.IsNot)) and \
                isinstance(test.comparators[0], ast.Constant) and test.comparators[0].value is None:
            v = self.ev(test.left)
            if v[0] == "none":
                return isinstance(test.ops[0], ast.Is)
            if v[0] in ("slice", "split", "list"):
                if v[0] == "slice" and v[1] == "self.contexts" and not self.has_ctx:
                    return isinstance(test.ops[0], ast.Is)
                if v[0] == "split" and v[3] == ("expr", "self.contexts") and not self.has_ctx:
                    return None
                return isinstance(test.ops[0], ast.IsNot)
        return None

    def ev(self, node):
        if isinstance(node, ast.Constant) and node.value is None:
            return ("none",)
        if isinstance(node, ast.Name):
            if node.id in self.env:
                return self.env[node.id]
            return ("expr", node.id)
        if isinstance(node, (ast.List, ast.Tuple)):
            out = []
            for e in node.elts:
                if isinstance(e, ast.Starred):
                    v = self.ev(e.value)
                    if v[0] != "list":
                        return ("unknown", "starred operand of unknown length")
                    out.extend(v[1])
                else:
                    out.append(self.ev(e))
            return ("list", out)
        if isinstance(node, ast.IfExp):
            d = self.decide(node.test)
            if d is None:
                return ("unknown", "conditional on `%s`" % _txt(node.test))
            return self.ev(node.body if d else node.orelse)
        if isinstance(node, ast.Call) and _txt(node.func) in ("list", "tuple") and len(node.args) == 1 and \
                not node.keywords:
            v = self.ev(node.args[0])
            if v[0] == "list":
                return v
        if isinstance(node, ast.Call) and _txt(node.func).split(".")[-1] == "train_test_split":
            ops = []
            for a in node.args:
                if isinstance(a, ast.Starred):
                    v = self.ev(a.value)
                    if v[0] != "list":
                        return ("unknown", "train_test_split(*%s): operand list of unknown length" % _txt(a.value))
                    ops.extend(v[1])
                else:
                    ops.append(self.ev(a))
            self.calls.append((node, ops))
            out = []
            for k, o in enumerate(ops):
                out.append(("split", "train", k, o, node))
                out.append(("split", "test", k, o, node))
            return ("list", out)
        if isinstance(node, ast.Subscript):
            base = self.ev(node.value)
            s = node.slice
            if base[0] == "list":
                idx = self._const_index(s)
                if idx is None:
                    return ("unknown", "subscript `%s` of a result list" % _txt(node))
                try:
                    r = base[1][idx]
                except IndexError:
                    return ("unknown", "subscript `%s` out of range (list of %d)" % (_txt(node), len(base[1])))
                return ("list", r) if isinstance(idx, slice) else r
            if isinstance(s, ast.Slice) and s.step is None and base[0] == "expr":
                return ("slice", base[1], self.text(s.lower) if s.lower is not None else None,
                        self.text(s.upper) if s.upper is not None else None)
        return ("expr", self.text(node))

    def _const_index(self, s):
        def num(n):
            if n is None:
                return None
            if isinstance(n, ast.Constant) and isinstance(n.value, int):
                return n.value
            if isinstance(n, ast.UnaryOp) and isinstance(n.op, ast.USub) and isinstance(n.operand, ast.Constant) and \
                    isinstance(n.operand.value, int):
                return -n.operand.value
            raise ValueError
        try:
            if isinstance(s, ast.Slice):
                if s.step is not None:
                    return None
                return slice(num(s.lower), num(s.upper))
            r = num(s)
            return r
        except ValueError:
            return None

    # ---- statements
    def assign(self, target, value):
        if isinstance(target, ast.Name):
            self.env[target.id] = value
        elif isinstance(target, ast.Attribute) and _txt(target).startswith("self."):
            self.env[_txt(target)] = value
        elif isinstance(target, (ast.Tuple, ast.List)):
            if value[0] == "list" and len(value[1]) == len(target.elts) and not any(
                    isinstance(e, ast.Starred) for e in target.elts):
                for e, v in zip(target.elts, value[1]):
                    self.assign(e, v)
            else:
                why = "unpacking %d targets from %s" % (len(target.elts), "a list of %d" % len(value[1])
                                                         if value[0] == "list" else "a value of unknown length")
                for e in target.elts:
                    self.assign(e.value if isinstance(e, ast.Starred) else e, ("unknown", why))
        # subscript stores etc. are of no interest here

    def run(self, stmts):
        for st in stmts:
            if self.returned is not None:
                return
            if isinstance(st, ast.Assign):
                v = self.ev(st.value)
                for t in st.targets:
                    self.assign(t, v)
            elif isinstance(st, ast.AnnAssign) and st.value is not None:
                self.assign(st.target, self.ev(st.value))
            elif isinstance(st, ast.AugAssign):
                if isinstance(st.target, ast.Name) and self.env.get(st.target.id, ("x",))[0] == "list" and \
                        isinstance(st.op, ast.Add):
                    v = self.ev(st.value)
                    if v[0] == "list":
                        self.env[st.target.id] = ("list", self.env[st.target.id][1] + v[1])
                    else:
                        self.env[st.target.id] = ("unknown", "`%s`" % _txt(st))
                elif isinstance(st.target, ast.Name):
                    self.env[st.target.id] = ("expr", self.text(ast.BinOp(left=st.target, op=st.op, right=st.value)))
            elif isinstance(st, ast.Expr) and isinstance(st.value, ast.Call) and \
                    isinstance(st.value.func, ast.Attribute) and isinstance(st.value.func.value, ast.Name) and \
                    self.env.get(st.value.func.value.id, ("x",))[0] == "list":
                name, meth = st.value.func.value.id, st.value.func.attr
                cur = self.env[name][1]
                if meth == "append" and len(st.value.args) == 1:
                    self.env[name] = ("list", cur + [self.ev(st.value.args[0])])
                elif meth == "extend" and len(st.value.args) == 1 and self.ev(st.value.args[0])[0] == "list":
                    self.env[name] = ("list", cur + self.ev(st.value.args[0])[1])
                elif meth == "insert" and len(st.value.args) == 2 and self._const_index(st.value.args[0]) is not None:
                    i = self._const_index(st.value.args[0])
                    new = list(cur)
                    new.insert(i, self.ev(st.value.args[1]))
                    self.env[name] = ("list", new)
                else:
                    self.env[name] = ("unknown", "`%s`" % _txt(st))
            elif isinstance(st, ast.If):
                d = self.decide(st.test)
                if d is None:
                    # a test the scenario does not fix: both sides must leave the tracked names alone
                    stored = {_txt(t) for s in st.body + st.orelse for t in ast.walk(s)
                              if isinstance(t, (ast.Name, ast.Attribute)) and isinstance(t.ctx, ast.Store)}
                    for nm in stored:
                        if nm != "self._chunk_size":
                            self.env[nm] = ("unknown", "assigned under `%s`, which the scenario does not decide"
                                            % _txt(st.test)[:60])
                else:
                    self.run(st.body if d else st.orelse)
            elif isinstance(st, ast.Return):
                self.returned = self.ev(st.value) if st.value is not None else ("none",)
            elif isinstance(st, (ast.For, ast.While, ast.With, ast.Try)):
                for t in ast.walk(st):
                    if isinstance(t, (ast.Name, ast.Attribute)) and isinstance(getattr(t, "ctx", None), ast.Store):
                        self.env[_txt(t)] = ("unknown", "assigned inside a %s statement" % type(st).__name__.lower())
            # other expression statements / raises / asserts have no bearing on the split


def scenarios(fn_node):
    out = {}
    for ordered in (True, False):
        for has_ctx in (True, False):
            s = Scenario(fn_node, ordered, has_ctx)
            body = [st for st in fn_node.body
                    if not (isinstance(st, ast.Expr) and isinstance(st.value, ast.Constant))]
            s.run(body)
            out[(ordered, has_ctx)] = s
    return out


IDENTITY_INDEX = ("list(range(len(self.decisions)))", "[x for x in range(len(self.decisions))]",
                  "np.arange(len(self.decisions))", "range(len(self.decisions))",
                  "list(range(0, len(self.decisions)))", "np.arange(0, len(self.decisions))")


def is_identity_index(v):
    if v[0] != "expr":
        return False
    t = v[1]
    if t in IDENTITY_INDEX:
        return True
    # a comprehension over the same range with any variable name
    try:
        n = ast.parse(t, mode="eval").body
    except SyntaxError:
        return False
    if isinstance(n, ast.ListComp) and len(n.generators) == 1 and not n.generators[0].ifs and \
            isinstance(n.elt, ast.Name) and isinstance(n.generators[0].target, ast.Name) and \
            n.elt.id == n.generators[0].target.id and _txt(n.generators[0].iter) in (
                "range(len(self.decisions))", "range(0, len(self.decisions))"):
        return True
    return False


def show(v):
    if v is None:
        return "<unassigned>"
    if v[0] == "split":
        return "%s half of operand %d (%s)" % (v[1], v[2], show(v[3]))
    if v[0] == "slice":
        return "%s[%s:%s]" % (v[1], v[2] or "", v[3] or "")
    if v[0] == "list":
        return "[%s]" % ", ".join(show(x) for x in v[1])
    if v[0] == "none":
        return "None"
    if v[0] == "unknown":
        return "unknown (%s)" % v[1]
    return v[1]
