# -*- coding: utf-8 -*-
"""A8 shape interpreter: abstract interpretation of the numpy expressions of linear.py / utils.py over symbolic
shapes.  A dimension is a symbol ('m' query rows, 'd' features, 'n' training rows, 'k' arms, fresh symbols for index
selections) together with the scenario's knowledge whether it equals 1.  Nothing is executed."""

import ast


class ShapeError(Exception):
    pass


class Undecided(Exception):
    pass


class Dim:
    __slots__ = ("sym", "one")

    def __init__(self, sym, one=False):
        self.sym = sym
        self.one = one or sym == "1"

    def __eq__(self, other):
        return isinstance(other, Dim) and self.sym == other.sym

    def __hash__(self):
        return hash(self.sym)

    def __repr__(self):
        return self.sym + ("=1" if self.one and self.sym != "1" else "")


ONE = Dim("1", True)


class Arr:
    """array value: shape tuple of Dim; scalars have shape ()."""
    __slots__ = ("shape", "kind")

    def __init__(self, shape, kind="array"):
        self.shape = tuple(shape)
        self.kind = kind

    def __repr__(self):
        return "(%s)" % ", ".join(repr(d) for d in self.shape)


class DimVal:
    """an integer that is the size of a dimension (x.shape[0], num_features, len(arms))"""
    def __init__(self, dim):
        self.dim = dim


class ShapeTuple:
    def __init__(self, dims):
        self.dims = tuple(dims)


class ListOf:
    def __init__(self, length: Dim, elem):
        self.length = length
        self.elem = elem


SCALAR = Arr(())


def broadcast(a: Arr, b: Arr, where):
    ra, rb = list(reversed(a.shape)), list(reversed(b.shape))
    out = []
    a_expanded_where_b_big = b_expanded_where_a_big = False
    for i in range(max(len(ra), len(rb))):
        da = ra[i] if i < len(ra) else None
        db = rb[i] if i < len(rb) else None
        if da is None:
            out.append(db)
            if not db.one:
                a_expanded_where_b_big = True
            continue
        if db is None:
            out.append(da)
            if not da.one:
                b_expanded_where_a_big = True
            continue
        if da == db:
            out.append(da)
        elif da.one and db.one:
            out.append(da)
        elif da.one:
            out.append(db)
            a_expanded_where_b_big = True
        elif db.one:
            out.append(da)
            b_expanded_where_a_big = True
        else:
            raise ShapeError("operands %r and %r cannot be broadcast together (%s vs %s) in `%s`" %
                             (a, b, da, db, where))
    if a_expanded_where_b_big and b_expanded_where_a_big and a.shape and b.shape:
        raise ShapeError("two-sided broadcast of %r with %r in `%s`: each operand is expanded along an axis where "
                         "the other is larger than 1 (an accidental outer product)" % (a, b, where))
    return Arr(tuple(reversed(out)))


def count(shape):
    """multiset of non-unit dims (symbolic element count)"""
    return sorted(d.sym for d in shape if not d.one)


class Opaque:
    """A value the interpreter could not give a shape to. It is harmless as long as it does not reach an operation
    or a result the rule checks; there it becomes Undecided with the original reason."""

    def __init__(self, why):
        self.why = why

    def __repr__(self):
        return "<unknown: %s>" % self.why


class _Conflict:
    def __init__(self, name, a, b):
        self.name, self.a, self.b = name, a, b


class ShapeInterp:
    def __init__(self, prog, scenario, resolve_predict=None):
        self.prog = prog
        self.sc = scenario                  # {'m': bool is_one, 'd': bool is_one}
        self.fresh = 0
        self.resolve_predict = resolve_predict

    def dim(self, sym):
        return Dim(sym, self.sc.get(sym, False))

    def new_dim(self, like=None):
        self.fresh += 1
        return Dim("s%d" % self.fresh, like.one if like is not None else False)

    # ------------------------------------------------------------------ statements
    def run(self, fn, env, fields, depth=0):
        """Interprets fn's body; returns the value of the (single) return; raises ShapeError / Undecided."""
        self.fields = fields
        ret = [None]
        self._block(fn, fn.node.body, env, ret, depth)
        return ret[0]

    def _block(self, fn, stmts, env, ret, depth):
        for st in stmts:
            if isinstance(st, ast.Expr) and isinstance(st.value, ast.Constant):
                continue
            if isinstance(st, ast.Pass):
                continue
            if isinstance(st, ast.Assign) and len(st.targets) == 1:
                v = self.ev(st.value, env, fn, depth)
                t = st.targets[0]
                if isinstance(t, ast.Name):
                    env[t.id] = v
                elif isinstance(t, ast.Attribute) and isinstance(t.value, ast.Name) and t.value.id == "self":
                    old = self.fields.get(t.attr)
                    if isinstance(old, Arr) and isinstance(v, Arr) and old.shape and tuple(old.shape) != tuple(
                            v.shape) and count(old.shape) != count(v.shape):
                        raise ShapeError("self.%s has shape %r but `%s` assigns %r" % (t.attr, old, ast.unparse(st),
                                                                                         v))
                    if isinstance(old, Arr) and isinstance(v, Arr) and len(old.shape) != len(v.shape) and old.shape:
                        raise ShapeError("self.%s has shape %r but `%s` assigns %r" % (t.attr, old, ast.unparse(st),
                                                                                         v))
                    self.fields[t.attr] = v
                elif isinstance(t, ast.Subscript):
                    tgt = self.ev(t, env, fn, depth)
                    for x in (tgt, v):
                        if isinstance(x, Opaque):
                            raise Undecided("`%s`: %s" % (ast.unparse(st)[:60], x.why))
                    if isinstance(tgt, Arr) and isinstance(v, Arr):
                        # value must broadcast INTO the target: no expansion of the target
                        res = broadcast(tgt, v, ast.unparse(st))
                        if tuple(res.shape) != tuple(tgt.shape) and count(res.shape) != count(tgt.shape):
                            raise ShapeError("`%s`: cannot store %r into a slot of shape %r" % (ast.unparse(st), v,
                                                                                                  tgt))
                else:
                    raise Undecided("assignment target `%s`" % ast.unparse(t))
            elif isinstance(st, ast.AugAssign) and isinstance(st.target, ast.Name):
                cur = self.ev(st.target, env, fn, depth)
                v = self.ev(st.value, env, fn, depth)
                cur = SCALAR if isinstance(cur, DimVal) else cur
                v = SCALAR if isinstance(v, DimVal) else v
                if isinstance(cur, Arr) and isinstance(v, Arr):
                    res = broadcast(cur, v, ast.unparse(st))
                    if cur.shape and tuple(res.shape) != tuple(cur.shape) and count(res.shape) != count(cur.shape):
                        raise ShapeError("`%s`: in-place result %r does not fit the target %r" % (ast.unparse(st),
                                                                                                   res, cur))
                    env[st.target.id] = cur if cur.shape else res
                else:
                    env[st.target.id] = Opaque("augmented assignment `%s`" % ast.unparse(st)[:60])
            elif isinstance(st, ast.If):
                test = ast.unparse(st.test)
                if test in ("self.scaler is not None",):
                    continue            # scale=False scenario; the scaled path preserves shapes (sklearn)
                if test == "is_predict":
                    e1, e2 = dict(env), dict(env)
                    self._block(fn, st.body, e1, ret, depth)
                    self._block(fn, st.orelse, e2, ret, depth)
                    env.update(e1)
                    continue
                # unknown condition: both branches, agreeing results are kept
                e1, e2 = dict(env), dict(env)
                r1, r2 = [None], [None]
                self._block(fn, st.body, e1, r1, depth)
                self._block(fn, st.orelse, e2, r2, depth)
                for k in set(e1) | set(e2):
                    v1, v2 = e1.get(k), e2.get(k)
                    if v1 is None or v2 is None:
                        env[k] = v1 if v1 is not None else v2
                    elif repr(v1) == repr(v2) or not (isinstance(v1, Arr) and isinstance(v2, Arr)):
                        env[k] = v1
                    else:
                        env[k] = v1 if count(v1.shape) == count(v2.shape) and len(v1.shape) == len(v2.shape) \
                            else _Conflict(k, v1, v2)
                if r1[0] is not None and r2[0] is not None:
                    ret[0] = r1[0]
                    return
                continue
            elif isinstance(st, ast.Return):
                ret[0] = self.ev(st.value, env, fn, depth) if st.value is not None else None
                return
            elif isinstance(st, ast.For) and not st.orelse and not any(
                    isinstance(n, (ast.Break, ast.Continue, ast.Return)) for n in ast.walk(st)):
                # shapes do not depend on how often a loop runs: one abstract turn with the loop variables bound to
                # an element (a label / a scalar / a row) of what is iterated
                it = st.iter
                idx_name = None
                tgt = st.target
                if isinstance(it, ast.Call) and ast.unparse(it.func) == "enumerate" and len(it.args) == 1 and \
                        isinstance(tgt, ast.Tuple) and len(tgt.elts) == 2 and \
                        all(isinstance(x, ast.Name) for x in tgt.elts):
                    idx_name, tgt, it = tgt.elts[0].id, tgt.elts[1], it.args[0]
                if not isinstance(tgt, ast.Name):
                    raise Undecided("loop target `%s`" % ast.unparse(st.target))
                try:
                    seq = self.ev(it, env, fn, depth)
                except Undecided:
                    seq = None
                if isinstance(seq, Arr) and len(seq.shape) >= 1:
                    elem = Arr(seq.shape[1:])
                elif isinstance(seq, ListOf):
                    elem = seq.elem
                else:
                    elem = SCALAR
                env[tgt.id] = elem
                if idx_name is not None:
                    env[idx_name] = SCALAR
                self._block(fn, st.body, env, ret, depth)
                if ret[0] is not None:
                    raise Undecided("return inside a loop")
            else:
                raise Undecided("statement `%s`" % ast.unparse(st)[:60])

    # ------------------------------------------------------------------ expressions
    def ev(self, e, env, fn, depth):
        # the same pure expression evaluated twice denotes the same array: its data-dependent dimensions are the same
        # symbols (the analysed copy has single-assignment temporaries inlined, so expressions repeat)
        key = None
        if isinstance(e, (ast.Call, ast.Subscript)) and "rng" not in ast.unparse(e):
            cache = self.__dict__.setdefault("_memo", {})
            key = (id(env.get("__scope__", None)), ast.unparse(e),
                   tuple(sorted((k, repr(v)) for k, v in env.items() if isinstance(k, str) and k in ast.unparse(e))),
                   tuple(sorted((k, repr(v)) for k, v in getattr(self, "fields", {}).items()
                                if ("self." + k) in ast.unparse(e))))
            if key in cache:
                return cache[key]
        try:
            r = self._ev(e, env, fn, depth)
        except Undecided as u:
            # keep the innermost reason
            r = Opaque(str(u))
        if key is not None:
            self._memo[key] = r
        return r

    def _ev(self, e, env, fn, depth):
        if isinstance(e, ast.Name):
            if e.id in env:
                if isinstance(env[e.id], _Conflict):
                    raise Undecided("%s has shape %r or %r depending on a branch" % (e.id, env[e.id].a, env[e.id].b))
                return env[e.id]
            raise Undecided("name %s" % e.id)
        if isinstance(e, ast.Constant):
            return SCALAR
        if isinstance(e, ast.Attribute):
            if isinstance(e.value, ast.Name) and e.value.id == "self":
                if e.attr in self.fields:
                    return self.fields[e.attr]
                raise Undecided("field self.%s" % e.attr)
            base = self.ev(e.value, env, fn, depth)
            if e.attr == "T" and isinstance(base, Arr):
                return Arr(tuple(reversed(base.shape)))
            if e.attr == "shape" and isinstance(base, Arr):
                return ShapeTuple(base.shape)
            if e.attr == "size" and isinstance(base, Arr):
                return SCALAR
            raise Undecided("attribute .%s" % e.attr)
        if isinstance(e, ast.Tuple):
            vals = [self.ev(x, env, fn, depth) for x in e.elts]
            if all(isinstance(v, DimVal) for v in vals):
                return ShapeTuple([v.dim for v in vals])
            raise Undecided("tuple `%s`" % ast.unparse(e))
        if isinstance(e, ast.UnaryOp):
            return self.ev(e.operand, env, fn, depth)
        if isinstance(e, ast.BinOp):
            a, b = self.ev(e.left, env, fn, depth), self.ev(e.right, env, fn, depth)
            a = SCALAR if isinstance(a, DimVal) else a
            b = SCALAR if isinstance(b, DimVal) else b
            if isinstance(a, Arr) and isinstance(b, Arr):
                if isinstance(e.op, ast.MatMult):
                    return self.dot(a, b, ast.unparse(e))
                return broadcast(a, b, ast.unparse(e))
            raise Undecided("operator on %s" % ast.unparse(e))
        if isinstance(e, ast.Compare):
            a = self.ev(e.left, env, fn, depth)
            b = self.ev(e.comparators[0], env, fn, depth)
            if isinstance(a, Arr) and isinstance(b, Arr):
                return broadcast(a, b, ast.unparse(e))
            raise Undecided("comparison %s" % ast.unparse(e))
        if isinstance(e, ast.Subscript):
            return self.subscript(e, env, fn, depth)
        if isinstance(e, ast.ListComp):
            it = self.ev(e.generators[0].iter, env, fn, depth)
            env2 = dict(env)
            if isinstance(it, Arr) and it.shape:
                length = it.shape[0]
                tgt = e.generators[0].target
                if isinstance(tgt, ast.Name):
                    env2[tgt.id] = Arr(it.shape[1:])
            elif isinstance(it, ListOf):
                length = it.length
                if isinstance(e.generators[0].target, ast.Name):
                    env2[e.generators[0].target.id] = it.elem
            else:
                raise Undecided("comprehension over %s" % ast.unparse(e.generators[0].iter))
            elt = self.ev(e.elt, env2, fn, depth)
            return ListOf(length, elt)
        if isinstance(e, ast.Call):
            return self.call(e, env, fn, depth)
        if isinstance(e, ast.IfExp):
            v = self.ev(e.body, env, fn, depth)
            return SCALAR if isinstance(v, Opaque) else v
        raise Undecided("expression `%s`" % ast.unparse(e)[:60])

    def subscript(self, e, env, fn, depth):
        base = self.ev(e.value, env, fn, depth)
        sl = e.slice
        if isinstance(base, ShapeTuple):
            if isinstance(sl, ast.Constant) and isinstance(sl.value, int):
                return DimVal(base.dims[sl.value])
            raise Undecided("shape index")
        if isinstance(base, ListOf):
            return base.elem
        if not isinstance(base, Arr):
            raise Undecided("subscript of %s" % ast.unparse(e.value))
        if isinstance(sl, ast.Constant) and isinstance(sl.value, int):
            return Arr(base.shape[1:])
        if isinstance(sl, ast.Tuple):
            out = []
            axis = 0
            for x in sl.elts:
                if isinstance(x, ast.Slice):
                    out.append(base.shape[axis])
                    axis += 1
                elif isinstance(x, ast.Attribute) and x.attr == "newaxis" or (isinstance(x, ast.Constant)
                                                                                and x.value is None):
                    out.append(ONE)
                else:
                    # an index array selects along its axis (one entry per index), a scalar removes the axis
                    iv = None
                    if not isinstance(x, ast.Constant):
                        try:
                            iv = self.ev(x, env, fn, depth)
                        except Undecided:
                            iv = None
                    if isinstance(iv, Arr) and len(iv.shape) == 1:
                        out.append(iv.shape[0])
                    axis += 1
            out.extend(base.shape[axis:])
            return Arr(out)
        if isinstance(sl, ast.Slice):
            return base
        idx = self.ev(sl, env, fn, depth)
        if isinstance(idx, Arr):
            if len(idx.shape) == 1:
                # integer index array or boolean mask along the first axis
                if base.shape and idx.shape[0] == base.shape[0] and getattr(idx, "kind", "") == "mask":
                    return Arr((self.new_dim(base.shape[0]),) + tuple(base.shape[1:]))
                return Arr((idx.shape[0],) + tuple(base.shape[1:]))
            if not idx.shape:
                return Arr(base.shape[1:])
        raise Undecided("index `%s`" % ast.unparse(sl))

    def dot(self, a: Arr, b: Arr, where):
        if not a.shape or not b.shape:
            return broadcast(a, b, where)
        inner_a = a.shape[-1]
        inner_b = b.shape[-2] if len(b.shape) >= 2 else b.shape[0]
        if not (inner_a == inner_b or (inner_a.one and inner_b.one)):
            raise ShapeError("np.dot inner dimensions differ: %r . %r in `%s`" % (a, b, where))
        out = tuple(a.shape[:-1]) + (tuple(b.shape[:-2]) + tuple(b.shape[-1:]) if len(b.shape) >= 2 else ())
        return Arr(out)

    def call(self, e, env, fn, depth):
        f = ast.unparse(e.func)
        args = e.args
        kw = {k.arg: k.value for k in e.keywords}

        def A(i):
            return self.ev(args[i], env, fn, depth)
        if f == "np.dot":
            return self.dot(A(0), A(1), ast.unparse(e))
        if f in ("np.sqrt", "np.square", "np.abs", "np.exp", "np.linalg.inv", "np.copy", "np.asarray"):
            v = A(0)
            if f == "np.linalg.inv" and isinstance(v, Arr) and (len(v.shape) != 2 or v.shape[0] != v.shape[1]):
                raise ShapeError("np.linalg.inv of a non-square array %r" % v)
            if f == "np.asarray" and isinstance(v, ListOf):
                return self._array_of(v)
            return v
        if f == "np.array":
            v = A(0)
            if isinstance(v, ListOf):
                return self._array_of(v)
            if isinstance(v, Arr):
                r = Arr(v.shape)
                r.kind = "mask" if isinstance(args[0], ast.Compare) else "array"
                return r
            raise Undecided("np.array(%s)" % ast.unparse(args[0]))
        if f == "np.sum":
            v = A(0)
            ax = kw.get("axis")
            if ax is None:
                return SCALAR
            axis = ax.value if isinstance(ax, ast.Constant) else None
            if axis is None or not isinstance(v, Arr):
                raise Undecided("np.sum axis")
            if axis >= len(v.shape) or axis < -len(v.shape):
                raise ShapeError("np.sum(axis=%d) of %r in `%s`" % (axis, v, ast.unparse(e)))
            sh = list(v.shape)
            del sh[axis]
            return Arr(sh)
        if f in ("np.argmax", "np.argmin", "np.max", "np.min", "np.mean"):
            v = A(0)
            ax = kw.get("axis")
            if ax is None or not isinstance(v, Arr):
                return SCALAR
            axis = ax.value if isinstance(ax, ast.Constant) else None
            if axis is None or axis >= len(v.shape):
                raise ShapeError("%s(axis=%s) of %r" % (f, ast.unparse(ax), v))
            sh = list(v.shape)
            del sh[axis]
            return Arr(sh)
        if f in ("StandardScaler",):
            return SCALAR
        if f in ("np.zeros", "np.empty", "np.ones"):
            v = A(0)
            if isinstance(v, DimVal):
                return Arr((v.dim,))
            if isinstance(v, ShapeTuple):
                return Arr(v.dims)
            raise Undecided("%s(%s)" % (f, ast.unparse(args[0])))
        if f == "np.identity":
            v = A(0)
            if isinstance(v, DimVal):
                return Arr((v.dim, v.dim))
            raise Undecided("np.identity arg")
        if f == "len":
            v = A(0)
            if isinstance(v, Arr) and v.shape:
                return DimVal(v.shape[0])
            if isinstance(v, ListOf):
                return DimVal(v.length)
            raise Undecided("len(%s)" % ast.unparse(args[0]))
        if f in ("np.squeeze",):
            v = A(0)
            return Arr([d for d in v.shape if not d.one])
        if f in ("np.reshape",):
            v, sh = A(0), A(1)
            return self._reshape(v, sh, ast.unparse(e))
        if f in ("np.where", "np.nonzero") and len(args) == 1:
            v = A(0)
            if isinstance(v, Arr) and len(v.shape) == 1:
                return ListOf(ONE, Arr((self.new_dim(v.shape[0]),)))
            raise Undecided("np.where")
        if f == "np.flatnonzero" and len(args) == 1:
            v = A(0)
            if isinstance(v, Arr) and len(v.shape) == 1:
                return Arr((self.new_dim(v.shape[0]),))
            raise Undecided("np.flatnonzero")
        if f == "deepcopy":
            return A(0)
        if f == "dict" or f == "zip":
            return SCALAR
        if isinstance(e.func, ast.Attribute):
            recv_src = ast.unparse(e.func.value)
            meth = e.func.attr
            if recv_src == "self.rng":
                if meth == "rand":
                    if not args:
                        return SCALAR
                    v = A(0)
                    if isinstance(v, DimVal):
                        return Arr((v.dim,))
                    if isinstance(v, ShapeTuple):
                        return Arr(v.dims)
                    raise Undecided("rand arg")
                if meth == "multivariate_normal":
                    mean, cov = A(0), A(1)
                    if not (isinstance(mean, Arr) and len(mean.shape) == 1 and isinstance(cov, Arr)
                            and len(cov.shape) == 2 and cov.shape[0] == mean.shape[0] == cov.shape[1]):
                        raise ShapeError("multivariate_normal(mean %r, cov %r)" % (mean, cov))
                    size = self.ev(kw["size"], env, fn, depth) if "size" in kw else None
                    raw = ((size.dim,) if isinstance(size, DimVal) else ()) + (mean.shape[0],)
                    # _NumpyRNG.multivariate_normal squeezes the sample (utils.py); re-validated by the caller
                    if self.squeeze_in_wrapper:
                        return Arr([d for d in raw if not d.one])
                    return Arr(raw)
                raise Undecided("rng.%s" % meth)
            if meth in ("predict",) and self.resolve_predict is not None and recv_src.startswith(
                    "self.arm_to_model["):
                x = A(0)
                return self.resolve_predict(self, x, depth + 1)
            recv = self.ev(e.func.value, env, fn, depth)
            if isinstance(recv, Arr):
                if meth in ("copy", "astype"):
                    return recv
                if meth == "reshape":
                    sh = A(0) if len(args) == 1 else ShapeTuple([self._dimlit(a, env, fn, depth) for a in args])
                    return self._reshape(recv, sh, ast.unparse(e))
                if meth == "nonzero":
                    return ListOf(ONE, Arr((self.new_dim(recv.shape[0]),)))
                if meth == "tolist":
                    return recv
                if meth == "sum":
                    return SCALAR
            if meth == "_scale_predict_context":
                return A(0)
        raise Undecided("call `%s`" % ast.unparse(e)[:70])

    squeeze_in_wrapper = True

    def _dimlit(self, a, env, fn, depth):
        if isinstance(a, ast.Constant) and a.value == 1:
            return ONE
        if isinstance(a, ast.UnaryOp) and isinstance(a.op, ast.USub):
            return Dim("-1")
        v = self.ev(a, env, fn, depth)
        if isinstance(v, DimVal):
            return v.dim
        raise Undecided("reshape argument")

    def _reshape(self, v, sh, where):
        if not isinstance(v, Arr):
            raise Undecided("reshape of non-array")
        if isinstance(sh, ShapeTuple):
            dims = list(sh.dims)
            if any(d.sym == "-1" for d in dims):
                known = [d for d in dims if d.sym != "-1"]
                rest = [s for s in count(v.shape)]
                for d in known:
                    if not d.one and d.sym in rest:
                        rest.remove(d.sym)
                    elif not d.one:
                        raise ShapeError("cannot reshape %r to %s in `%s`" % (v, dims, where))
                fill = Dim(rest[0]) if len(rest) == 1 else (ONE if not rest else None)
                if fill is None:
                    raise Undecided("reshape -1 of several dims")
                dims = [fill if d.sym == "-1" else d for d in dims]
            if count(dims) != count(v.shape):
                raise ShapeError("cannot reshape %r to %r in `%s`" % (v, Arr(dims), where))
            return Arr(dims)
        raise Undecided("reshape target")

    def _array_of(self, lst: ListOf):
        if isinstance(lst.elem, Arr):
            return Arr((lst.length,) + tuple(lst.elem.shape))
        raise Undecided("array of non-arrays")
