# -*- coding: utf-8 -*-
"""C18 - inputs are never modified; container-type tables agree."""

import ast

from ..facts import LP_CLASS, NP_CLASS, call_chain, fmt_target, walk
from ..model import norm_stmt
from .common import facts, parent

EXPLANATION = (
    "Ownership/alias analysis plus a table-agreement check. (R18.1) In the abstract traces of MAB.__init__ and "
    "of every public entry point, for all 55 configurations, every argument object (data containers, the arms "
    "list, the policy tuples and the objects held in their fields, the arm-feature dict) is an abstract object of "
    "region CALLER; aliases are followed through calls, views (.values, .T, basic slices, np.asarray, reshape) "
    "and field stores. No store, augmented store, delete, mutating method or in-place numpy call may target a "
    "CALLER object; bandit fields that may alias caller objects (the stored history) may only be rebound, never "
    "written in place, by any entry point. (R18.2) MAB.arms references a fresh copy. (R18.3) the isinstance "
    "alternatives accepted by the validators equal the ones handled by the converters, every converter chain "
    "ends in raise, and every converter return is identity-on-C-contiguous / .values / np.asarray(order='C'). "
    "(R18.4) no converter / validator branch reads an attribute its implementor cannot have. (R18.5) the number "
    "of features of a Series is taken from the column dimension. (R18.6) on the traces no data of a call are cast "
    "to a dtype whose value depends on bandit state (a stored int / fixed-width string history would otherwise "
    "truncate later batches). Estimators built "
    "with copy=False / copy_x=False are modelled as writing into their operand. "
    "Decides 'no caller object can be mutated' and 'no accepted container type is left unconverted'; value "
    "equality across container types is numerical and not decided.")
ASSUMPTIONS = [
    "externals table (which numpy/pandas operations return views, which mutate)",
    "pandas .values may alias the caller's buffer (treated as a view, i.e. conservatively)",
    "CPython ast",
]


def _aliases_caller(eng, v):
    for r in v.refs:
        if eng.obj(r).region == "caller":
            return True
    for (oid, steps) in v.locs:
        if eng.obj(oid).region == "caller":
            return True
    return False


def check(ctx):
    F = facts(ctx)
    prog = ctx.prog
    ctx.rule("R18.1", "no in-place write reaches a caller-owned object through any alias; bandit fields that may "
                      "alias caller objects are only ever rebound")
    ctx.rule("R18.2", "MAB.__init__ stores a fresh copy of arms")
    ctx.rule("R18.3", "validator and converter type tables agree; converters end in raise; every branch returns "
                      "a C-ordered ndarray (or an alias that already is one)")
    n_events = 0
    aliased_fields = {}
    traces = []
    for c in F.configs():
        w = F.world(c)
        roots = [("__init__", F.init_trace(c))] + [(lab, F.trace(c, lab)) for lab in F.entry_labels(c)]
        for label, root in roots:
            traces.append((c, label, root, w))
            F.focus(c, root)
            for ev, anc in walk(root):
                if ev.kind != "store":
                    continue
                n_events += 1
                bad = [t for t in ev.a["targets"] if t.region == "caller"]
                for t in bad:
                    ctx.violate("R18.1", "%s writes caller object %s" % (label.split("+")[0], fmt_target(t)),
                                ev.node, ev.fn, "%s store reaches an object owned by the caller [%s]; path %s" %
                                (ev.a["skind"], c.name, call_chain(anc)))
                # which bandit fields may hold caller-owned objects?
                if ev.a["step"].startswith(".") and ev.a["value"] is not None and \
                        _aliases_caller(w.eng, ev.a["value"]):
                    for t in ev.a["targets"]:
                        if t.region == "bandit" and t.field is not None and not t.sub:
                            aliased_fields.setdefault((t.ocls, t.field), (ev, c.name))
        # R18.2
        mab = w.skeleton.objs[w.mab_oid]
        arms = mab.fields.get("arms")
        ok = arms is not None and arms.refs and not arms.locs and all(
            w.skeleton.objs[r].region == "bandit" for r in arms.refs)
        initf = prog.method("MAB", "__init__")
        ctx.check(bool(ok), "R18.2", "MAB.arms is a fresh copy of the caller's list", initf.node, initf,
                  construct="self.arms = <copy of arms>", detail="MAB.arms may alias the caller's list [%s]" % c.name)
    # in-place writes into fields that may alias caller data
    for c, label, root, w in traces:
        for ev, anc in walk(root):
            if ev.kind != "store":
                continue
            for t in ev.a["targets"]:
                if t.region == "bandit" and t.sub and (t.ocls, t.field) in aliased_fields:
                    src_ev, cn = aliased_fields[(t.ocls, t.field)]
                    ctx.violate("R18.1", "%s writes in place into %s which may alias a caller object" %
                                (label.split("+")[0], fmt_target(t)), ev.node, ev.fn,
                                "field was bound to caller data at %s [%s]" % (prog.loc(src_ev.fn, src_ev.node), cn))
    for (ocls, fld), (ev, cn) in sorted(aliased_fields.items()):
        ctx.ok("R18.1", "%s.%s may alias caller data and is only ever rebound" % (ocls, fld), ev.node, ev.fn)
    ctx.ok("R18.1", "no store event targets a caller-owned object (%d store events, %d runs)" %
           (n_events, len(traces)), construct="all entries", where="mabwiser/")
    # R18.6: what a batch becomes must not depend on what the bandit happens to hold: data of the call are never cast
    # to a dtype read from stored state (an int history would then truncate later float batches, a fixed-width
    # string history would cut longer arm names, while the same data in one call or in another container is
    # accepted unchanged)
    ctx.rule("R18.6", "data of a call are not cast to a dtype taken from the bandit's stored arrays")
    from .kill import dep_locations
    n_cast = 0
    for c, label, root, w in traces:
        if label.split("+")[0] not in ("fit", "partial_fit", "predict", "predict_expectations"):
            continue
        eng = w.eng
        F.focus(c, root)
        for ev, anc in walk(root):
            if ev.kind != "ext" or ev.a["name"] not in ("numpy.asarray", "numpy.array", "numpy.asanyarray", ".astype",
                                                        "numpy.ascontiguousarray"):
                continue
            args = ev.a.get("args", [])
            kw = ev.a.get("kwargs", {})
            data = ev.a.get("recv") if ev.a["name"] == ".astype" else (args[0] if args else None)
            dt = kw.get("dtype")
            if dt is None:
                pos = 0 if ev.a["name"] == ".astype" else 1
                dt = args[pos] if len(args) > pos else None
            if dt is None or data is None:
                continue
            n_cast += 1
            from_state = [l for l in dep_locations(eng, dt.deps)
                          if (eng.heap.objs.get(l[0]) or eng.persistent.get(l[0])) is not None and
                          (eng.heap.objs.get(l[0]) or eng.persistent.get(l[0])).region == "bandit"]
            from_call = any(isinstance(d, tuple) and len(d) == 2 and d[0] == "param" and
                            d[1] in ("decisions", "rewards", "contexts") for d in data.deps)
            if from_state and from_call:
                ctx.violate("R18.6", "%s casts data of the call to a dtype read from stored state" % ev.fn.qualname,
                            ev.node, ev.fn, "the dtype operand depends on %s [%s %s]: the result of training then "
                            "depends on the element type of earlier batches / containers" %
                            (sorted({str(l[1]) for l in from_state}), c.name, label))
    ctx.ok("R18.6", "no cast of call data to a state-dependent dtype (%d casts with an explicit dtype examined)" %
           n_cast, construct="all entries", where="mabwiser/")
    # R18.4: a converter / validator branch taken for one container type must be able to run for every policy
    ctx.rule("R18.5", "the Series reshape of __convert_context counts features, not stored rows")
    ctx.rule("R18.4", "no container-specific branch of the facade's converters and validators reads an attribute the "
                      "implementor cannot have")
    n_conv = 0
    for c, label, root, w in traces:
        for ev, anc in walk(root):
            if ev.kind == "call" and ev.a["callee"].cls is not None and ev.a["callee"].cls.name == "MAB" and (
                    "convert" in ev.a["callee"].name or "validate" in ev.a["callee"].name):
                n_conv += 1
            if ev.kind != "missing-attr" or ev.fn is None or ev.fn.cls is None or ev.fn.cls.name != "MAB" or not (
                    "convert" in ev.fn.name or "validate" in ev.fn.name):
                continue
            branch = [" ".join(ast.unparse(g.node).split()) for g in ev.guards if g.fn is ev.fn and g.polarity and
                      "isinstance" in ast.unparse(g.node)]
            ctx.violate("R18.4", "%s reads .%s of an implementor that has no such attribute" %
                        (ev.fn.qualname, ev.a["name"]), ev.node, ev.fn,
                        "%s has no attribute `%s` (AttributeError) on the branch %s: the same data in another "
                        "container is accepted [%s %s]" % (ev.a["cls"], ev.a["name"], branch[-1:] or "?", c.name, label))
    ctx.floor("R18.4", "converter / validator calls on traces", n_conv, 500)
    # R18.5: a pandas Series of contexts is one row or one column depending on the number of features of the
    # training data; that number is the second dimension of the stored contexts (or the size of a coefficient
    # vector / the feature importances of a tree), never the number of stored rows
    cf = prog.method("MAB", "__convert_context") if "__convert_context" in prog.cls("MAB").methods else \
        prog.cls("MAB").methods.get("_MAB__convert_context")
    n_feat = 0
    if cf is not None:
        # what is compared with 1: a local of the converter, or the result of a helper method of the bandit
        defs = []           # (value expression, statement, function)
        for x in ast.walk(cf.node):
            if not (isinstance(x, ast.Compare) and len(x.ops) == 1 and isinstance(x.ops[0], (ast.Eq, ast.NotEq))):
                continue
            sides = [x.left, x.comparators[0]]
            if not any(isinstance(s_, ast.Constant) and s_.value == 1 and not isinstance(s_.value, bool)
                       for s_ in sides):
                continue
            other = sides[0] if not (isinstance(sides[0], ast.Constant)) else sides[1]
            if isinstance(other, ast.Name):
                for st in ast.walk(cf.node):
                    if isinstance(st, ast.Assign) and len(st.targets) == 1 and \
                            isinstance(st.targets[0], ast.Name) and st.targets[0].id == other.id:
                        defs.append((st.value, st, cf))
            elif isinstance(other, ast.Call) and isinstance(other.func, ast.Attribute) and \
                    ast.unparse(other.func.value) == "self":
                helper = prog.cls("MAB").resolve(other.func.attr)
                if helper is not None:
                    returned = set()
                    for st in ast.walk(helper.node):
                        if isinstance(st, ast.Return) and st.value is not None:
                            if isinstance(st.value, ast.Name):
                                returned.add(st.value.id)
                            else:
                                defs.append((st.value, st, helper))
                    for st in ast.walk(helper.node):
                        if isinstance(st, ast.Assign) and len(st.targets) == 1 and \
                                isinstance(st.targets[0], ast.Name) and st.targets[0].id in returned:
                            defs.append((st.value, st, helper))
        for v, st, f_ in defs:
            n_feat += 1
            if isinstance(v, ast.Subscript) and isinstance(v.value, ast.Attribute) and v.value.attr == "shape":
                ctx.check(ast.unparse(v.slice) == "1", "R18.5", "the number of features of a Series is taken "
                          "from the column dimension of the stored contexts", st, f_,
                          "`%s` counts the stored rows: a Series of several single-feature contexts is then "
                          "reshaped as one row (or the reverse), while the same data as list / ndarray / "
                          "DataFrame is accepted" % ast.unparse(v))
            else:
                ctx.ok("R18.5", "feature count `%s` is not a shape index" % ast.unparse(v)[:50], st, f_)
    ctx.floor("R18.5", "feature-count definitions in __convert_context", n_feat, 3)
    ctx.floor("R18.1", "store events examined", n_events, 3000)
    ctx.floor("R18.1", "bandit fields aliasing caller data", len(aliased_fields), 8)
    _type_tables(ctx)


# ------------------------------------------------------------------------------------------------ R18.3
def _isinstance_chain(fn, param, delegates=None):
    """Walks `if isinstance(param, T): ... elif ...: ... else: ...` chains; returns (types, returns, ends_in_raise).
    returns: list of (type name, return expr node, guard description)."""
    types, rets = [], []
    ends = [False]

    def typenames(node):
        if isinstance(node, ast.Tuple):
            out = []
            for e in node.elts:
                out.extend(typenames(e))
            return out
        return [ast.unparse(node)]

    def visit(stmts, cur_type, guards):
        for st in stmts:
            if isinstance(st, ast.If):
                t = st.test
                if isinstance(t, ast.Call) and isinstance(t.func, ast.Name) and t.func.id == "isinstance" and \
                        isinstance(t.args[0], ast.Name) and t.args[0].id == param:
                    names = typenames(t.args[1])
                    types.extend(names)
                    visit(st.body, "|".join(names), guards)
                    if st.orelse:
                        visit(st.orelse, cur_type, guards)
                    else:
                        ends[0] = False
                elif isinstance(t, ast.Compare) and isinstance(t.left, ast.Name) and t.left.id == param and \
                        isinstance(t.ops[0], ast.Is):
                    types.append("None")
                    visit(st.body, "None", guards)
                    visit(st.orelse, cur_type, guards)
                else:
                    visit(st.body, cur_type, guards + [(ast.unparse(t), True)])
                    visit(st.orelse, cur_type, guards + [(ast.unparse(t), False)])
            elif isinstance(st, ast.Return):
                v = st.value
                if delegates is not None and isinstance(v, ast.Call) and v.args and \
                        isinstance(v.args[0], ast.Name) and v.args[0].id == param and cur_type is None and \
                        ast.unparse(v.func) in delegates:
                    # everything not handled here is handed to another converter: its table applies
                    d_types, d_rets, d_ends = delegates[ast.unparse(v.func)]
                    types.extend(t_ for t_ in d_types if t_ not in types)
                    ends[0] = d_ends
                    continue
                rets.append((cur_type, st, list(guards)))
            elif isinstance(st, ast.Raise):
                if cur_type is None:
                    ends[0] = True
            elif isinstance(st, (ast.For, ast.While, ast.Try)):
                for blk in (getattr(st, "body", []), getattr(st, "orelse", []), getattr(st, "finalbody", [])):
                    visit(blk, cur_type, guards)
                for h in getattr(st, "handlers", []):
                    visit(h.body, cur_type, guards)

    visit(fn.node.body, None, [])
    return types, rets, ends[0]


def _validator_types(fn, param):
    """Type names accepted for `param` by check_true(isinstance(param, (...))) / isinstance chains."""
    out = set()
    for n in ast.walk(fn.node):
        if isinstance(n, ast.Call) and isinstance(n.func, ast.Name) and n.func.id == "isinstance" and \
                isinstance(n.args[0], ast.Name) and n.args[0].id == param:
            t = n.args[1]
            for e in (t.elts if isinstance(t, ast.Tuple) else [t]):
                out.add(ast.unparse(e))
    return out


def _return_ok(ret, guards, param, need_c_guard, typ=None):
    v = ret.value
    if v is None or (isinstance(v, ast.Constant) and v.value is None):
        return True, "None"
    s = ast.unparse(v)

    def is_asarray(x):
        while isinstance(x, ast.Call) and isinstance(x.func, ast.Attribute) and x.func.attr == "reshape":
            x = x.func.value
        if isinstance(x, ast.Call) and ast.unparse(x.func) in ("np.asarray", "np.ascontiguousarray", "np.array"):
            if ast.unparse(x.func) == "np.ascontiguousarray":
                return True
            kws = {k.arg: ast.unparse(k.value) for k in x.keywords}
            return (not need_c_guard) or kws.get("order") in ("'C'", '"C"')
        return False

    if is_asarray(v):
        return True, "asarray"
    if s in (param, param + ".values"):
        if s == param and typ is not None and "ndarray" not in typ:
            return False, "identity return for a non-ndarray input"
        if s.endswith(".values") and typ is not None and not ("Series" in typ or "DataFrame" in typ):
            return False, ".values on a non-pandas input"
        if not need_c_guard:
            return True, "identity"
        ok = any((("C_CONTIGUOUS" in g or "c_contiguous" in g) and pol) for g, pol in guards)
        return ok, "identity under C_CONTIGUOUS guard" if ok else "identity without contiguity guard"
    return False, "unrecognised return form " + s


def _type_tables(ctx):
    prog = ctx.prog
    conv_array = prog.method("MAB", "_convert_array")
    conv_matrix = prog.method("MAB", "_convert_matrix")
    conv_ctx = prog.method("MAB", "__convert_context")
    val_fit = prog.method("MAB", "_validate_fit_args")
    val_ctx = prog.method("MAB", "_validate_context_type")
    n = 0
    # 1-D arrays
    types, rets, ends = _isinstance_chain(conv_array, conv_array.params[0])
    for p in ("decisions", "rewards"):
        acc = _validator_types(val_fit, p)
        ctx.check(acc == set(types), "R18.3", "types accepted for %s == types converted by _convert_array" % p,
                  val_fit.node, val_fit, "validator accepts %s, converter handles %s" % (sorted(acc), sorted(types)),
                  construct="isinstance(%s, ...)" % p)
        n += 1
    ctx.check(ends, "R18.3", "_convert_array ends in raise for any other type", conv_array.node, conv_array,
              construct="def _convert_array")
    for t, r, g in rets:
        ok, why = _return_ok(r, g, conv_array.params[0], need_c_guard=False, typ=t)
        ctx.check(ok, "R18.3", "_convert_array[%s] returns an ndarray (%s)" % (t, why), r, conv_array)
        n += 1
    # 2-D contexts
    acc = _validator_types(val_ctx, "contexts")
    m_table = _isinstance_chain(conv_matrix, conv_matrix.params[0])
    for fn in (conv_ctx, conv_matrix):
        param = "contexts" if fn is conv_ctx else fn.params[0]
        types, rets, ends = _isinstance_chain(fn, param, {"MAB._convert_matrix": m_table,
                                                          "self._convert_matrix": m_table}
                                              if fn is conv_ctx else None)
        handled = set(types) - {"None"}
        ctx.check(acc == handled, "R18.3", "types accepted for contexts == types converted by %s" % fn.name,
                  fn.node, fn, "validator accepts %s, converter handles %s" % (sorted(acc), sorted(handled)),
                  construct="def " + fn.name)
        ctx.check(ends, "R18.3", "%s ends in raise for any other type" % fn.name, fn.node, fn,
                  construct="def %s (else: raise)" % fn.name)
        for t, r, g in rets:
            ok, why = _return_ok(r, g, param, need_c_guard=True, typ=t)
            ctx.check(ok, "R18.3", "%s[%s] returns a C-ordered ndarray (%s)" % (fn.name, t, why), r, fn)
            n += 1
    ctx.floor("R18.3", "converter branches checked", n, 12)
