# -*- coding: utf-8 -*-
"""C14 - a Thompson binarizer is applied to every reward exactly once (typestate over the call protocol)."""

import ast

from ..engine import BINARIZER_VAL, Config, SimWorld, World
from ..facts import walk
from ..model import AnalysisError, norm_stmt
from ..values import Val
from .common import facts

EXPLANATION = (
    "Typestate analysis by abstract interpretation with a persistent abstract heap. For ThompsonSampling alone and "
    "under Radius, KNearest, LSHNearest, Clusters, TreeBandit, and for the three simulator re-implementations, the "
    "protocol automaton over the public calls {fit, partial_fit, add_arm(no binarizer), add_arm(binarizer), predict, "
    "predict_expectations} is explored to a fixed point, starting with and without a binarizer. The abstract state "
    "is read off the sources: the binarizer field and the is_contextual_binarized flag of every Thompson object "
    "(constants stored by the code, copied by deepcopy, reset by constructors), and for every reward array the set "
    "of observation classes it carries with a conversion counter (E0: arrived while no binarizer was installed, "
    "expected 0 conversions; E1: arrived while one was installed, expected exactly 1). A call of the binarizer "
    "field increments the counters of its argument; branches on binarizer/flag are decided from the abstract "
    "state. At every sink (update of the Beta counters in _ThompsonSampling._fit_arm, on the bandit or on a "
    "worker-local copy) each class must carry its expected count. (R14.3) on the training traces the decisions and "
    "rewards handed to _get_binary_rewards stem from the same rows. (R14.2) no operation of the protocol reads an "
    "attribute that no method, class body or assignment gives the receiver's class (AttributeError). Decides 'each observation is converted exactly "
    "as often as specified' for every history over the protocol; what a user's binarizer returns is not decided.")
ASSUMPTIONS = [
    "loops over arms / cluster policies / rows execute at least once (empty collections are rejected earlier)",
    "the binarizer is only ever invoked through the `binarizer` field of a Thompson object",
    "externals table; CPython ast",
]

OPS = ["fit", "partial_fit", "add_arm", "add_arm+bin", "predict", "predict_expectations"]
MAX_STATES = 40


def _ts_objects(eng):
    return [o for o in eng.heap.objs.values() if o.cls == "_ThompsonSampling" and o.region == "bandit"]


def _bin_state(eng):
    """'None' / 'Some' / 'mixed' over the Thompson objects of the bandit."""
    vals = set()
    for o in _ts_objects(eng):
        v = o.fields.get("binarizer")
        if v is None:
            vals.add("?")
        elif v.has_const and v.const is None:
            vals.add("None")
        else:
            vals.add("Some" if "maybe-none" not in v.tags else "?")
    return vals


def _obs_tokens(v):
    return frozenset(d for d in v.deps if isinstance(d, tuple) and len(d) == 3 and d[0] == "obs")


def _state_key(eng, roots):
    items = []
    for o in sorted(_ts_objects(eng), key=lambda o: o.oid):
        b = o.fields.get("binarizer")
        f = o.fields.get("is_contextual_binarized")
        items.append((o.oid, "None" if (b is not None and b.has_const and b.const is None) else "Some",
                      repr(f.const) if (f is not None and f.has_const) else "?"))
    for o in sorted(eng.heap.objs.values(), key=lambda o: o.oid):
        if o.region != "bandit":
            continue
        for fld in ("rewards", "raw_rewards", "arm_to_leaf_to_rewards"):
            v = o.fields.get(fld)
            if v is not None:
                toks = set(_obs_tokens(v))
                for r in v.refs:
                    toks |= _deep_tokens(eng, r)
                items.append((o.oid, fld, tuple(sorted(toks))))
    return tuple(items)


def _deep_tokens(eng, oid, depth=0):
    o = eng.heap.objs.get(oid)
    out = set()
    if o is None or depth > 3:
        return out
    if o.elem is not None:
        out |= _obs_tokens(o.elem)
        for r in o.elem.refs:
            out |= _deep_tokens(eng, r, depth + 1)
    return out


def _entry_args(w, op, eng, sim):
    bs = _bin_state(eng)
    cls = "E1" if bs == {"Some"} else ("E0" if bs == {"None"} else "E?")
    if op in ("fit", "partial_fit"):
        a = w.data_args(True if sim else None)
        r = a["rewards"]
        a["rewards"] = r.with_(deps=r.deps | {("obs", cls, 0)})
        return a
    if op in ("predict", "predict_expectations"):
        return {"contexts": w.data_args(True if sim else None)["contexts"]}
    arm = Val(deps=[("param", "arm")], tags=["label", "param:arm"])
    if op == "add_arm":
        return {"arm": arm, "binarizer": Val(const=None)}
    return {"arm": arm, "binarizer": BINARIZER_VAL}


def _blame(ev_bin):
    """The call site outside _ThompsonSampling that led to this conversion."""
    stack = list(ev_bin.stack)
    for i in range(len(stack) - 1, -1, -1):
        f, node = stack[i]
        caller = stack[i - 1][0] if i > 0 else None
        if f.cls is not None and f.cls.name == "_ThompsonSampling" and (
                caller is None or caller.cls is None or caller.cls.name != "_ThompsonSampling"):
            return caller, node
    return ev_bin.fn, ev_bin.node


def explore(ctx, w, label, sim=False):
    eng = w.eng
    init_heap = w.skeleton.copy()
    eng.heap = init_heap.copy()
    ops = [o for o in OPS if not (sim and o.startswith("add_arm"))]
    seen = {}
    queue = [((), init_heap, False)]
    n_runs = n_sinks = 0
    while queue and len(seen) < MAX_STATES:
        hist, heap, fitted = queue.pop(0)
        for op in ops:
            if op in ("predict", "predict_expectations", "partial_fit") and not fitted:
                continue
            eng.heap = heap.copy()
            args = _entry_args(w, op, eng, sim)
            method = op.split("+")[0]
            try:
                root = w.run(method, args, keep_heap=True)
            except AnalysisError:
                raise
            n_runs += 1
            ctx.analysed["entries"] += 1
            for f in eng.functions_seen:
                ctx.saw_fn(f)
            # sinks
            conv_events = [ev for ev, anc in walk(root) if ev.kind == "ext" and ev.a["name"] == "<value>.binarizer"]
            for ev, anc in walk(root):
                if ev.kind != "store" or ev.a["skind"] != "aug":
                    continue
                if not any(t.field in ("arm_to_success_count", "arm_to_fail_count") for t in ev.a["targets"]):
                    continue
                rhs = ev.a.get("rhs")
                if rhs is None:
                    continue
                n_sinks += 1
                toks = _obs_tokens(rhs)
                bad = [t for t in toks if (t[1] == "E0" and t[2] != 0) or (t[1] == "E1" and t[2] != 1)
                       or t[1] == "E?"]
                path = " ; ".join(hist + (op,))
                if not bad:
                    ctx.ok("R14.1", "[%s] every observation reaching the Beta counters was converted as specified "
                           "on the path through %s" % (label, ev.stack[1][0].qualname if len(ev.stack) > 1 else "?"),
                           ev.node, ev.fn)
                    continue
                # blame the conversion that should not have happened (or the missing one)
                site_fn, site = ev.fn, ev.node
                over = [t for t in bad if t[2] > (0 if t[1] == "E0" else 1)]
                if over and conv_events:
                    cands = [ce for ce in conv_events if any(t in _obs_tokens(ce.a["result"]) for t in over)]
                    if cands:
                        site_fn, site = _blame(cands[-1])
                for t in bad:
                    want = 0 if t[1] == "E0" else 1
                    ctx.violate("R14.1", "[%s] rewards that arrived %s a binarizer reach the Beta counters after %d "
                                "conversion(s) instead of %d" % (label, "without" if t[1] == "E0" else "with", t[2],
                                                                want),
                                site, site_fn, "call history: %s ; sink %s" % (path, norm_stmt(ev.node)))
            newfit = fitted or op == "fit" or op == "partial_fit"
            if op in ("predict", "predict_expectations"):
                continue
            key = (_state_key(eng, None), newfit)
            if key not in seen:
                seen[key] = hist + (op,)
                if len(hist) < 5:
                    queue.append((hist + (op,), eng.heap.copy(), newfit))
    return n_runs, n_sinks, len(seen)


def check(ctx):
    F = facts(ctx)
    prog = ctx.prog
    ctx.rule("R14.1", "at every update of the Beta counters, observations that arrived without a binarizer carry 0 "
                      "conversions and observations that arrived with one carry exactly 1, over the whole call "
                      "protocol")
    total_runs = total_sinks = total_states = 0
    worlds = 0
    for np_ in (None, "Radius", "KNearest", "LSHNearest", "Clusters", "TreeBandit"):
        for binz in (False, True):
            c = Config("ThompsonSampling", np_, binz)
            w = World(prog, c, F.forget, typestate=True)
            ctx.analysed["configs"].add("typestate:" + c.name)
            r, s, st = explore(ctx, w, c.name)
            total_runs += r
            total_sinks += s
            total_states += st
            worlds += 1
    for np_ in ("Radius", "KNearest", "LSHNearest"):
        c = Config("ThompsonSampling", np_, True)
        w = SimWorld(prog, c, F.forget, typestate=True)
        ctx.analysed["configs"].add("typestate:sim:" + c.name)
        r, s, st = explore(ctx, w, "sim:" + c.name, sim=True)
        total_runs += r
        total_sinks += s
        total_states += st
        worlds += 1
    # R14.3: conversion pairs each reward with its own decision
    ctx.rule("R14.3", "the binarizer is applied to the decision and the reward of the same observation")
    from .c20 import check_binarizer_pairing
    check_binarizer_pairing(ctx, F, "R14.3")
    # R14.2: every operation of the protocol can run: no read of an attribute the receiver's class cannot have
    ctx.rule("R14.2", "no operation of a Thompson Sampling bandit reads an attribute that its implementor class never "
                      "gets (such a read raises AttributeError, so the bandit with a binarizer cannot follow the "
                      "history its pre-converted twin follows)")
    n_ops = 0
    for c in F.configs(lp=["ThompsonSampling"]):
        for lab in OPS:
            if lab not in F.entry_labels(c):
                continue
            root = F.trace(c, lab)
            n_ops += 1
            bad = [ev for ev, _ in walk(root) if ev.kind == "missing-attr"]
            if not bad:
                ctx.ok("R14.2", "%s runs without reading a missing attribute" % lab, construct="%s [%s]" % (lab, c.np),
                       where="MAB." + lab.split("+")[0])
            for ev in bad:
                ctx.violate("R14.2", "%s under %s reads %s.%s" % (lab, c.np or "no neighbourhood policy", ev.a["cls"],
                                                                  ev.a["name"]), ev.node, ev.fn,
                            "no method, class attribute or assignment gives a %s the attribute `%s`: AttributeError "
                            "[%s]" % (ev.a["cls"], ev.a["name"], c.name))
    ctx.floor("R14.2", "Thompson Sampling operations scanned", n_ops, 60)
    ctx.floor("R14.1", "protocol worlds explored", worlds, 15)
    ctx.floor("R14.1", "sink events checked", total_sinks, 100)
    ctx.note("protocol exploration: %d worlds, %d abstract states, %d runs, %d sink events" %
             (worlds, total_states, total_runs, total_sinks))
