# -*- coding: utf-8 -*-
"""C16 - Simulator bookkeeping is a faithful account of the data."""

import ast

from ..model import norm_stmt
from .common import parent

EXPLANATION = (
    "Structural rules on simulator.py (AST, path enumeration of the statement trees). (R16.1) every loop that walks "
    "the test rows in windows (offline chunks, online batches, online chunks within a batch) has a window start "
    "that is an affine function of the loop counter or is advanced by the window size in every iteration, a stop "
    "of start + size clamped by a bound that is not smaller than the sliced arrays, a window count of "
    "ceil(length / size), and slices all per-row arrays of a window with the same bounds - i.e. the windows form "
    "an ordered exact cover. (R16.2) in default_evaluator every path through the per-prediction loop body appends "
    "exactly once to arm_to_rewards[predicted_arm], and the observed reward is credited exactly under "
    "predicted_arm == decisions[index]. (R16.3) the ordered split uses one boundary in complementary slices and "
    "test_indices is the range from that boundary; the random split is one train_test_split call whose unpacking "
    "targets pair with its arguments in (train, test) order. (R16.4) total/train/test statistics are computed from "
    "(decisions, rewards) of the same origin, all statistics records share one key set, predictions are "
    "accumulated old + new in loop order. (R16.5) no truth test in the crediting loop is applied to a numeric "
    "statistic ([stat] / .get(stat)): presence is decided on containers. Decides the structure of the partition and of the crediting; every "
    "numerical clause (stats equal recomputation, min <= mean <= max) is not decided.")
ASSUMPTIONS = ["sklearn.train_test_split returns (train, test) pairs in argument order and partitions the rows",
               "python slices clamp at the end of the array", "CPython ast"]

WINDOW_LOOPS = [("Simulator", "_offline_test_bandits", 0), ("Simulator", "_online_test_bandits_chunks", 0),
                ("Simulator", "_online_test_bandits_chunks", 1)]


def _loops(fn_node):
    """top-level for loop and the first for loop nested directly in its body"""
    outer = [s for s in fn_node.body if isinstance(s, ast.For)]
    return outer


def _range_count(it, fn_node):
    """iter is range([0,] int(math.ceil(L / S))) (or a name bound to a list comprehension over it): (L, S)"""
    e = it
    if isinstance(e, ast.Name):
        name = e.id
        for n in ast.walk(fn_node):
            if isinstance(n, ast.Assign) and ast.unparse(n.targets[0]) == name:
                v = n.value
                if isinstance(v, ast.ListComp):
                    e = v.generators[0].iter
                else:
                    e = v
    if not (isinstance(e, ast.Call) and ast.unparse(e.func) == "range"):
        return None
    arg = e.args[-1] if len(e.args) in (1, 2) else None
    if len(e.args) == 2 and ast.unparse(e.args[0]) != "0":
        return None
    if isinstance(arg, ast.Name):
        # range(n) with n = int(math.ceil(L / S)) defined once
        defs = [n.value for n in ast.walk(fn_node) if isinstance(n, ast.Assign) and len(n.targets) == 1 and
                ast.unparse(n.targets[0]) == arg.id]
        if len(defs) == 1:
            arg = defs[0]
    while isinstance(arg, ast.Call) and ast.unparse(arg.func) in ("int", "math.ceil", "np.ceil"):
        arg = arg.args[0]
    if isinstance(arg, ast.BinOp) and isinstance(arg.op, ast.Div):
        return ast.unparse(arg.left), ast.unparse(arg.right)
    return None


def _aligned_params(prog, fn):
    """Names of fn's parameters that its call in Simulator.run fills with parts of one half (train or test) of the
    tuple `_run_train_test_split()` returns; empty when that cannot be read off."""
    run = prog.method("Simulator", "run")
    names = None
    for st in ast.walk(run.node):
        if isinstance(st, ast.Assign) and isinstance(st.targets[0], ast.Tuple) and len(st.targets[0].elts) == 6 and \
                ast.unparse(st.value) == "self._run_train_test_split()":
            names = [ast.unparse(e) for e in st.targets[0].elts]
    if names is None:
        return set()
    halves = (set(names[:3]), set(names[3:]))
    params = [a.arg for a in fn.node.args.args if a.arg != "self"]
    out = set()
    for c in ast.walk(run.node):
        if isinstance(c, ast.Call) and ast.unparse(c.func) == "self.%s" % fn.name and not c.keywords and \
                len(c.args) <= len(params):
            got = {}
            for prm, a in zip(params, c.args):
                if isinstance(a, ast.Name):
                    for h, half in enumerate(halves):
                        if a.id in half:
                            got[prm] = h
            for h in (0, 1):
                grp = {prm for prm, hh in got.items() if hh == h}
                if len(grp) > 1:
                    out |= grp if not out else set()
    return out


def check_window(ctx, fn, loop, label, pre_stmts):
    counter = ast.unparse(loop.target)
    cnt = _range_count(loop.iter, fn.node)
    body = loop.body
    slices = []
    for st in body:
        for n in ast.walk(st):
            if isinstance(n, ast.Subscript) and isinstance(n.slice, ast.Slice) and isinstance(n.ctx, ast.Load) and \
                    n.slice.lower is not None and n.slice.upper is not None and isinstance(n.value, ast.Name):
                # only direct statements of the body (not nested loops)
                p = n
                nested = False
                while p is not None and p is not loop:
                    if isinstance(p, ast.For) and p is not loop:
                        nested = True
                    p = parent(p)
                if not nested:
                    slices.append(n)
    if cnt is None or not slices:
        ctx.undecided("R16.1", "%s: window loop not recognised" % label, loop, fn,
                      "count %s, %d window slices" % (cnt, len(slices)), construct=label)
        return
    length, size = cnt
    bounds = {(ast.unparse(s.slice.lower), ast.unparse(s.slice.upper)) for s in slices}
    ctx.check(len(bounds) == 1, "R16.1", "%s: all per-row arrays of a window are sliced with the same bounds" % label,
              slices[0], fn, "bounds used: %s" % sorted(bounds))
    lo, hi = sorted(bounds)[0]
    arrays = sorted({s.value.id for s in slices})
    # window start
    start_defs = [s for s in body if isinstance(s, ast.Assign) and ast.unparse(s.targets[0]) == lo]
    adv = [s for s in body if isinstance(s, ast.AugAssign) and ast.unparse(s.target) == lo
           and isinstance(s.op, ast.Add)]
    ok_start = False
    why = ""
    lo_is_name = isinstance(slices[0].slice.lower, ast.Name)
    hi_is_name = isinstance(slices[0].slice.upper, ast.Name)
    if not lo_is_name:
        # the bound is written out where it is used
        ok_start = lo in ("%s * %s" % (counter, size), "%s * %s" % (size, counter))
        why = "start = %s" % lo
    elif start_defs:
        v = ast.unparse(start_defs[0].value)
        ok_start = v in ("%s * %s" % (counter, size), "%s * %s" % (size, counter))
        why = "start = %s" % v
    elif adv:
        init = [s for s in pre_stmts if isinstance(s, ast.Assign) and ast.unparse(s.targets[0]) == lo]
        ok_start = bool(init) and ast.unparse(init[-1].value) == "0" and ast.unparse(adv[0].value) == size and \
            body.index(adv[0]) > max(body.index(s) for s in body if any(x in slices for x in ast.walk(s)))
        why = "start initialised to %s and advanced by %s" % (ast.unparse(init[-1].value) if init else "?",
                                                             ast.unparse(adv[0].value))
    else:
        why = "window start `%s` is never advanced inside the loop" % lo
    ctx.check(ok_start, "R16.1", "%s: the window start advances by the window size" % label,
              start_defs[0] if start_defs else (adv[0] if adv else loop), fn, why, construct=label + " start")
    # window stop
    stop_defs = [s for s in body if isinstance(s, ast.Assign) and ast.unparse(s.targets[0]) == hi]
    ok_stop = False
    swhy = "no definition of %s" % hi
    if stop_defs or not hi_is_name:
        v = stop_defs[0].value if (stop_defs and hi_is_name) else slices[0].slice.upper
        sv = ast.unparse(v)
        swhy = "stop = %s" % sv
        if isinstance(v, ast.Call) and ast.unparse(v.func) == "min" and len(v.args) == 2:
            a0, a1 = ast.unparse(v.args[0]), ast.unparse(v.args[1])
            ok_next = a0 in ("%s + %s" % (lo, size), "(%s + 1) * %s" % (counter, size))
            ok_bound = a1 in (length, "%s + 1" % length) or (a1 == size and False)
            # a bound that is not smaller than the sliced arrays
            if not ok_bound:
                ok_bound = a1 in ["len(%s)" % a for a in arrays] + ["len(%s) + 1" % a for a in arrays]
            ok_stop = ok_next and ok_bound
            swhy += " (next window start: %s, bound covers the rows: %s)" % (ok_next, ok_bound)
        elif sv == "%s + %s" % (lo, size):
            ok_stop = True
    ctx.check(ok_stop, "R16.1", "%s: the window stop is start + size clamped by the number of rows" % label,
              stop_defs[0] if stop_defs else loop, fn, swhy, construct=label + " stop")
    # count
    ok_cnt = length in ["len(%s)" % a for a in arrays] or length in ("self.batch_size",) and False
    if not ok_cnt:
        # a variable holding the length of the rows
        ok_cnt = any(length == "len(%s)" % a for a in arrays)
    # the arrays sliced in this window may be derived names: accept the length expression of the loop's source rows
    if not ok_cnt:
        srcs = set()
        for a in arrays:
            for s in ast.walk(fn.node):
                if isinstance(s, ast.Assign) and ast.unparse(s.targets[0]) == a and isinstance(s.value, (
                        ast.Subscript, ast.IfExp)):
                    srcs.add(a)
        ok_cnt = length in ["len(%s)" % a for a in arrays]
    if not ok_cnt:
        # parameters that Simulator.run fills from the same half of the split have one length (R16.3): the count may
        # be taken from any of them when one of them is sliced
        group = _aligned_params(ctx.prog, fn)
        if group and set(arrays) & group:
            ok_cnt = length in ["len(%s)" % a for a in sorted(group)]
    ctx.check(ok_cnt, "R16.1", "%s: the number of windows is ceil(number of rows / window size)" % label, loop, fn,
              "count is ceil(%s / %s), rows sliced: %s" % (length, size, arrays), construct=label + " count")
    return lo, hi


def check_windows(ctx):
    prog = ctx.prog
    n = 0
    off = prog.method("Simulator", "_offline_test_bandits")
    ctx.saw_fn(off)
    lo = _loops(off.node)
    if lo:
        check_window(ctx, off, lo[0], "offline chunks", off.node.body[:off.node.body.index(lo[0])])
        n += 1
    on = prog.method("Simulator", "_online_test_bandits_chunks")
    ctx.saw_fn(on)
    ob = None
    lo = _loops(on.node)
    if lo:
        ob = check_window(ctx, on, lo[0], "online batches", on.node.body[:on.node.body.index(lo[0])])
        n += 1
        inner = [s for s in lo[0].body if isinstance(s, ast.For) and "chunk" in ast.unparse(s)[:400]]
        inner = [s for s in lo[0].body if isinstance(s, ast.For)]
        if inner:
            ib = check_window(ctx, on, inner[0], "online chunks of a batch", lo[0].body[:lo[0].body.index(inner[0])])
            n += 1
            # every slice of a per-test-row list inside the chunk loop uses the chunk's global window
            from .c15 import _bandit_var
            for node in ast.walk(inner[0]):
                if isinstance(node, ast.Subscript) and isinstance(node.slice, ast.Slice) and \
                        isinstance(node.value, ast.Attribute) and node.value.attr == "row_arm_to_expectation" and \
                        isinstance(node.value.value, ast.Name) and node.value.value.id == _bandit_var(node) and \
                        ob is not None and ib is not None and node.slice.lower is not None and \
                        node.slice.upper is not None:
                    # the bounds as expressions over the batch / chunk bounds (locals replaced by what reaches them)
                    from .semantic import Env
                    from .common import parent as _parent
                    env = Env(on.node.body, stop={x for x in (ob + ib) if x.isidentifier()})
                    st = node
                    while st is not None and id(st) not in env.env_at:
                        st = _parent(st)
                    b = tuple(" ".join(ast.unparse(env.at(st, x) if st is not None else x).split())
                              for x in (node.slice.lower, node.slice.upper))

                    def X(text):
                        e_ = ast.parse(text, mode="eval").body
                        return " ".join(ast.unparse(env.at(st, e_) if st is not None else e_).split())
                    ob, ib = tuple(X(t) for t in ob), tuple(X(t) for t in ib)
                    ctx.check(b in (("%s + %s" % (ob[0], ib[0]), "%s + %s" % (ob[0], ib[1])),
                                    ("%s + %s" % (ib[0], ob[0]), "%s + %s" % (ib[1], ob[0]))), "R16.1",
                              "online chunks: reported expectations are taken for the rows of the chunk", node, on,
                              "slice [%s:%s] is not the chunk's global window" % b)
    # R16.7: the evaluation of a batch is told where the batch starts in the test set (the per-row neighbourhood
    # statistics are looked up at start_index + row), and passes that offset on unchanged
    pe = prog.method("Simulator", "_get_partial_evaluation")
    ctx.saw_fn(pe)
    n7 = 0
    if "start_index" in pe.params and lo and ob is not None:
        pos = pe.params.index("start_index") - 1
        for c in ast.walk(lo[0]):
            if isinstance(c, ast.Call) and ast.unparse(c.func) == "self._get_partial_evaluation":
                arg = None
                for k in c.keywords:
                    if k.arg == "start_index":
                        arg = k.value
                if arg is None and pos < len(c.args):
                    arg = c.args[pos]
                n7 += 1
                ctx.check(arg is not None and ast.unparse(arg) == ob[0], "R16.7",
                          "online batches are evaluated with the batch window's own start as row offset", c, on,
                          "start_index argument is `%s`, the batch rows are sliced from `%s`" %
                          (ast.unparse(arg) if arg is not None else "?", ob[0]))
        ev_fn = prog.function("simulator", "default_evaluator")
        epos = ev_fn.params.index("start_index") if "start_index" in ev_fn.params else None
        for c in ast.walk(pe.node):
            if isinstance(c, ast.Call) and ast.unparse(c.func) == "self.evaluator" and epos is not None:
                arg = None
                for k in c.keywords:
                    if k.arg == "start_index":
                        arg = k.value
                if arg is None and epos < len(c.args):
                    arg = c.args[epos]
                n7 += 1
                ctx.check(arg is not None and ast.unparse(arg) == "start_index", "R16.7",
                          "_get_partial_evaluation passes its row offset on to the evaluator unchanged", c, pe,
                          "start_index argument is `%s`" % (ast.unparse(arg) if arg is not None else "?"))
    ctx.floor("R16.7", "row-offset arguments of batch evaluations", n7, 2)
    ctx.floor("R16.1", "window loops", n, 3)


def _paths(stmts):
    """Enumerate paths through a statement list; each path = list of leaf statements with the guards taken."""
    paths = [([], [])]
    for st in stmts:
        if isinstance(st, ast.If):
            new = []
            for stm, gs in paths:
                for sub_stm, sub_g in _paths(st.body):
                    new.append((stm + sub_stm, gs + [(ast.unparse(st.test), True)] + sub_g))
                for sub_stm, sub_g in _paths(st.orelse):
                    new.append((stm + sub_stm, gs + [(ast.unparse(st.test), False)] + sub_g))
            paths = new
        else:
            paths = [(stm + [st], gs) for stm, gs in paths]
    return paths


def check_evaluator(ctx):
    prog = ctx.prog
    fn = prog.function("simulator", "default_evaluator")
    ctx.saw_fn(fn)
    from .pattern import match
    p_dec, p_rew, p_pred = fn.params[1], fn.params[2], fn.params[3]
    loops = [s for s in fn.node.body if isinstance(s, ast.For) and
             match("enumerate(%s)" % p_pred, s.iter) is not None and isinstance(s.target, ast.Tuple) and
             len(s.target.elts) == 2 and all(isinstance(e, ast.Name) for e in s.target.elts)]
    if not loops:
        ctx.undecided("R16.2", "default_evaluator: per-prediction loop not found", fn.node, fn,
                      construct="def default_evaluator")
        return
    loop = loops[0]
    idx, pred = loop.target.elts[0].id, loop.target.elts[1].id
    # the per-arm accumulator: the one dictionary appended to under [prediction]
    accs = {b["_ACC_"] for x in ast.walk(loop) if isinstance(x, ast.Call)
            for b in [match("_ACC_[%s].append(_EV_)" % pred, x)] if b is not None}
    acc = sorted(accs)[0] if len(accs) == 1 else None
    ctx.check(acc is not None, "R16.2", "default_evaluator credits rewards to one per-arm accumulator under the "
              "predicted arm", loop, fn, "accumulators appended to under [%s]: %s" % (pred, sorted(accs)),
              construct="accumulator of default_evaluator")
    n = 0
    for stm, gs in _paths(loop.body):
        apps = [s for s in stm if isinstance(s, ast.Expr) and isinstance(s.value, ast.Call) and
                ast.unparse(s.value.func) == "%s[%s].append" % (acc, pred)]
        n += 1
        gtxt = " and ".join(("" if pol else "not ") + "(" + g + ")" for g, pol in gs) or "always"
        gkey = gtxt.replace(pred, "PRED").replace(idx, "IDX")
        ctx.check(len(apps) == 1, "R16.2", "default_evaluator credits exactly one reward per prediction on the path "
                  "[%s]" % gkey, loop, fn, "%d appends on this path" % len(apps),
                  construct="path: %s" % gkey)
        if len(apps) == 1:
            observed = ast.unparse(apps[0].value.args[0]) == "%s[%s]" % (p_rew, idx)
            matched = ("%s == %s[%s]" % (pred, p_dec, idx), True) in gs or \
                ("%s[%s] == %s" % (p_dec, idx, pred), True) in gs
            ctx.check(observed == matched, "R16.2", "the observed reward is credited iff prediction == logged "
                      "decision [%s]" % gkey, apps[0], fn,
                      "observed reward used: %s, prediction matches decision on this path: %s" % (observed, matched),
                      construct="credit on path: %s" % gkey)
    ctx.floor("R16.2", "paths through the crediting loop", n, 3)
    # R16.5: whether a neighbourhood statistic exists is decided on containers, never on the number itself
    from .c15 import _inline
    stat_p = fn.params[5] if len(fn.params) > 5 else "stat"

    def is_stat_value(e):
        e = _inline(loop, e)
        if isinstance(e, ast.Subscript) and ast.unparse(e.slice) == stat_p:
            return True
        if isinstance(e, ast.Call) and isinstance(e.func, ast.Attribute) and e.func.attr == "get" and e.args and \
                ast.unparse(e.args[0]) == stat_p:
            return True
        if isinstance(e, ast.IfExp):
            return is_stat_value(e.body) or is_stat_value(e.orelse)
        return False
    tests = []
    for x in ast.walk(loop):
        if isinstance(x, (ast.If, ast.IfExp, ast.While)):
            tests.append(x.test)
        elif isinstance(x, ast.BoolOp):
            tests.extend(x.values[:-1] if isinstance(x.op, ast.Or) else x.values)
    flat = []
    for t in tests:
        flat.extend(t.values if isinstance(t, ast.BoolOp) else [t])
    n5 = 0
    for t in flat:
        if isinstance(t, ast.UnaryOp) and isinstance(t.op, ast.Not):
            t = t.operand
        if isinstance(t, ast.Compare):
            continue
        n5 += 1
        ctx.check(not is_stat_value(t), "R16.5", "default_evaluator never tests a numeric statistic for truth", t, fn,
                  "`%s` is a reward statistic: a neighbourhood statistic of exactly 0 would be treated as missing and "
                  "the training statistic credited instead" % ast.unparse(t))
    ctx.floor("R16.5", "truth tests in the crediting loop", n5, 2)


def check_no_data_record(ctx):
    """R16.6: writer/reader agreement on 'this arm has no observation in the neighbourhood'. default_evaluator
    decides it by the truth value of the arm's record, so every producer of neighbourhood records must emit a falsy
    value (the empty dict) for such an arm; a record like {'count': 0, ...} is truthy and would be credited as 0."""
    prog = ctx.prog
    ev_fn = prog.function("simulator", "default_evaluator")
    loops = [s for s in ev_fn.node.body if isinstance(s, ast.For)]
    truth_tested = False
    for x in ast.walk(ev_fn.node):
        if isinstance(x, (ast.If, ast.IfExp)):
            parts = x.test.values if isinstance(x.test, ast.BoolOp) else [x.test]
            for t in parts:
                if isinstance(t, ast.Subscript) and not isinstance(t.slice, ast.Constant) and \
                        not isinstance(parent(t), ast.Compare):
                    truth_tested = True
    if not truth_tested:
        ctx.ok("R16.6", "default_evaluator does not decide 'no observation' by the truth value of a record",
               ev_fn.node, ev_fn, construct="def default_evaluator (no-data test)")
        return
    writer = prog.method("_NeighborsSimulator", "_get_nhood_predictions")
    ctx.saw_fn(writer)
    seen, todo = set(), [writer]
    mod = prog.modules["simulator"]
    zero_records = []
    while todo:
        f = todo.pop()
        if f.qualname in seen:
            continue
        seen.add(f.qualname)
        for n in ast.walk(f.node):
            if isinstance(n, ast.Dict) and n.keys and all(isinstance(k, ast.Constant) for k in n.keys):
                kv = {k.value: v for k, v in zip(n.keys, n.values)}
                if "count" in kv and isinstance(kv["count"], ast.Constant) and kv["count"].value == 0:
                    zero_records.append((n, f))
            if isinstance(n, ast.Call):
                name = None
                if isinstance(n.func, ast.Name):
                    name = n.func.id
                    g = mod.functions.get(name)
                    if g is not None:
                        todo.append(g)
                elif isinstance(n.func, ast.Attribute) and isinstance(n.func.value, ast.Name):
                    if n.func.value.id == "self" and f.cls is not None:
                        g = f.cls.resolve(n.func.attr)
                        if g is not None and g.module is mod:
                            todo.append(g)
                    elif n.func.value.id in mod.classes:
                        g = mod.classes[n.func.value.id].resolve(n.func.attr)
                        if g is not None:
                            todo.append(g)
    if not zero_records:
        ctx.ok("R16.6", "producers of neighbourhood records emit no non-empty record for an arm without observation",
               writer.node, writer, "functions searched: %s" % sorted(seen),
               construct="def _NeighborsSimulator._get_nhood_predictions (no-data record)")
    for n, f in zero_records:
        ctx.violate("R16.6", "producers of neighbourhood records emit no non-empty record for an arm without "
                    "observation", n, f, "`%s` is reachable from _NeighborsSimulator._get_nhood_predictions: it is "
                    "truthy, so default_evaluator takes it for neighbourhood data and credits its statistic "
                    "(0) instead of falling back to the training statistic" % ast.unparse(n)[:70])


def check_split(ctx):
    """R16.3 on the four scenarios (ordered / random) x (with / without contexts) of rules/splitform.py."""
    from . import splitform as SF
    prog = ctx.prog
    fn = prog.method("Simulator", "_run_train_test_split")
    ctx.saw_fn(fn)
    scen = SF.scenarios(fn.node)
    srcs = ("self.decisions", "self.rewards", "self.contexts")
    n_split_scen = 0
    for (ordered, has_ctx), s in sorted(scen.items(), key=lambda kv: (not kv[0][0], not kv[0][1])):
        tag = "%s split, %s contexts" % ("ordered" if ordered else "random", "with" if has_ctx else "without")
        ret = s.returned
        if ret is None or ret[0] != "list" or len(ret[1]) != 6:
            ctx.undecided("R16.3", "%s: return (train d, r, c, test d, r, c) not found" % tag, fn.node, fn,
                          construct="def _run_train_test_split [%s]" % tag)
            continue
        pairs = {src: (ret[1][k], ret[1][k + 3]) for k, src in enumerate(srcs)}
        ti = s.env.get("self.test_indices")
        unknown = [SF.show(v) for pr in pairs.values() for v in pr if v[0] == "unknown"]
        if ti is not None and ti[0] == "unknown":
            unknown.append(SF.show(ti))
        if unknown:
            ctx.undecided("R16.3", "%s: a returned part is not determined: %s" % (tag, unknown[0]), fn.node, fn,
                          construct="def _run_train_test_split [%s]" % tag)
            continue
        live = [x for x in srcs if has_ctx or x != "self.contexts"]
        none_ok = has_ctx or (pairs["self.contexts"][0][0] == "none" and pairs["self.contexts"][1][0] == "none")
        detail = "; ".join("%s -> train %s, test %s" % (x, SF.show(pairs[x][0]), SF.show(pairs[x][1])) for x in srcs)
        if ordered:
            bset = set()
            ok = none_ok
            for x in live:
                tr, te = pairs[x]
                ok = ok and tr[0] == "slice" and te[0] == "slice" and tr[1] == x and te[1] == x and \
                    tr[2] in (None, "0") and te[3] in (None, "len(self.decisions)", "len(%s)" % x) and \
                    tr[3] is not None and tr[3] == te[2]
                if tr[0] == "slice":
                    bset.add(tr[3])
            ok = ok and len(bset) == 1
            b = next(iter(bset)) if len(bset) == 1 else "?"
            ctx.check(ok, "R16.3", "%s: train = rows before one boundary, test = rows from it, for all arrays" % tag,
                      fn.node, fn, detail, construct="ordered split slices [%s]" % tag)
            okti = ti is not None and ti[0] == "expr" and _is_range_from(ti[1], b)
            ctx.check(okti, "R16.3", "%s: test_indices is the range from the boundary" % tag, fn.node, fn,
                      "test_indices = %s, boundary %s" % (SF.show(ti), b), construct="ordered test_indices [%s]" % tag)
        else:
            if s.calls:
                n_split_scen += 1
            ok = none_ok and len(s.calls) == 1
            ks = set()
            for x in live:
                tr, te = pairs[x]
                ok = ok and tr[0] == "split" and te[0] == "split" and tr[1] == "train" and te[1] == "test" and \
                    tr[2] == te[2] and tr[3] == ("expr", x) and te[3] == ("expr", x) and tr[4] is te[4]
                if tr[0] == "split":
                    ks.add(tr[2])
            ok = ok and len(ks) == len(live)
            site = s.calls[0][0] if s.calls else fn.node
            ctx.check(ok, "R16.3", "%s: every returned part is the (train, test) half train_test_split returns for "
                      "its own array" % tag, site, fn, detail, construct="train_test_split unpacking [%s]" % tag)
            okti = ti is not None and ti[0] == "split" and ti[1] == "test" and SF.is_identity_index(ti[3]) and \
                len(s.calls) == 1 and ti[4] is s.calls[0][0] and all(
                    pairs[x][0][0] == "split" and pairs[x][0][4] is ti[4] for x in live)
            ctx.check(okti, "R16.3", "%s: test_indices is the test half of the identity index list, split by the "
                      "same call as the data" % tag, site, fn, "test_indices = %s" % SF.show(ti),
                      construct="random test_indices [%s]" % tag)
    ctx.floor("R16.3", "scenarios in which the random split reaches train_test_split", n_split_scen, 2)


def _is_range_from(text, b):
    try:
        n = ast.parse(text, mode="eval").body
    except SyntaxError:
        return False
    ends = ("len(self.decisions)",)

    def rng(c):
        return isinstance(c, ast.Call) and ast.unparse(c.func) == "range" and len(c.args) == 2 and \
            " ".join(ast.unparse(c.args[0]).split()) == b and ast.unparse(c.args[1]) in ends
    if isinstance(n, ast.Call) and ast.unparse(n.func) == "list" and len(n.args) == 1 and rng(n.args[0]):
        return True
    if isinstance(n, ast.Call) and ast.unparse(n.func) == "np.arange" and len(n.args) == 2 and \
            " ".join(ast.unparse(n.args[0]).split()) == b and ast.unparse(n.args[1]) in ends:
        return True
    if isinstance(n, ast.ListComp) and len(n.generators) == 1 and not n.generators[0].ifs and \
            isinstance(n.elt, ast.Name) and isinstance(n.generators[0].target, ast.Name) and \
            n.elt.id == n.generators[0].target.id and rng(n.generators[0].iter):
        return True
    return False


def check_stats(ctx):
    prog = ctx.prog
    run = prog.method("Simulator", "run")
    ctx.saw_fn(run)
    calls = [c for c in ast.walk(run.node) if isinstance(c, ast.Call) and ast.unparse(c.func) == "self._set_stats"]
    names = None
    for st in ast.walk(run.node):
        if isinstance(st, ast.Assign) and isinstance(st.targets[0], ast.Tuple) and len(st.targets[0].elts) == 6 and \
                ast.unparse(st.value) == "self._run_train_test_split()":
            names = [ast.unparse(e) for e in st.targets[0].elts]
    if names is None:
        ctx.undecided("R16.4", "Simulator.run: unpacking of _run_train_test_split() not found", run.node, run,
                      construct="_set_stats calls in run")
        return
    # _run_train_test_split returns (train d, r, c, test d, r, c)
    want = {"'total'": ("self.decisions", "self.rewards"), "'train'": (names[0], names[1]),
            "'test'": (names[3], names[4])}
    seen = {}
    for c in calls:
        a = [ast.unparse(x) for x in c.args]
        seen[a[0].replace('"', "'")] = tuple(a[1:3])
    ctx.check(seen == want, "R16.4", "total/train/test statistics are computed from decisions and rewards of the same "
              "origin", run.node, run, "calls %s" % seen, construct="_set_stats calls in run")
    # one schema for all statistics records
    keysets = []
    # every statistics record literal of the simulator module, wherever it is written (the three producers today;
    # a helper that builds the empty or the computed record counts as well)
    sim_mod = prog.modules["simulator"]
    producers = list(sim_mod.functions.values()) + [m for c in sim_mod.classes.values() for m in c.methods.values()]
    for fn in producers:
        for d in ast.walk(fn.node):
            if isinstance(d, ast.Dict) and d.keys and all(isinstance(k, ast.Constant) for k in d.keys) and \
                    "count" in [k.value for k in d.keys]:
                keysets.append((fn, d, tuple(k.value for k in d.keys)))
    base = keysets[0][2] if keysets else ()
    for fn, d, ks in keysets:
        ctx.saw_fn(fn)
        ctx.check(set(ks) == set(base), "R16.4", "statistics record of %s has the common key set" % fn.qualname, d, fn,
                  "keys %s vs %s" % (ks, base))
    ctx.floor("R16.4", "statistics record literals", len(keysets), 2)
    # per-bandit result lists are accumulated in order: X[name] = X[name] + new
    n = 0
    for meth in ("_offline_test_bandits", "_online_test_bandits_chunks"):
        fn = prog.method("Simulator", meth)
        for st in ast.walk(fn.node):
            # canonical form (model.canonicalise): X[name] += new ; a prepend stays `X[name] = new + X[name]`
            if isinstance(st, ast.AugAssign) and isinstance(st.target, ast.Subscript) and \
                    isinstance(st.target.slice, ast.Name) and st.target.slice.id == _bandit_name_var(st):
                n += 1
                ctx.check(isinstance(st.op, ast.Add), "R16.4", "%s appends new results after the old ones" % meth,
                          st, fn, "expected `X = X + new`")
                continue
            if not (isinstance(st, ast.Assign) and len(st.targets) == 1 and isinstance(st.targets[0], ast.Subscript)
                    and isinstance(st.targets[0].slice, ast.Name) and isinstance(st.value, ast.BinOp)):
                continue
            if st.targets[0].slice.id != _bandit_name_var(st):
                continue
            tgt = ast.unparse(st.targets[0])
            if tgt not in (ast.unparse(st.value.left), ast.unparse(st.value.right)):
                continue
            n += 1
            ctx.check(isinstance(st.value.op, ast.Add) and ast.unparse(st.value.left) == tgt, "R16.4",
                      "%s appends new results after the old ones" % meth, st, fn, "expected `X = X + new`")
    ctx.floor("R16.4", "result accumulation sites", n, 5)


def _bandit_name_var(node):
    g = parent(node)
    while g is not None:
        if isinstance(g, ast.For) and ast.unparse(g.iter) == "self.bandits" and isinstance(g.target, ast.Tuple) \
                and len(g.target.elts) == 2 and isinstance(g.target.elts[0], ast.Name):
            return g.target.elts[0].id
        g = parent(g)
    return None


def check(ctx):
    ctx.rule("R16.1", "windows form an ordered exact cover")
    ctx.rule("R16.2", "one credit per prediction; observed reward iff prediction == decision")
    ctx.rule("R16.3", "split operands/targets paired")
    ctx.rule("R16.4", "statistics origins, record schema, ordered accumulation")
    ctx.rule("R16.7", "batch evaluations receive and forward the batch's own row offset")
    ctx.rule("R16.6", "producers and consumer of neighbourhood records agree on the 'no observation' value")
    ctx.rule("R16.5", "presence of a neighbourhood statistic is decided on containers, not on the number")
    check_windows(ctx)
    check_evaluator(ctx)
    check_no_data_record(ctx)
    check_split(ctx)
    check_stats(ctx)
