# -*- coding: utf-8 -*-
"""C01 - context-free policies compute the documented statistic of each arm's history."""

import ast

from ..facts import CONTEXT_FREE, LP_CLASS, fmt_target, walk
from ..model import canon_eq, norm_stmt
from .common import facts, parent
from . import derive
from .kill import dep_locations, loc_of_target

EXPLANATION = (
    "Dependence / def-use analysis over the abstract traces of fit, partial_fit, add_arm, remove_arm and warm_start "
    "of the six context-free policies. Fields are classified (computed) as accumulators (every partial_fit write "
    "is in accumulate form) or derived. (R1.1a) a derived value never feeds on its own previous value unless it "
    "was rebuilt from other state earlier in the same function on every path; (R1.1b) every write to an input of "
    "a derived value is followed, in the same top-level call, by a re-derivation that is not conditional on the "
    "batch; (R1.2) the transitive input set of each arm's expectation equals the documented one and task "
    "functions index per-arm state with their own arm only; (R1.3) reward rows are selected with one selector "
    "built from decisions == arm; (R1.4) the neutral constant installed by __init__, by fit and by add_arm agree "
    "(or fit and add_arm end in the same derivation); (R1.6) accumulator updates are guarded only by the size of "
    "the arm's selection. Decides that each arm's statistic is a function of exactly that arm's observations "
    "since the last fit; the formulas as numbers and sampling distributions are not decided.")
ASSUMPTIONS = ["reset completeness is C07's obligation set (shared, not duplicated)",
               "arithmetic of the documented formulas is not checked", "externals table; CPython ast"]

DOCUMENTED_INPUTS = {
    "_EpsilonGreedy": {"arm_to_sum", "arm_to_count"},
    "_UCB1": {"arm_to_sum", "arm_to_count", "alpha", "total_count"},
    "_Softmax": {"arm_to_sum", "arm_to_count", "tau"},
    "_Popularity": {"arm_to_sum", "arm_to_count"},
}


def transitive_inputs(fm, loc, eng):
    """Field names (of the policy object) the derived location depends on, through other derived fields."""
    seen, todo, leaves = set(), [loc], set()
    while todo:
        l = todo.pop()
        if l in seen:
            continue
        seen.add(l)
        for lab, ev, anc in fm.writers.get(l, []):
            v = ev.a["value"]
            if v is None or (ev.fn is not None and ev.fn.name in derive.COPY_FUNCTIONS):
                continue
            fm.eng.heap = fm.traces[lab].a["heap"]
            for l2 in dep_locations(eng, v.deps):
                if l2[0] != loc[0] or l2[1] is None:
                    continue
                if l2[1] in derive.IGNORED_INPUTS:
                    continue
                if l2 in fm.derived:
                    if l2 != l:
                        todo.append(l2)     # (a dependence on itself is R1.1a's obligation)
                else:
                    leaves.add(l2[1])
    return leaves


def check_selectors(ctx, rule):
    """R1.3 / R2.4 / R20.2: one selector built from decisions == arm for every data array in each _fit_arm."""
    prog = ctx.prog
    n = 0
    for cname in ("_EpsilonGreedy", "_UCB1", "_Softmax", "_ThompsonSampling", "_Linear", "_TreeBandit"):
        fn = prog.method(cname, "_fit_arm")
        ctx.saw_fn(fn)
        arm = fn.params[1]
        defs = {}
        for node in ast.walk(fn.node):
            if isinstance(node, ast.Assign) and len(node.targets) == 1 and isinstance(node.targets[0], ast.Name):
                defs.setdefault(node.targets[0].id, []).append(node.value)

        def expand(e):
            if isinstance(e, ast.Name) and len(defs.get(e.id, [])) == 1:
                return expand(defs[e.id][0])
            return e
        sels = []
        for node in ast.walk(fn.node):
            if isinstance(node, ast.Subscript) and isinstance(node.value, ast.Name) and \
                    node.value.id in ("rewards", "contexts", "decisions") and isinstance(node.ctx, ast.Load):
                sels.append((node, " ".join(ast.unparse(expand(node.slice)).split())))
        n += len(sels)
        m = canon_eq("decisions", arm)
        # equivalent spellings of "the rows whose decision is this arm": the mask itself or its positions
        want = {m, "np.where(%s)" % m, "np.where(%s)[0]" % m, "np.flatnonzero(%s)" % m, "np.nonzero(%s)" % m,
                "np.nonzero(%s)[0]" % m, "(%s).nonzero()" % m, "(%s).nonzero()[0]" % m}
        for node, s in sels:
            ctx.check(s in want, rule, "%s selects %s rows with the arm's own mask" % (fn.qualname, node.value.id),
                      node, fn, "selector `%s` is not built from decisions == %s" % (s, arm))
        ctx.check(len({s for _, s in sels}) <= 1 and bool(sels), rule,
                  "%s uses one selector for all data arrays" % fn.qualname, fn.node, fn,
                  "selectors: %s" % sorted({s for _, s in sels}), construct="def %s" % fn.qualname)
    ctx.floor(rule, "row selections in _fit_arm bodies", n, 7)


def check_cardinality_order(ctx, F, c):
    """R1.7: the facade and the policies share one arm list. A statistic that uses len(self.arms) (Popularity's
    uniform share) must be derived after add_arm / remove_arm have changed that list, never before."""
    n = 0
    for lab in ("add_arm", "remove_arm"):
        root = F.trace(c, lab)
        w = F.focus(c, root)
        eng = w.eng
        mab = eng.obj(w.mab_oid)
        arms_oids = set(mab.fields["arms"].refs)
        # (object, '.arms') locations that denote the shared list
        holders = {(o.oid, (".arms",)) for o in eng.heap.objs.values()
                   if "arms" in o.fields and (o.fields["arms"].refs & arms_oids)}
        cards = {("card", r) for r in arms_oids}
        dependents = []
        for ev, anc in walk(root):
            if ev.kind != "store":
                continue
            n += 1
            tg = ev.a["targets"]
            if any(t.oid in arms_oids or (t.field == "arms" and t.sub) for t in tg):
                for dev in dependents:
                    ctx.violate("R1.7", "%s changes the arm list after %s was computed from its length" %
                                (lab, fmt_target(dev.a["targets"][0])), dev.node, dev.fn,
                                "the value depends on len(self.arms), but `%s` in %s changes the list afterwards "
                                "without re-deriving it [%s]" % (norm_stmt(ev.node), ev.fn.qualname, c.name))
                dependents = []
                continue
            v = ev.a.get("value")
            if v is not None and any(t.region == "bandit" and t.ocls != "MAB" for t in tg) and \
                    any(d in cards for d in v.deps):
                dependents.append(ev)
        for dev in dependents:
            ctx.ok("R1.7", "%s: %s is derived after the arm list was changed" % (lab, fmt_target(dev.a["targets"][0])),
                   dev.node, dev.fn)
    return n


def check(ctx):
    F = facts(ctx)
    prog = ctx.prog
    ctx.rule("R1.1", "derived purity: (a) no self-dependence without a rebuild in the same function; (b) every "
                     "write to an input is followed by a batch-unconditional re-derivation")
    ctx.rule("R1.2", "the transitive input set of each arm's expectation / sampler equals the documented one; task "
                     "functions index per-arm state with their own arm")
    ctx.rule("R1.3", "reward rows are selected by one selector built from decisions == arm")
    ctx.rule("R1.4", "neutral value agreement between __init__, fit and add_arm")
    ctx.rule("R1.6", "accumulator updates are guarded only by cardinality predicates")
    ctx.rule("R1.7", "a value computed from the number of arms is computed after the arm list has been changed")
    n_self = n_stale = n_pf = 0
    classes = set()
    n_card = 0
    for c in F.configs(np_=[None]):
        cls = LP_CLASS[c.lp]
        if cls not in CONTEXT_FREE:
            continue
        n_card += check_cardinality_order(ctx, F, c)
        classes.add(cls)
        fm = derive.FieldModel(F, c)
        eng = fm.eng
        ctx.note("%s: accumulators %s; derived %s" % (c.name, sorted(fm.name(l) for l in fm.acc),
                                                      sorted(fm.name(l) for l in fm.derived)))
        n_self += derive.check_self_dependence(ctx, "R1.1", fm)
        n_stale += derive.check_staleness(ctx, "R1.1", fm)
        n_pf += derive.check_partial_fit_stores(ctx, fm, "R1.1", "R1.1", "R1.6")
        # R1.2 documented inputs of the expectation
        if cls in DOCUMENTED_INPUTS:
            imp = next(iter(fm.w.imp_val().refs))
            loc = (imp, "arm_to_expectation")
            got = transitive_inputs(fm, loc, eng)
            fn = prog.method(cls if cls != "_Popularity" else "_Popularity", "fit")
            ctx.check(got == DOCUMENTED_INPUTS[cls], "R1.2",
                      "%s.arm_to_expectation depends on exactly %s" % (cls, sorted(DOCUMENTED_INPUTS[cls])),
                      construct="%s.arm_to_expectation" % cls, where=cls,
                      detail="computed input set is %s" % sorted(got))
        # Thompson: the sampler reads the two counters of the same arm
        if cls == "_ThompsonSampling":
            root = F.trace(c, "predict_expectations")
            F.focus(c, root)
            for ev, anc in walk(root):
                if ev.kind == "draw":
                    locs = set()
                    for a in ev.a["args"]:
                        locs |= {l[1] for l in dep_locations(eng, a.deps)}
                    call = ev.stack[-1][1]
                    fnc = ev.stack[-2][0]
                    ok = {"arm_to_success_count", "arm_to_fail_count"} <= locs and ev.a["method"] == "beta"
                    per = [{l[1] for l in dep_locations(eng, a.deps)} for a in ev.a["args"][:2]]
                    ok = ok and len(per) == 2 and "arm_to_success_count" in per[0] and \
                        "arm_to_fail_count" not in per[0] and "arm_to_fail_count" in per[1] and \
                        "arm_to_success_count" not in per[1]
                    cargs = list(call.args) if isinstance(call, ast.Call) else []
                    keyed = len(cargs) >= 2 and all(isinstance(a, ast.Subscript) and isinstance(a.slice, ast.Name)
                                                    for a in cargs[:2]) and cargs[0].slice.id == cargs[1].slice.id
                    ctx.check(ok and keyed, "R1.2", "Thompson sampler is beta(success[arm], fail[arm])", call, fnc,
                              "sampler arguments depend on %s" % sorted(locs))
        # Random: no data field
        if cls == "_Random":
            for lab in ("fit", "partial_fit"):
                root = F.trace(c, lab)
                bad = [ev for ev, anc in walk(root) if ev.kind == "store" and any(
                    t.region == "bandit" and t.ocls == "_Random" for t in ev.a["targets"])]
                ctx.check(not bad, "R1.2", "Random ignores the data (%s writes nothing)" % lab,
                          construct="_Random.%s" % lab, where="mabwiser/rand.py")
        # R1.4
        nv = derive.neutral_values(F, c)
        imp = next(iter(fm.w.imp_val().refs))
        for loc, (desc, ev) in sorted(nv["add"].items(), key=str):
            if loc[0] != imp or loc[1] is None:
                continue
            fitd = nv["fit"].get(loc)
            initd = nv["init"].get(loc)
            name = "%s.%s" % (cls, loc[1])
            if fitd is None:
                # add_arm installs a neutral value but fit never (unconditionally) writes the field
                trained = any(lab in ("fit", "partial_fit") for lab, _, _ in fm.writers.get(loc, []))
                from .common import value_dead
                if trained and loc[1] not in derive.EXCLUDED_FIELDS and not value_dead(prog, cls, loc[1])[0]:
                    fitfn = prog.cls(cls).resolve("fit")
                    ctx.violate("R1.4", "fit resets %s to the neutral value that add_arm installs" % name,
                                fitfn.node, fitfn, "add_arm installs %r, training writes the field, but fit has no "
                                "unconditional reset of it: an arm without rows in the new data keeps its old value"
                                % (desc[1],), construct="def %s.fit (reset of %s)" % (fitfn.cls.name, loc[1]))
                continue
            if desc[0] == "const" and fitd[0][0] == "const":
                same = desc[1] == fitd[0][1] and (initd is None or initd[0][1] == desc[1])
                ctx.check(same, "R1.4", "neutral value of %s agrees between __init__, fit and add_arm" % name,
                          ev.node, ev.fn, "__init__ %s, fit %s, add_arm %s" % (
                              initd[0][1] if initd else "-", fitd[0][1], desc[1]))
            elif desc[0] == "derived" or fitd[0][0] == "derived":
                ctx.check(desc == fitd[0], "R1.4", "fit and add_arm finish %s with the same derivation" % name,
                          ev.node, ev.fn, "fit ends with %s, add_arm with %s" % (fitd[0], desc))
    check_selectors(ctx, "R1.3")
    # R1.2: per-arm state is indexed by the task's own arm
    k = 0
    for cname in ("_EpsilonGreedy", "_UCB1", "_Softmax", "_ThompsonSampling"):
        fn = prog.method(cname, "_fit_arm")
        arm = fn.params[1]
        for node in ast.walk(fn.node):
            if isinstance(node, ast.Subscript) and isinstance(node.value, ast.Attribute) and \
                    isinstance(node.value.value, ast.Name) and node.value.value.id == "self":
                k += 1
                ctx.check(ast.unparse(node.slice) == arm, "R1.2",
                          "%s indexes self.%s with its own arm" % (fn.qualname, node.value.attr), node, fn,
                          "index `%s` is not the task's arm parameter" % ast.unparse(node.slice))
    ctx.floor("R1.2", "per-arm subscripts in _fit_arm", k, 14)
    ctx.floor("R1.7", "store events on add_arm / remove_arm traces", n_card, 20)
    ctx.floor("R1.1", "context-free classes analysed", len(classes), 6)
    ctx.floor("R1.1", "stores to derived fields examined", n_self, 12)
    ctx.floor("R1.1", "input writes examined for staleness", n_stale, 15)
    ctx.floor("R1.6", "partial_fit-path stores examined", n_pf, 15)
