# -*- coding: utf-8 -*-
"""C06 - incremental training equals batch training."""

import ast
import copy

from ..facts import CONTEXT_FREE, LP_CLASS, NP_CLASS, walk
from ..model import norm_stmt
from .common import facts, parent
from . import derive
from .kill import loc_of_target

EXPLANATION = (
    "Sibling comparison and def-use analysis. (R6.1) for each of the ten classes in the property's quantifier the "
    "body of fit, after removing its kill prefix (resets, history rebinding, _initialize, per-arm init), is "
    "compared with the body of partial_fit in a normal form (accumulate form F = concat(F, e) / F += e equals "
    "F = e; is_partial, super().fit/partial_fit and context_start abstracted; `if T: self.F = g(x) else: self.F = "
    "x` equals `if T: x = g(x)` followed by the store). (R6.2) every non-accumulating store on the partial_fit "
    "path is computed from accumulated bandit state, never from the batch; derived purity and staleness rules of "
    "C01 are applied to the partial_fit path of all context-free and linear policies (this is where UCB1's N and "
    "Popularity's normalisation are decided); (R6.4) a task for an arm that is absent from a chunk is a no-op or an "
    "idempotent re-derivation; (R6.5) LSH rows added by partial_fit are filed under len(history before the "
    "append) + position, and the hyperplanes are not touched; (R6.6) MAB.partial_fit delegates to fit exactly when "
    "no fit has happened; history is appended old-then-new with matching operands. Decides the structure that "
    "makes chunked and batch training build the same state; bit-equality vs rounding of linear algebra is not "
    "decided. TreeBandit and scale=True are excluded by the property.")
ASSUMPTIONS = ["np.concatenate appends in argument order", "kill analysis of fit is C07's obligation set",
               "floating-point rounding differences of linear policies are outside the claim",
               "externals table; CPython ast"]

SIBLING_CLASSES = ["_EpsilonGreedy", "_UCB1", "_Softmax", "_ThompsonSampling", "_Popularity", "_Random", "_Linear",
                   "_Neighbors", "_ApproximateNeighbors", "_Clusters"]
KILL_CALLS = {"reset", "self._reset_arm_to_status", "self._initialize"}


def _sub(text):
    import re
    text = re.sub(r"is_partial=(True|False)", "is_partial=_", text)
    text = text.replace("super().partial_fit(", "super()._(").replace("super().fit(", "super()._(")
    text = re.sub(r"context_start=(len\(self\.\w+\)|\w+)", "context_start=_", text)
    # the same calls with positional arguments
    text = re.sub(r"self\._fit_operation\((\w+), (len\(self\.\w+\)|\w+)\)", r"self._fit_operation(\1, context_start=_)",
                  text)
    text = re.sub(r"self\._set_arms_as_trained\((decisions=)?(\w+), (is_partial=)?(True|False|_)\)",
                  r"self._set_arms_as_trained(decisions=\2, is_partial=_)", text)
    return " ".join(text.split())


def _self_field(node):
    if isinstance(node, ast.Attribute) and isinstance(node.value, ast.Name) and node.value.id == "self":
        return node.attr
    return None


def _mentions_field(expr, fld):
    return any(_self_field(n) == fld for n in ast.walk(expr))


def _canon_if(st):
    """`if T: ..self.F = G.. else: self.F = X`  ->  `if T: ..X = G..` ; `self.F = X`"""
    if not (isinstance(st, ast.If) and len(st.orelse) == 1 and isinstance(st.orelse[0], ast.Assign)):
        return [st]
    e = st.orelse[0]
    fld = _self_field(e.targets[0]) if len(e.targets) == 1 else None
    if fld is None or not isinstance(e.value, ast.Name):
        return [st]
    hits = [s for s in st.body if isinstance(s, ast.Assign) and len(s.targets) == 1
            and _self_field(s.targets[0]) == fld]
    if len(hits) != 1:
        return [st]
    new = copy.deepcopy(st)
    for s in new.body:
        if isinstance(s, ast.Assign) and len(s.targets) == 1 and _self_field(s.targets[0]) == fld:
            s.targets = [ast.Name(id=e.value.id, ctx=ast.Store())]
    new.orelse = []
    return [ast.fix_missing_locations(new), e]


def _concat_of(v):
    """np.concatenate((self.F, E)) -> (F, E) ; else None"""
    if isinstance(v, ast.Call) and ast.unparse(v.func) in ("np.concatenate", "np.append") and v.args:
        a = v.args[0]
        elts = a.elts if isinstance(a, (ast.Tuple, ast.List)) else list(v.args)
        if len(elts) == 2 and _self_field(elts[0]) is not None:
            return _self_field(elts[0]), elts[1]
    return None


def _tokens(stmts, which, out_notes):
    toks = []
    flat = []
    for st in stmts:
        flat.extend(_canon_if(st))
    # private-copy-publish form of partial_fit: local = concatenate((self.F, e)) ... self.F = local
    staged = {}
    if which == "partial_fit":
        keep = []
        for st in flat:
            if isinstance(st, ast.Assign) and len(st.targets) == 1 and isinstance(st.targets[0], ast.Name):
                co = _concat_of(st.value)
                if co is not None:
                    staged[st.targets[0].id] = co
                    continue
            if staged:
                # after `x = concatenate((self.F, x))` the name x denotes the extended history, not the batch
                used = {n.id for n in ast.walk(st) if isinstance(n, ast.Name) and isinstance(n.ctx, ast.Load)}
                publishes = isinstance(st, ast.Assign) and all(
                    _self_field(t) is not None for tt in st.targets
                    for t in (tt.elts if isinstance(tt, ast.Tuple) else [tt]))
                if (used & set(staged)) and not publishes:
                    st = copy.deepcopy(st)
                    for n in ast.walk(st):
                        if isinstance(n, ast.Name) and isinstance(n.ctx, ast.Load) and n.id in staged:
                            n.id = "EXTENDED_" + n.id
            keep.append(st)
        flat = []
        for st in keep:
            if isinstance(st, ast.Assign) and len(st.targets) == 1 and isinstance(st.targets[0], ast.Tuple) and \
                    isinstance(st.value, ast.Tuple) and len(st.targets[0].elts) == len(st.value.elts):
                for te, ve in zip(st.targets[0].elts, st.value.elts):
                    flat.append(ast.fix_missing_locations(ast.copy_location(
                        ast.Assign(targets=[te], value=ve, lineno=st.lineno), st)))
            else:
                flat.append(st)
    for st in flat:
        if isinstance(st, ast.Expr) and isinstance(st.value, ast.Constant):
            continue
        if isinstance(st, ast.Pass):
            continue
        if isinstance(st, ast.Expr) and isinstance(st.value, ast.Call):
            fn = ast.unparse(st.value.func)
            c_ = st.value
            if isinstance(c_.func, ast.Attribute) and c_.func.attr == "update" and len(c_.args) == 1 and \
                    isinstance(c_.args[0], ast.Call) and ast.unparse(c_.args[0].func) in ("{}.fromkeys",
                                                                                         "dict.fromkeys") and \
                    len(c_.args[0].args) == 2 and ast.unparse(c_.args[0].args[0]) == ast.unparse(c_.func.value) and \
                    isinstance(c_.args[0].args[1], ast.Constant) and _self_field(c_.func.value) is not None:
                # d.update({}.fromkeys(d, <constant>)): every entry is reset, as reset(d, <constant>) does
                if which == "partial_fit":
                    toks.append(("KILL-IN-PARTIAL", norm_stmt(st)))
                continue
            if fn in KILL_CALLS:
                if which == "partial_fit":
                    toks.append(("KILL-IN-PARTIAL", norm_stmt(st)))
                continue
        if isinstance(st, ast.For) and len(st.body) == 1 and isinstance(st.body[0], ast.Expr) and \
                isinstance(st.body[0].value, ast.Call) and ast.unparse(st.body[0].value.func).endswith(".init"):
            if which == "partial_fit":
                toks.append(("KILL-IN-PARTIAL", norm_stmt(st)))
            continue
        if isinstance(st, ast.Assign) and len(st.targets) == 1:
            fld = _self_field(st.targets[0])
            v = st.value
            if fld is not None:
                if which == "fit" and not _mentions_field(v, fld):
                    if isinstance(v, (ast.DictComp, ast.ListComp, ast.Dict)) or \
                            (isinstance(v, ast.Call) and ast.unparse(v.func) in ("dict.fromkeys", "defaultdict")):
                        continue        # fresh empty container: a reset
                    if isinstance(v, ast.Subscript) and isinstance(v.value, ast.Attribute) and \
                            v.value.attr == "shape" and ast.unparse(v.slice) == "1":
                        continue        # column count of the data: fixed at fit, identical for every chunk
                    toks.append(("SET", fld, _sub(ast.unparse(v))))
                    continue
                if which == "partial_fit" and isinstance(v, ast.Name) and v.id in staged and \
                        staged[v.id][0] == fld:
                    toks.append(("SET", fld, _sub(ast.unparse(staged[v.id][1]))))
                    continue
                if which == "partial_fit":
                    if isinstance(v, ast.Call) and ast.unparse(v.func) in ("np.concatenate", "np.append") and v.args:
                        a = v.args[0]
                        elts = a.elts if isinstance(a, (ast.Tuple, ast.List)) else list(v.args)
                        if len(elts) == 2 and _self_field(elts[0]) == fld:
                            toks.append(("SET", fld, _sub(ast.unparse(elts[1]))))
                            continue
                    if isinstance(v, ast.BinOp) and isinstance(v.op, ast.Add) and _self_field(v.left) == fld:
                        toks.append(("SET", fld, _sub(ast.unparse(v.right))))
                        continue
            if which == "partial_fit" and isinstance(st.targets[0], ast.Name) and isinstance(v, ast.Call) and \
                    ast.unparse(v.func) == "len" and v.args and _self_field(v.args[0]) is not None:
                out_notes.append(("offset", st.targets[0].id, ast.unparse(v.args[0]), st))
                continue
        if isinstance(st, ast.AugAssign) and which == "partial_fit":
            fld = _self_field(st.target)
            if fld is not None and isinstance(st.op, ast.Add):
                toks.append(("SET", fld, _sub(ast.unparse(st.value))))
                continue
        if isinstance(st, ast.If):
            toks.append(("IF", _sub(ast.unparse(st.test)), tuple(sorted(_tokens(st.body, which, out_notes))),
                         tuple(sorted(_tokens(st.orelse, which, out_notes)))))
            continue
        if isinstance(st, ast.For):
            toks.append(("FOR", _sub(ast.unparse(st.target) + " in " + ast.unparse(st.iter)),
                         tuple(_tokens(st.body, which, out_notes))))
            continue
        toks.append(("STMT", _sub(ast.unparse(st))))
    return toks


def check_siblings(ctx):
    prog = ctx.prog
    n = 0
    for cname in SIBLING_CLASSES:
        cls = prog.cls(cname)
        if "fit" not in cls.methods or "partial_fit" not in cls.methods:
            ctx.undecided("R6.1", "%s no longer defines both fit and partial_fit" % cname, construct="class " + cname,
                          where=cname)
            continue
        ffit, fpar = cls.methods["fit"], cls.methods["partial_fit"]
        ctx.saw_fn(ffit)
        ctx.saw_fn(fpar)
        notes = []
        from .terms import final_form
        tf = sorted(_tokens(final_form(ffit.node.body), "fit", notes), key=str)
        tp = sorted(_tokens(final_form(fpar.node.body), "partial_fit", notes), key=str)
        n += 1
        # Any batch-independent prefix of fit is a reset R whatever its idiom: with fit = P o R and partial_fit = P,
        # fit(A); partial_fit(B) == fit(A + B) follows from P's additivity alone (R6.2/R6.3), so such statements
        # need no counterpart in partial_fit.
        params = {a.arg for a in ffit.node.args.args[1:]}
        excusable = []
        for st in ffit.node.body:
            if isinstance(st, ast.Expr) and isinstance(st.value, ast.Constant):
                continue
            if any(isinstance(x, ast.Name) and x.id in params for x in ast.walk(st)):
                break
            excusable.extend(_tokens(final_form([st]), "fit", []))
        only_f = [t for t in tf if t not in tp and t not in excusable]
        only_p = [t for t in tp if t not in tf]
        ctx.check(not only_f and not only_p, "R6.1", "%s.fit == reset o %s.partial_fit" % (cname, cname), fpar.node,
                  fpar, "after removing fit's resets the bodies differ: only in fit %s; only in partial_fit %s" %
                  (only_f, only_p), construct="def %s.fit / def %s.partial_fit" % (cname, cname))
    ctx.floor("R6.1", "fit/partial_fit sibling pairs", n, 10)


def check_history_append(ctx):
    """R3.4 / R6.1: partial_fit appends old-then-new with the matching operand for each history field."""
    prog = ctx.prog
    n = 0
    from .terms import final_form
    for cname in ("_Neighbors", "_Clusters"):
        fn = prog.method(cname, "partial_fit")
        stores = {}
        for st in final_form(fn.node.body):
            for node in ast.walk(st):
                if isinstance(node, ast.Assign) and len(node.targets) == 1 and \
                        _self_field(node.targets[0]) in ("decisions", "rewards", "contexts"):
                    stores.setdefault(_self_field(node.targets[0]), []).append(node)
        for fld in ("decisions", "rewards", "contexts"):
            n += 1
            if fld not in stores:
                ctx.violate("R6.1", "%s.partial_fit appends to %s" % (cname, fld), fn.node, fn,
                            "no store to self.%s found" % fld, construct="def %s.partial_fit" % cname)
                continue
            for node in stores[fld]:
                v = node.value
                ok = isinstance(v, ast.Call) and ast.unparse(v.func) == "np.concatenate" and v.args and \
                    isinstance(v.args[0], (ast.Tuple, ast.List)) and len(v.args[0].elts) == 2 and \
                    _self_field(v.args[0].elts[0]) == fld and not _mentions_field(v.args[0].elts[1], fld) and \
                    any(isinstance(x, ast.Name) and x.id == fld for x in ast.walk(v.args[0].elts[1])) and \
                    not v.keywords and len(v.args) == 1
                ctx.check(ok, "R6.1", "%s.partial_fit appends the new %s after the stored %s" % (cname, fld, fld),
                          node, fn, "the value stored is `%s`; expected np.concatenate((self.%s, <the batch's %s>))" %
                          (" ".join(ast.unparse(v).split())[:200], fld, fld))
    ctx.floor("R6.1", "history append sites", n, 6)


def check_lsh_offset(ctx):
    prog = ctx.prog
    n = 0
    for cname, add_cls in (("_ApproximateNeighbors", "_LSHNearest"), ("_ApproximateSimulator", "_LSHSimulator")):
        fn = prog.method(cname, "partial_fit")
        ctx.saw_fn(fn)
        body = [s for s in fn.node.body if not (isinstance(s, ast.Expr) and isinstance(s.value, ast.Constant))]
        start_i = sup_i = op_i = None
        start_name = None
        for i, st in enumerate(body):
            if isinstance(st, ast.Assign) and isinstance(st.value, ast.Call) and ast.unparse(st.value) in (
                    "len(self.contexts)", "self.contexts.shape[0]", "len(self.decisions)"):
                start_i, start_name = i, ast.unparse(st.targets[0])
            s = ast.unparse(st)
            if "super().partial_fit(" in s and sup_i is None:
                sup_i = i
            if "self._fit_operation(" in s:
                op_i = i
                kw = {k.arg: ast.unparse(k.value) for k in st.value.keywords} if isinstance(st, ast.Expr) else {}
                args = [ast.unparse(a) for a in st.value.args] if isinstance(st, ast.Expr) else []
                passed = kw.get("context_start", args[1] if len(args) > 1 else None)
        ok = start_i is not None and sup_i is not None and op_i is not None and start_i < sup_i < op_i and \
            passed == start_name
        n += 1
        ctx.check(ok, "R6.5", "%s.partial_fit reads the history length before the append and passes it as offset"
                  % cname, fn.node, fn, "len read at stmt %s, append at %s, _fit_operation at %s, offset arg %s" %
                  (start_i, sup_i, op_i, locals().get("passed")), construct="def %s.partial_fit" % cname)
        add = prog.method(add_cls, "_add_neighbors")
        ctx.saw_fn(add)
        okadd = False
        detail = ""
        for st in add.node.body:
            if isinstance(st, ast.If):
                t = ast.unparse(st.test)
                good_test = t in ("context_start > 0", "context_start != 0", "context_start", "0 < context_start")
                then_adds = any("+ context_start" in ast.unparse(x) for x in st.body)
                else_plain = not any("context_start" in ast.unparse(x) for x in st.orelse)
                okadd = good_test and then_adds and else_plain
                detail = "test `%s`" % t
            elif isinstance(st, ast.Assign) and "+ context_start" in ast.unparse(st.value) and not okadd:
                okadd = True
        n += 1
        ctx.check(okadd, "R6.5", "%s._add_neighbors shifts the within-batch indices by the offset whenever it can be "
                  "non-zero" % add_cls, add.node, add, detail, construct="def %s._add_neighbors" % add_cls)
    ctx.floor("R6.5", "LSH offset obligations", n, 4)


def check_first_call(ctx):
    prog = ctx.prog
    fn = prog.method("MAB", "partial_fit")
    ok = False
    for st in fn.node.body:
        if isinstance(st, ast.If) and ast.unparse(st.test) == "self._is_initial_fit":
            # both branches are handed the same three (validated and converted) arrays
            def args_of(stmts, callee):
                for x in stmts:
                    for c in ast.walk(x):
                        if isinstance(c, ast.Call) and ast.unparse(c.func) == callee and not c.keywords:
                            return [ast.unparse(a) for a in c.args]
                return None
            a = args_of(st.body, "self._imp.partial_fit")
            b = args_of(st.orelse, "self.fit")
            ok = a is not None and a == b and len(a) == 3 and len(st.body) == 1 and len(st.orelse) == 1
    ctx.check(ok, "R6.6", "MAB.partial_fit delegates to fit iff no fit has happened yet", fn.node, fn,
              construct="def MAB.partial_fit")


def check(ctx):
    F = facts(ctx)
    ctx.rule("R6.1", "fit == reset o partial_fit per class (sibling normal form); history appended old-then-new")
    ctx.rule("R6.2", "non-accumulating stores on the partial_fit path derive from accumulated state; derived purity "
                     "and staleness on the partial_fit path")
    ctx.rule("R6.4", "a task for an arm absent from the chunk is a no-op or an idempotent re-derivation")
    ctx.rule("R6.5", "LSH index offset read before the append, passed and applied; planes untouched by partial_fit")
    ctx.rule("R6.6", "first partial_fit delegates to fit")
    ctx.rule("R6.7", "what a chunk appends to the history is converted with the chunk's own decisions")
    from .c20 import check_binarizer_pairing
    check_binarizer_pairing(ctx, F, "R6.7")
    check_siblings(ctx)
    check_history_append(ctx)
    check_lsh_offset(ctx)
    check_first_call(ctx)
    n = 0
    for c in F.configs(np_=[None]):
        fm = derive.FieldModel(F, c)
        n += derive.check_partial_fit_stores(ctx, fm, "R6.2", "R6.4", "R6.2")
        derive.check_self_dependence(ctx, "R6.2", fm)
        derive.check_staleness(ctx, "R6.2", fm)
    ctx.floor("R6.2", "partial_fit-path stores examined", n, 20)
    # planes are not rewritten on the partial_fit path
    k = 0
    for c in F.configs(np_=["LSHNearest"]):
        root = F.trace(c, "partial_fit")
        from ..facts import first_call
        sub = first_call(root, "partial_fit")
        bad = []
        if sub is not None:
            for ev, anc in walk(sub):
                if ev.kind == "store" and any(t.field == "table_to_plane" and t.region == "bandit"
                                              for t in ev.a["targets"]):
                    bad.append(ev)
        k += 1
        fn = ctx.prog.method("_ApproximateNeighbors", "partial_fit")
        if bad:
            ctx.violate("R6.5", "hyperplanes are fixed at fit", bad[0].node, bad[0].fn,
                        "table_to_plane is written on the partial_fit path [%s]" % c.name)
        else:
            ctx.ok("R6.5", "hyperplanes are not written on the partial_fit path", fn.node, fn,
                   construct="def _ApproximateNeighbors.partial_fit")
    ctx.floor("R6.5", "LSH configurations", k, 9)
