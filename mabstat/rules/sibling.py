# -*- coding: utf-8 -*-
"""A5 sibling normal form: compare two live fragments of the tree with each other."""

import ast
import copy


class _Alpha(ast.NodeTransformer):
    def __init__(self, local_names, rename_calls):
        self.map = {}
        self.locals = local_names
        self.rename_calls = rename_calls

    def _name(self, n):
        if n not in self.map:
            self.map[n] = "v%d" % len(self.map)
        return self.map[n]

    def visit_Name(self, node):
        if node.id in self.locals:
            return ast.copy_location(ast.Name(id=self._name(node.id), ctx=node.ctx), node)
        return node

    def visit_arg(self, node):
        if node.arg in self.locals:
            node = copy.copy(node)
            node.arg = self._name(node.arg)
        node.annotation = None
        return node

    def visit_Attribute(self, node):
        self.generic_visit(node)
        s = ast.unparse(node)
        if s in self.rename_calls:
            return ast.parse(self.rename_calls[s], mode="eval").body
        return node

    def visit_Expr(self, node):
        if isinstance(node.value, ast.Constant) and isinstance(node.value.value, str):
            return None
        # logging is not behaviour
        if isinstance(node.value, ast.Call) and ast.unparse(node.value.func).startswith("self.logger."):
            return None
        self.generic_visit(node)
        return node

    def visit_Pass(self, node):
        return None

    def visit_FunctionDef(self, node):
        node = copy.copy(node)
        node.returns = None
        node.decorator_list = []
        node.name = "f"
        self.generic_visit(node)
        if not node.body:
            node.body = [ast.Pass()]
        return node

    def visit_AnnAssign(self, node):
        self.generic_visit(node)
        if node.value is None:
            return None
        return ast.copy_location(ast.Assign(targets=[node.target], value=node.value), node)


def local_names(fn_node):
    names = set()
    a = fn_node.args
    for x in a.posonlyargs + a.args + a.kwonlyargs:
        if x.arg != "self":
            names.add(x.arg)
    for n in ast.walk(fn_node):
        if isinstance(n, ast.Name) and isinstance(n.ctx, (ast.Store, ast.Del)):
            names.add(n.id)
    return names


def normal_form(fn_node, rename_calls=None) -> str:
    node = copy.deepcopy(fn_node)
    t = _Alpha(local_names(node), rename_calls or {})
    node = t.visit(node)
    ast.fix_missing_locations(node)
    return ast.unparse(node)


def expand_local(fn_node, name, stop=()):
    """Expression bound to `name` (its last assignment), with single-assignment locals inlined."""
    defs = {}
    for n in ast.walk(fn_node):
        if isinstance(n, ast.Assign) and len(n.targets) == 1 and isinstance(n.targets[0], ast.Name):
            defs.setdefault(n.targets[0].id, []).append(n.value)

    def exp(e, depth=0):
        e = copy.deepcopy(e)

        class R(ast.NodeTransformer):
            def visit_Name(self, node):
                if isinstance(node.ctx, ast.Load) and node.id in defs and len(defs[node.id]) == 1 and \
                        node.id not in stop and depth < 6:
                    return exp(defs[node.id][0], depth + 1)
                return node
        return R().visit(e)
    if name not in defs:
        return None
    return exp(defs[name][-1])
