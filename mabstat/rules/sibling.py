# -*- coding: utf-8 -*-
"""A5 sibling normal form: compare two live fragments of the tree with each other."""

import ast
import copy


class _Alpha(ast.NodeTransformer):
    def __init__(self, local_names, rename_calls):
        self.map = {}
        self.locals = local_names
        self.rename_calls = rename_calls

    def _name(self, n):
        if n not in self.map:
            self.map[n] = "v%d" % len(self.map)
        return self.map[n]

    def visit_Name(self, node):
        if node.id in self.locals:
            return ast.copy_location(ast.Name(id=self._name(node.id), ctx=node.ctx), node)
        return node

    def visit_arg(self, node):
        if node.arg in self.locals:
            node = copy.copy(node)
            node.arg = self._name(node.arg)
        node.annotation = None
        return node

    def visit_Attribute(self, node):
        self.generic_visit(node)
        s = ast.unparse(node)
        if s in self.rename_calls:
            return ast.parse(self.rename_calls[s], mode="eval").body
        return node

    def visit_Expr(self, node):
        if isinstance(node.value, ast.Constant) and isinstance(node.value.value, str):
            return None
        # logging is not behaviour
        if isinstance(node.value, ast.Call) and ast.unparse(node.value.func).startswith("self.logger."):
            return None
        self.generic_visit(node)
        return node

    def visit_Pass(self, node):
        return None

    def visit_FunctionDef(self, node):
        node = copy.copy(node)
        node.returns = None
        node.decorator_list = []
        node.name = "f"
        self.generic_visit(node)
        if not node.body:
            node.body = [ast.Pass()]
        return node

    def visit_AnnAssign(self, node):
        self.generic_visit(node)
        if node.value is None:
            return None
        return ast.copy_location(ast.Assign(targets=[node.target], value=node.value), node)


def local_names(fn_node):
    names = set()
    a = fn_node.args
    for x in a.posonlyargs + a.args + a.kwonlyargs:
        if x.arg != "self":
            names.add(x.arg)
    for n in ast.walk(fn_node):
        if isinstance(n, ast.Name) and isinstance(n.ctx, (ast.Store, ast.Del)):
            names.add(n.id)
    return names


def _stores(stmts):
    return {n.id for st in stmts for n in ast.walk(st) if isinstance(n, ast.Name) and
            isinstance(n.ctx, (ast.Store, ast.Del))}


def _txt(n):
    return " ".join(ast.unparse(n).split())


class _Shape(ast.NodeTransformer):
    """Statement-level spellings that mean the same: iteration over a dict / its keys() / its items(), list growth by
    `+=`, `+= list(..)` or extend, a default followed by a conditional overwrite versus if/else."""

    def __init__(self, list_locals):
        self.list_locals = list_locals

    def visit_For(self, node):
        it = node.iter
        if isinstance(it, ast.Call) and isinstance(it.func, ast.Attribute) and not it.args and not it.keywords:
            d = it.func.value
            dt = _txt(d)
            touched = any(isinstance(n, (ast.Subscript, ast.Attribute)) and isinstance(n.ctx, (ast.Store, ast.Del))
                          and _txt(n).startswith(dt) for st in node.body for n in ast.walk(st)) or \
                any(isinstance(n, ast.Name) and isinstance(n.ctx, ast.Store) and n.id == dt
                    for st in node.body for n in ast.walk(st))
            simple = not any(isinstance(n, (ast.Call, ast.Lambda)) for n in ast.walk(d))
            if it.func.attr == "keys" and simple:
                node.iter = d
            elif it.func.attr == "items" and simple and not touched and isinstance(node.target, ast.Tuple) and \
                    len(node.target.elts) == 2 and all(isinstance(e, ast.Name) for e in node.target.elts):
                k, v = node.target.elts[0].id, node.target.elts[1].id
                if k != v and v not in _stores(node.body) and k not in _stores(node.body):
                    class R(ast.NodeTransformer):
                        def visit_Name(self, n):
                            if n.id == v and isinstance(n.ctx, ast.Load):
                                return ast.Subscript(value=copy.deepcopy(d), slice=ast.Name(id=k, ctx=ast.Load()),
                                                     ctx=ast.Load())
                            return n
                    node.body = [R().visit(st) for st in node.body]
                    node.target = ast.Name(id=k, ctx=ast.Store())
                    node.iter = d
        self.generic_visit(node)
        return node

    def visit_comprehension(self, node):
        self.generic_visit(node)
        it = node.iter
        if isinstance(it, ast.Call) and isinstance(it.func, ast.Attribute) and it.func.attr == "keys" and \
                not it.args and not it.keywords and not any(isinstance(n, (ast.Call, ast.Lambda))
                                                            for n in ast.walk(it.func.value)):
            node.iter = it.func.value
        return node

    def visit_AugAssign(self, node):
        self.generic_visit(node)
        if isinstance(node.op, ast.Add):
            v = node.value
            wrapped = isinstance(v, ast.Call) and _txt(v.func) == "list" and len(v.args) == 1 and not v.keywords
            if wrapped or isinstance(node.target, ast.Name) and node.target.id in self.list_locals:
                tgt = copy.deepcopy(node.target)
                for n in ast.walk(tgt):
                    if hasattr(n, "ctx"):
                        n.ctx = ast.Load()
                call = ast.Call(func=ast.Attribute(value=tgt, attr="extend", ctx=ast.Load()),
                                args=[v.args[0] if wrapped else v], keywords=[])
                return ast.copy_location(ast.Expr(value=call), node)
        return node


def _default_then_overwrite(block):
    """`T = A` directly followed by `if C: T = B` (no else)  ->  `if C: T = B[T := A] else: T = A`"""
    out = []
    i = 0
    while i < len(block):
        st = block[i]
        nxt = block[i + 1] if i + 1 < len(block) else None
        if isinstance(st, ast.Assign) and len(st.targets) == 1 and isinstance(st.targets[0], ast.Name) and \
                isinstance(nxt, ast.If) and not nxt.orelse and len(nxt.body) == 1 and \
                isinstance(nxt.body[0], ast.Assign) and len(nxt.body[0].targets) == 1 and \
                isinstance(nxt.body[0].targets[0], ast.Name) and nxt.body[0].targets[0].id == st.targets[0].id:
            t = st.targets[0].id
            from ..model import _pure_expr
            reads_t = any(isinstance(n, ast.Name) and n.id == t for n in ast.walk(nxt.test))
            if not reads_t and _pure_expr(st.value):
                a = st.value

                class R(ast.NodeTransformer):
                    def visit_Name(self, n):
                        return copy.deepcopy(a) if n.id == t and isinstance(n.ctx, ast.Load) else n
                b = R().visit(copy.deepcopy(nxt.body[0].value))
                new = ast.If(test=nxt.test,
                             body=[ast.Assign(targets=[ast.Name(id=t, ctx=ast.Store())], value=b, lineno=0)],
                             orelse=[ast.Assign(targets=[ast.Name(id=t, ctx=ast.Store())], value=copy.deepcopy(a),
                                                lineno=0)])
                out.append(ast.copy_location(new, nxt))
                i += 2
                continue
        out.append(st)
        i += 1
    return out


def _adjacent_temporaries(block, uses_outside):
    """`t = E` directly followed by the only statement that reads t (once, outside any loop / lambda of it)"""
    changed = True
    while changed:
        changed = False
        for i in range(len(block) - 1):
            st, nxt = block[i], block[i + 1]
            if not (isinstance(st, ast.Assign) and len(st.targets) == 1 and isinstance(st.targets[0], ast.Name)):
                continue
            t = st.targets[0].id
            if isinstance(nxt, (ast.For, ast.While, ast.If, ast.With, ast.Try, ast.FunctionDef)):
                head = nxt.test if isinstance(nxt, (ast.If, ast.While)) else (nxt.iter if isinstance(nxt, ast.For)
                                                                             else None)
                if head is None:
                    continue
                inner = [n for n in ast.walk(nxt) if isinstance(n, ast.Name) and n.id == t]
                hits = [n for n in ast.walk(head) if isinstance(n, ast.Name) and n.id == t]
                if len(inner) != 1 or len(hits) != 1:
                    continue
                scope = head
            else:
                hits = [n for n in ast.walk(nxt) if isinstance(n, ast.Name) and n.id == t]
                if isinstance(nxt, ast.Assign):
                    # `t = E; a, t, b = f(t)`: the target is written after the value was read
                    tstores = [n for tg in nxt.targets for n in ast.walk(tg) if isinstance(n, ast.Name) and n.id == t
                               and isinstance(n.ctx, ast.Store)]
                    hits = [n for n in hits if not any(n is x for x in tstores)]
                if len(hits) != 1 or not isinstance(hits[0].ctx, ast.Load):
                    continue
                def deferred(n):
                    # inside a lambda / comprehension, except in the iterable of its first `for`, which is
                    # evaluated where the comprehension stands
                    if isinstance(n, ast.Lambda):
                        return any(x is hits[0] for x in ast.walk(n))
                    if isinstance(n, (ast.ListComp, ast.SetComp, ast.DictComp, ast.GeneratorExp)):
                        if any(x is hits[0] for x in ast.walk(n.generators[0].iter)):
                            return False
                        return any(x is hits[0] for x in ast.walk(n))
                    return False
                if any(deferred(n) for n in ast.walk(nxt)):
                    continue
                scope = nxt
            rebinds = isinstance(nxt, ast.Assign) and len(nxt.targets) == 1 and isinstance(nxt.targets[0], ast.Name) \
                and nxt.targets[0].id == t and scope is nxt
            if not rebinds and uses_outside(t, (st, nxt)):
                continue        # (t = E; t = f(t): later reads see the second value, the first has one reader)
            val = st.value

            class R(ast.NodeTransformer):
                def visit_Name(self, n):
                    return copy.deepcopy(val) if n is hits[0] else n
            if scope is nxt:
                block[i + 1] = R().visit(nxt)
            elif isinstance(nxt, ast.For):
                nxt.iter = R().visit(nxt.iter)
            else:
                nxt.test = R().visit(nxt.test)
            del block[i]
            changed = True
            break
    return block


PARTITION_PURE = ("self._partition_contexts", "len")


def _partitioned_tasks(fn_node):
    """`Parallel(n_jobs=J, backend=self.backend)(delayed(F)(<chunk of X>, a..) for <chunks of the partition>)` in any
    of the four spellings of the chunks (index range, (lo, hi) pairs, slice objects, a list of chunks) reads
    PARTITIONED(F, X, a..); the lists that only named the chunks are dropped. (That the chunks are the consecutive
    chunks of one partition is C05 R5.2's business; here both twins are read the same way.)"""
    part = None
    for n in ast.walk(fn_node):
        if isinstance(n, ast.Assign) and isinstance(n.targets[0], ast.Tuple) and len(n.targets[0].elts) == 3 and \
                isinstance(n.value, ast.Call) and _txt(n.value.func) == "self._partition_contexts" and \
                all(isinstance(e, ast.Name) for e in n.targets[0].elts):
            part = n
    if part is None:
        return fn_node
    NJ, ST = part.targets[0].elts[0].id, part.targets[0].elts[2].id
    defs = {}
    for n in ast.walk(fn_node):
        if isinstance(n, ast.Assign) and len(n.targets) == 1 and isinstance(n.targets[0], ast.Name):
            defs.setdefault(n.targets[0].id, []).append(n)

    def chunk_array(a0, gen):
        """the array X when a0 is this task's chunk of X, else None"""
        tg, it = gen.target, gen.iter
        its = _txt(it)
        if its == "range(%s)" % NJ and isinstance(tg, ast.Name) and isinstance(a0, ast.Subscript) and \
                isinstance(a0.slice, ast.Slice) and a0.slice.lower is not None and a0.slice.upper is not None and \
                _txt(a0.slice.lower) == "%s[%s]" % (ST, tg.id) and _txt(a0.slice.upper) == "%s[%s + 1]" % (ST, tg.id):
            return _txt(a0.value), None
        pair_its = ("zip(%s[:-1], %s[1:])" % (ST, ST), "zip(%s, %s[1:])" % (ST, ST))
        src = it
        named = None
        if isinstance(it, ast.Name) and len(defs.get(it.id, [])) == 1:
            named = it.id
            src = defs[it.id][0].value
            if isinstance(src, ast.Call) and _txt(src.func) in ("list", "tuple") and len(src.args) == 1:
                src = src.args[0]
        if _txt(src) in pair_its and isinstance(tg, ast.Tuple) and len(tg.elts) == 2 and \
                isinstance(a0, ast.Subscript) and isinstance(a0.slice, ast.Slice) and a0.slice.lower is not None \
                and a0.slice.upper is not None and _txt(a0.slice.lower) == _txt(tg.elts[0]) and \
                _txt(a0.slice.upper) == _txt(tg.elts[1]):
            return _txt(a0.value), named
        if isinstance(src, ast.ListComp) and len(src.generators) == 1 and isinstance(tg, ast.Name):
            g2 = src.generators[0]
            inner = None
            if _txt(g2.iter) == "range(%s)" % NJ and isinstance(g2.target, ast.Name):
                lo, hi = "%s[%s]" % (ST, g2.target.id), "%s[%s + 1]" % (ST, g2.target.id)
                inner = (lo, hi)
            elif _txt(g2.iter) in pair_its and isinstance(g2.target, ast.Tuple) and len(g2.target.elts) == 2:
                inner = (_txt(g2.target.elts[0]), _txt(g2.target.elts[1]))
            if inner is not None:
                e = src.elt
                if isinstance(e, ast.Call) and _txt(e.func) == "slice" and [_txt(x) for x in e.args] == list(inner) \
                        and isinstance(a0, ast.Subscript) and _txt(a0.slice) == tg.id:
                    return _txt(a0.value), named
                if isinstance(e, ast.Subscript) and isinstance(e.slice, ast.Slice) and e.slice.lower is not None and \
                        e.slice.upper is not None and (_txt(e.slice.lower), _txt(e.slice.upper)) == inner and \
                        isinstance(a0, ast.Name) and a0.id == tg.id:
                    return _txt(e.value), named
        return None

    dropped = set()

    class R(ast.NodeTransformer):
        def visit_Call(self, node):
            self.generic_visit(node)
            if isinstance(node.func, ast.Call) and _txt(node.func.func) == "Parallel" and len(node.args) == 1 and \
                    isinstance(node.args[0], (ast.GeneratorExp, ast.ListComp)) and \
                    len(node.args[0].generators) == 1 and not node.args[0].generators[0].ifs and \
                    not any(k.arg == "require" for k in node.func.keywords):
                task = node.args[0].elt
                if isinstance(task, ast.Call) and isinstance(task.func, ast.Call) and \
                        _txt(task.func.func) == "delayed" and len(task.func.args) == 1 and task.args and \
                        not task.keywords:
                    got = chunk_array(task.args[0], node.args[0].generators[0])
                    if got is not None:
                        x, named = got
                        if named:
                            dropped.add(named)
                        return ast.Call(func=ast.Name(id="PARTITIONED", ctx=ast.Load()),
                                        args=[task.func.args[0], ast.parse(x, mode="eval").body] + task.args[1:],
                                        keywords=[])
            return node
    fn_node = R().visit(fn_node)
    # the chunk lists that are no longer read
    if dropped:
        still = {n.id for n in ast.walk(fn_node) if isinstance(n, ast.Name) and isinstance(n.ctx, ast.Load)}

        def prune(stmts):
            out = []
            for st in stmts:
                if isinstance(st, ast.Assign) and len(st.targets) == 1 and isinstance(st.targets[0], ast.Name) and \
                        st.targets[0].id in dropped and st.targets[0].id not in still:
                    continue
                for fld in ("body", "orelse"):
                    b = getattr(st, fld, None)
                    if isinstance(b, list) and b and isinstance(b[0], ast.stmt):
                        setattr(st, fld, prune(b) or [ast.Pass()])
                out.append(st)
            return out
        fn_node.body = prune(fn_node.body)
    return fn_node


def _hoist_invariants(fn_node):
    """leading statements of a loop body that assign effect-free, loop-invariant values (the partition of the rows
    computed anew for every hash table) are read as standing in front of the loop"""
    from ..model import _pure_expr

    def pure(e):
        class Hide(ast.NodeTransformer):
            def visit_Call(self, n):
                self.generic_visit(n)
                if _txt(n.func) in PARTITION_PURE:
                    return ast.Tuple(elts=list(n.args), ctx=ast.Load())
                return n
        return _pure_expr(Hide().visit(copy.deepcopy(e)))

    def do(block):
        out = []
        for st in block:
            for fld in ("body", "orelse"):
                b = getattr(st, fld, None)
                if isinstance(b, list) and b and isinstance(b[0], ast.stmt) and not isinstance(st, ast.For):
                    setattr(st, fld, do(b))
            if isinstance(st, ast.For) and not st.orelse:
                st.body = do(st.body)
                loopvars = {n.id for n in ast.walk(st.target) if isinstance(n, ast.Name)}
                while st.body and isinstance(st.body[0], ast.Assign) and len(st.body) > 1:
                    c = st.body[0]
                    tnames = {n.id for tg in c.targets for n in ast.walk(tg) if isinstance(n, ast.Name)}
                    if not all(isinstance(n, (ast.Name, ast.Tuple, ast.Store, ast.Load)) for tg in c.targets
                               for n in ast.walk(tg)):
                        break
                    reads = {n.id for n in ast.walk(c.value) if isinstance(n, ast.Name)}
                    assigned_later = {n.id for s2 in st.body[1:] for n in ast.walk(s2) if isinstance(n, ast.Name) and
                                      isinstance(n.ctx, (ast.Store, ast.Del))}
                    if not pure(c.value) or reads & (loopvars | (assigned_later - tnames)) or tnames & loopvars or \
                            (reads - tnames) & assigned_later:
                        break
                    # a target that the statement also reads (n = f(n)) is invariant only if an earlier hoisted
                    # statement fixed its value at the top of every turn: then it was hoisted just before
                    if reads & tnames and not (out and isinstance(out[-1], ast.Assign) and
                                               reads & tnames <= {n.id for tg in out[-1].targets for n in ast.walk(tg)
                                                                  if isinstance(n, ast.Name)}):
                        break
                    out.append(st.body.pop(0))
            out.append(st)
        return out
    fn_node.body = do(fn_node.body)
    return fn_node


def _reshape(fn_node, twins=False):
    lists = set()
    for n in ast.walk(fn_node):
        if isinstance(n, ast.Assign) and len(n.targets) == 1 and isinstance(n.targets[0], ast.Name) and \
                (isinstance(n.value, ast.List) or isinstance(n.value, ast.Call) and _txt(n.value.func) == "list"):
            lists.add(n.targets[0].id)
    for n in ast.walk(fn_node):
        if isinstance(n, ast.Assign) and len(n.targets) == 1 and isinstance(n.targets[0], ast.Name) and \
                n.targets[0].id in lists and not (isinstance(n.value, ast.List) or isinstance(n.value, ast.Call) and
                                                  _txt(n.value.func) == "list"):
            lists.discard(n.targets[0].id)
    fn_node = _Shape(lists).visit(fn_node)
    if twins:       # only for the comparison of library / simulator twins (C15 R15.5)
        fn_node = _partitioned_tasks(fn_node)
        fn_node = _hoist_invariants(fn_node)

    def all_uses(t, skip):
        total = sum(1 for n in ast.walk(fn_node) if isinstance(n, ast.Name) and n.id == t)
        here = sum(1 for s in skip for n in ast.walk(s) if isinstance(n, ast.Name) and n.id == t)
        return total != here

    def blocks(node):
        for fld in ("body", "orelse", "finalbody"):
            b = getattr(node, fld, None)
            if isinstance(b, list) and b and isinstance(b[0], ast.stmt):
                yield fld, b
    todo = [fn_node]
    while todo:
        node = todo.pop()
        for fld, b in blocks(node):
            b = _default_then_overwrite(b)
            b = _adjacent_temporaries(b, all_uses)
            setattr(node, fld, b)
            todo.extend(b)
    return fn_node


class _Keywordify(ast.NodeTransformer):
    """self.m(a, p2=b) -> self.m(a, b) with the parameter order of m as the class resolves it, so that positional and
    keyword spellings of one call read alike"""

    def __init__(self, resolver):
        self.resolver = resolver

    def visit_Call(self, node):
        self.generic_visit(node)
        f = node.func
        if isinstance(f, ast.Attribute) and isinstance(f.value, ast.Name) and f.value.id == "self" and \
                not any(isinstance(a, ast.Starred) for a in node.args) and all(k.arg for k in node.keywords):
            params = self.resolver(f.attr)
            if params is not None and len(node.args) <= len(params):
                kws = [ast.keyword(arg=p, value=a) for p, a in zip(params, node.args)] + list(node.keywords)
                given = {k.arg for k in kws}
                # all arguments by position (parameter names differ between the twins) when they fill a prefix of
                # the parameter list
                if len(given) == len(kws) and given == set(params[:len(kws)]):
                    by = {k.arg: k.value for k in kws}
                    node.args = [by[p] for p in params[:len(kws)]]
                    node.keywords = []
        return node


def normal_form(fn_node, rename_calls=None, resolver=None) -> str:
    from .semantic import sem_norm
    node = copy.deepcopy(fn_node)
    node.decorator_list = []
    if resolver is not None:
        node = _Keywordify(resolver).visit(node)
    t = _Alpha(local_names(node), rename_calls or {})
    node = t.visit(node)
    node = _reshape(node, twins=True)
    node = sem_norm(node)
    # names in order of first appearance of the final form
    order = {}

    class Renum(ast.NodeTransformer):
        def visit_Name(self, n):
            if n.id.startswith("v") and n.id[1:].isdigit():
                n.id = order.setdefault(n.id, "w%d" % len(order))
            return n

        def visit_arg(self, n):
            if n.arg.startswith("v") and n.arg[1:].isdigit():
                n.arg = order.setdefault(n.arg, "w%d" % len(order))
            return n
    # variables bound by a comprehension are local to it: b0, b1, .. per comprehension
    class Bound(ast.NodeTransformer):
        def _comp(self, n):
            names = []
            for g in n.generators:
                for x in ast.walk(g.target):
                    if isinstance(x, ast.Name) and x.id not in names:
                        names.append(x.id)
            m = {nm: "b%d" % i for i, nm in enumerate(names)}
            for x in ast.walk(n):
                if isinstance(x, ast.Name) and x.id in m:
                    x.id = m[x.id]
            self.generic_visit(n)
            return n
        visit_ListComp = visit_SetComp = visit_DictComp = visit_GeneratorExp = _comp
    node = Bound().visit(node)
    node = Renum().visit(node)
    ast.fix_missing_locations(node)
    return ast.unparse(node)


def expand_local(fn_node, name, stop=()):
    """Expression bound to `name` (its last assignment), with single-assignment locals inlined."""
    defs = {}
    for n in ast.walk(fn_node):
        if isinstance(n, ast.Assign) and len(n.targets) == 1 and isinstance(n.targets[0], ast.Name):
            defs.setdefault(n.targets[0].id, []).append(n.value)

    def exp(e, depth=0):
        e = copy.deepcopy(e)

        class R(ast.NodeTransformer):
            def visit_Name(self, node):
                if isinstance(node.ctx, ast.Load) and node.id in defs and len(defs[node.id]) == 1 and \
                        node.id not in stop and depth < 6:
                    return exp(defs[node.id][0], depth + 1)
                return node
        return R().visit(e)
    if name not in defs:
        return None
    return exp(defs[name][-1])


def reshaped(fn_node):
    """a copy of the function in the statement shapes of normal_form (dict iteration over keys, list growth by
    extend, default-then-overwrite as if/else, adjacent temporaries substituted) and in semantic expression form,
    with the author's names kept"""
    from .semantic import sem_norm
    node = copy.deepcopy(fn_node)
    node = _reshape(node)
    node = sem_norm(node)
    ast.fix_missing_locations(node)
    return node
