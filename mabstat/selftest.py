# -*- coding: utf-8 -*-
"""Self-test of the checker, both ways (thorough tier): seeded mutants of the *current* sources must each turn
the targeted property to VIOLATED, behaviour-preserving variants must leave every obligation HOLDS.
Variants are produced in memory (statement located by its normalised text inside a named function) and handed to
the engine as source overrides; /repo is never modified."""

import ast
import concurrent.futures as cf
import os
import sys
import textwrap
import time

from .model import AnalysisError, Program, norm_stmt


class Variant:
    def __init__(self, vid, prop, module, func, old, new, rule=None, benign=False, why="", also=()):
        self.vid, self.prop, self.module, self.func = vid, prop, module, func
        self.old, self.new, self.rule, self.benign, self.why = old, new, rule, benign, why
        self.also = list(also)       # further (module, func, old, new) edits applied together with the first


def _norm(src):
    return " ".join(ast.unparse(ast.parse(textwrap.dedent(src))).split())


def _functions(tree):
    """(qualname, node) of every function of a module, classes nested at most once"""
    for n in tree.body:
        if isinstance(n, (ast.FunctionDef, ast.AsyncFunctionDef)):
            yield n.name, n
        elif isinstance(n, ast.ClassDef):
            for m in n.body:
                if isinstance(m, (ast.FunctionDef, ast.AsyncFunctionDef)):
                    yield n.name + "." + m.name, m
                elif isinstance(m, ast.ClassDef):
                    for k in m.body:
                        if isinstance(k, (ast.FunctionDef, ast.AsyncFunctionDef)):
                            yield n.name + "." + m.name + "." + k.name, k


def apply_edit(source, func, old, new, vid="?"):
    """Replaces the statements of `func` whose normalised text equals `old`; None when they are not there."""
    tree = ast.parse(source)
    target = None
    want = _norm(old)
    for qual, fnode in _functions(tree):
        if qual != func:
            continue
        # first run of consecutive statements whose normalised text equals `want`
        for n in ast.walk(fnode):
            for fld in ("body", "orelse", "finalbody"):
                blk = getattr(n, fld, None)
                if not isinstance(blk, list):
                    continue
                for i in range(len(blk)):
                    for j in range(i + 1, len(blk) + 1):
                        try:
                            txt = " ".join(" ".join(ast.unparse(s).split()) for s in blk[i:j])
                        except Exception:
                            continue
                        if txt == want and all(isinstance(s, ast.stmt) for s in blk[i:j]):
                            target = (blk[i], blk[j - 1])
                            break
                    if target:
                        break
                if target:
                    break
            if target:
                break
    if target is None:
        return None
    first, last = target
    lines = source.split("\n")
    indent = lines[first.lineno - 1][:first.col_offset]
    new = textwrap.dedent(new).strip("\n")
    if not new.strip():
        new = "pass"
    new_lines = [indent + ln if ln.strip() else ln for ln in new.split("\n")]
    out = lines[:first.lineno - 1] + new_lines + lines[last.end_lineno:]
    src = "\n".join(out)
    try:
        ast.parse(src)
    except SyntaxError as e:
        raise AnalysisError("self-test variant %s does not parse: %s" % (vid, e))
    return src


def apply_variant(prog: Program, v: Variant):
    """Returns {module: new source}, or None when a targeted construct no longer exists (not applicable)."""
    out = {}
    for module, func, old, new in [(v.module, v.func, v.old, v.new)] + v.also:
        m = prog.modules.get(module)
        if m is None:
            return None
        src = apply_edit(out.get(module, m.source), func, old, new, v.vid)
        if src is None:
            return None
        out[module] = src
    return out


def _run_one(args):
    vid, prop, overrides, root = args
    from .cli import run_property
    from .report import load_known, match_known
    try:
        _, ctx = run_property(prop, "quick", 0, root=root, overrides=overrides, write=False)
    except AnalysisError as e:
        return vid, "error", [str(e)]
    except Exception as e:        # pragma: no cover
        import traceback
        return vid, "error", [traceback.format_exc()[-800:]]
    known = load_known()
    viol = [o for o in ctx.obligations.values() if o.status == "VIOLATED" and not match_known(o, known)]
    und = [o for o in ctx.obligations.values() if o.status == "UNDECIDED"]
    floors = [f for f in ctx.floors if f[2] < f[3]]
    if und or floors:
        return vid, "undecided", ["%s %s %s" % (o.rule, o.where, o.detail) for o in und] + [str(f) for f in floors]
    return vid, ("violated" if viol else "clean"), ["%s %s %s.%s [%s]" % (o.rule, o.where, o.cls, o.method,
                                                                           o.construct) for o in viol], \
        [o.rule for o in viol]


def apply_unified_diff(sources, diff_text):
    """Applies a `git diff` of mabwiser/*.py to {module: source}; returns {module: new source} for the touched
    modules, or None when a hunk does not fit (the tree moved on)."""
    out = {}
    cur = None
    hunks = {}
    for line in diff_text.split("\n"):
        if line.startswith("+++ "):
            path = line[4:].strip()
            path = path[2:] if path.startswith("b/") else path
            cur = os.path.basename(path)[:-3] if path.endswith(".py") and "mabwiser/" in path else None
            if cur is not None:
                hunks[cur] = []
        elif line.startswith("@@") and cur is not None:
            hunks[cur].append([])
        elif cur is not None and hunks[cur] and (line[:1] in (" ", "+", "-") or line == ""):
            if line.startswith("--- ") or line.startswith("diff "):
                continue
            hunks[cur][-1].append(line)
        elif line.startswith("diff "):
            cur = None
    for mod, hs in hunks.items():
        if mod not in sources:
            return None
        lines = sources[mod].split("\n")
        pos = 0
        for h in hs:
            while h and h[-1] == "":
                h.pop()
            old = [ln[1:] for ln in h if ln[:1] in (" ", "-") or ln == ""]
            new = [ln[1:] for ln in h if ln[:1] in (" ", "+") or ln == ""]
            found = None
            for i in range(pos, len(lines) - len(old) + 1):
                if lines[i:i + len(old)] == old:
                    found = i
                    break
            if found is None:
                return None
            lines[found:found + len(old)] = new
            pos = found + len(new)
        out[mod] = "\n".join(lines)
    return out


def seeds_for(prop):
    """(directory name, patch text, expectation) of the independently seeded changes written against `prop`"""
    import json
    base = os.path.join(os.path.dirname(os.path.dirname(os.path.abspath(__file__))), "seeded")
    out = []
    if not os.path.isdir(base):
        return out
    for d in sorted(os.listdir(base)):
        mp, pp = os.path.join(base, d, "meta.json"), os.path.join(base, d, "patch.diff")
        if not (os.path.exists(mp) and os.path.exists(pp)):
            continue
        with open(mp) as f:
            meta = json.load(f)
        if prop not in meta.get("checked_by", [meta.get("property")]):
            continue
        with open(pp) as f:
            out.append((d, f.read(), meta.get("expect", "violation")))
    return out


def refactorings_for(prop):
    """(directory name, patch text, reason or None) of the stored refactorings; reason: why `prop` reports it"""
    import json
    base = os.path.join(os.path.dirname(os.path.dirname(os.path.abspath(__file__))), "refactorings")
    out = []
    if not os.path.isdir(base):
        return out
    expected = {}
    ep = os.path.join(base, "expected.json")
    if os.path.exists(ep):
        with open(ep) as f:
            expected = json.load(f)
    for d in sorted(os.listdir(base)):
        pp = os.path.join(base, d, "patch.diff")
        if not os.path.exists(pp):
            continue
        with open(pp) as f:
            out.append((d, f.read(), expected.get(d, {}).get(prop)))
    return out


def catalogue():
    from . import variants
    return variants.VARIANTS


def run(prop, seed=0, verbose=True, only=None):
    """Returns 0 when every applicable variant of `prop` behaves as expected, else 2 (checker is wrong)."""
    t0 = time.time()
    prog = Program.load()
    todo, na = [], []
    for v in catalogue():
        if v.prop != prop or (only and v.vid not in only):
            continue
        src = apply_variant(prog, v)
        if src is None:
            na.append(v.vid)
            continue
        todo.append((v, (v.vid, v.prop, src, prog.root)))
    if not only:
        # the independently seeded changes written against this property must be reported
        srcs = {m.name: m.source for m in prog.modules.values()}
        for d, patch, expect in seeds_for(prop):
            ov = apply_unified_diff(srcs, patch)
            v = Variant("seed:" + d, prop, "*", "*", "", "", rule=None, why="seeded change " + d)
            v.expect = expect
            if ov is None:
                na.append(v.vid)
                continue
            todo.append((v, (v.vid, prop, ov, prog.root)))
        # whole-package behaviour-preserving transformations: every check must stay silent on them
        from . import benign
        for tname in benign.TRANSFORMS:
            v = Variant("%s-global-%s" % (prop.lower(), tname), prop, "*", "*", "", "", benign=True,
                        why="whole package: " + tname)
            todo.append((v, (v.vid, prop, benign.overrides(prog, tname), prog.root)))
        # behaviour-preserving refactorings written by independent authors (refactorings/<id>/patch.diff): the check
        # must stay silent, except for the (refactoring, property) pairs listed in refactorings/expected.json with
        # the reason (the refactoring is not behaviour-preserving for that property, or a documented limitation)
        for d, patch, exp in refactorings_for(prop):
            ov = apply_unified_diff(srcs, patch)
            if ov is None:
                na.append("refactoring:" + d)
                continue
            if exp is None:
                v = Variant("refactoring:" + d, prop, "*", "*", "", "", benign=True,
                            why="behaviour-preserving refactoring " + d)
            elif exp.get("kind") == "true-positive":
                v = Variant("refactoring:" + d, prop, "*", "*", "", "", rule=None,
                            why="refactoring %s breaks the property: %s" % (d, exp.get("reason")))
                v.expect = "violation"
            else:
                na.append("refactoring:%s (known limitation: %s)" % (d, exp.get("reason")))
                continue
            todo.append((v, (v.vid, prop, ov, prog.root)))
    results = {}
    if todo:
        workers = min(16, len(todo))
        with cf.ProcessPoolExecutor(max_workers=workers) as ex:
            for res in ex.map(_run_one, [a for _, a in todo]):
                results[res[0]] = res
    bad = []
    killed = clean_benign = 0
    for v, _ in todo:
        res = results[v.vid]
        status = res[1]
        if v.benign:
            if status == "clean":
                clean_benign += 1
            else:
                bad.append("benign variant %s raised %s: %s" % (v.vid, status, res[2][:3]))
        else:
            rules = res[3] if len(res) > 3 else []
            if getattr(v, "expect", "violation") == "analysis-error" and status in ("error", "undecided", "violated"):
                killed += 1
            elif status == "violated" and (v.rule is None or v.rule in rules):
                killed += 1
            else:
                bad.append("mutant %s (%s) not reported as expected: status=%s %s" % (v.vid, v.why, status,
                                                                                     res[2][:3]))
    run.last_summary = {"mutants_applicable": sum(1 for v, _ in todo if not v.benign), "mutants_detected": killed,
                        "benign_variants": sum(1 for v, _ in todo if v.benign), "benign_silent": clean_benign,
                        "not_applicable": na, "failures": bad, "wall_s": round(time.time() - t0, 2),
                        "variants": [{"id": v.vid, "kind": "benign" if v.benign else "mutant",
                                      "function": v.func, "why": v.why, "result": results[v.vid][1]}
                                     for v, _ in todo]}
    if verbose:
        print("%s self-test: %d mutants detected, %d benign variants silent, %d not applicable, %d failures; %.1fs"
              % (prop, killed, clean_benign, len(na), len(bad), time.time() - t0))
        for b in bad:
            print("ANALYSIS-ERROR property=%s self-test: %s" % (prop, b))
        if na:
            print("  not applicable (construct no longer present): %s" % ", ".join(na))
    return 2 if bad else 0
