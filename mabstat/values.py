# -*- coding: utf-8 -*-
"""Abstract values, abstract heap objects and trace events of the interpreter."""

import ast
import copy as _copy
from typing import Dict, Optional

NOCONST = ("<noconst>",)


class Val:
    """refs: oids of abstract objects this value may reference; locs: symbolic contents of heap locations
    (oid, steps) this value may alias; deps: data sources the value was computed from; const: known python
    constant; tags: misc markers; callee: callable descriptors when the value is a function/class/bound method."""
    __slots__ = ("refs", "locs", "deps", "const", "tags", "callee", "extra")

    def __init__(self, refs=frozenset(), locs=frozenset(), deps=frozenset(), const=NOCONST, tags=frozenset(),
                 callee=(), extra=None):
        self.refs = frozenset(refs)
        self.locs = frozenset(locs)
        self.deps = frozenset(deps)
        self.const = const
        self.tags = frozenset(tags)
        self.callee = tuple(callee)
        self.extra = extra      # structured info: ('tuple', [vals]) / ('enumerate', val) / ('zip', [vals]) / ...

    def with_(self, **kw):
        v = Val(self.refs, self.locs, self.deps, self.const, self.tags, self.callee, self.extra)
        for k, x in kw.items():
            setattr(v, k, x)
        return v

    def add_deps(self, deps):
        if not deps:
            return self
        return self.with_(deps=self.deps | frozenset(deps))

    def add_tags(self, *tags):
        return self.with_(tags=self.tags | frozenset(tags))

    @property
    def has_const(self):
        return self.const is not NOCONST

    def aliases(self):
        return bool(self.refs or self.locs)

    def __repr__(self):
        bits = []
        if self.refs:
            bits.append("refs=%s" % sorted(self.refs))
        if self.locs:
            bits.append("locs=%s" % sorted(self.locs, key=str))
        if self.has_const:
            bits.append("const=%r" % (self.const,))
        if self.tags:
            bits.append("tags=%s" % sorted(self.tags))
        if self.callee:
            bits.append("callee=%s" % (self.callee,))
        return "Val(%s)" % ", ".join(bits)


def join(a: Optional[Val], b: Optional[Val]) -> Optional[Val]:
    if a is None:
        return b
    if b is None:
        return a
    if a is b:
        return a
    const = a.const if (a.has_const and b.has_const and a.const == b.const and type(a.const) is type(b.const)) \
        else NOCONST
    callee = a.callee + tuple(c for c in b.callee if c not in a.callee)
    extra = a.extra if a.extra is not None and b.extra is not None and a.extra[0] == b.extra[0] else None
    if extra is not None and extra[0] == "tuple":
        ea, eb = a.extra[1], b.extra[1]
        extra = ("tuple", [join(x, y) for x, y in zip(ea, eb)]) if len(ea) == len(eb) else None
    elif extra is not None and a.extra != b.extra:
        extra = None
    tags = a.tags | b.tags
    an, bn = a.has_const and a.const is None, b.has_const and b.const is None
    if an != bn:
        tags = tags | {"maybe-none"}
    return Val(a.refs | b.refs, a.locs | b.locs, a.deps | b.deps, const, tags, callee, extra)


def join_all(vals) -> Val:
    out = None
    for v in vals:
        out = join(out, v)
    return out if out is not None else Val()


EMPTY = Val()


class Obj:
    __slots__ = ("oid", "cls", "region", "fields", "elem", "keys", "copy_of", "shallow", "site", "stamp", "epoch",
                 "owner", "label", "dictkeys", "mustkeys", "notin")

    def __init__(self, oid, cls, region, site=None, stamp=(), epoch=0, label=None):
        self.oid = oid
        self.cls = cls              # program class name | 'dict'|'list'|'tuple'|'set' | 'ext:...' | None
        self.region = region        # 'bandit' | 'fresh' | 'caller' | 'global'
        self.fields: Dict[str, Val] = {}
        self.elem: Optional[Val] = None
        self.keys: Optional[Val] = None
        self.copy_of = None
        self.shallow = False
        self.site = site
        self.stamp = stamp
        self.epoch = epoch
        self.owner = None           # (parent oid, field) recorded at first store into a field
        self.label = label
        self.dictkeys = None        # for dict displays with constant keys: {const: Val}
        self.mustkeys = {}          # constant keys that are definitely present (assigned on every path): key -> Val
        self.notin = frozenset()    # lists of distinct values: values (named by their parameter) just removed

    def clone_shell(self):
        o = Obj(self.oid, self.cls, self.region, self.site, self.stamp, self.epoch, self.label)
        o.fields = dict(self.fields)
        o.elem = self.elem
        o.keys = self.keys
        o.copy_of = self.copy_of
        o.shallow = self.shallow
        o.owner = self.owner
        o.dictkeys = dict(self.dictkeys) if self.dictkeys is not None else None
        o.mustkeys = dict(self.mustkeys)
        o.notin = self.notin
        return o

    def __repr__(self):
        return "<Obj %d %s %s%s>" % (self.oid, self.cls, self.region, " " + self.label if self.label else "")


class Heap:
    """Copy-on-write: copy() shares the Obj records; a heap must call mut(oid) before changing one."""

    def __init__(self):
        self.objs: Dict[int, Obj] = {}
        self.owned = set()

    def copy(self):
        h = Heap()
        h.objs = dict(self.objs)
        self.owned = set()          # both sides now share every record
        return h

    def add(self, o: Obj):
        self.objs[o.oid] = o
        self.owned.add(o.oid)

    def mut(self, oid) -> Obj:
        o = self.objs[oid]
        if oid not in self.owned:
            o = o.clone_shell()
            self.objs[oid] = o
            self.owned.add(oid)
        return o

    def join_from(self, other: "Heap"):
        """self := self JOIN other (field-wise union; a field missing on one side stays may-unknown)."""
        for oid, o2 in other.objs.items():
            o1 = self.objs.get(oid)
            if o1 is None:
                self.objs[oid] = o2
                self.owned.discard(oid)
                other.owned.discard(oid)
                continue
            if o1 is o2:
                continue
            o1 = self.mut(oid)
            for f in set(o1.fields) | set(o2.fields):
                v1, v2 = o1.fields.get(f), o2.fields.get(f)
                if v1 is None or v2 is None:
                    # unknown on one side: keep what is known and mark it as possibly-other
                    o1.fields[f] = (v1 or v2).add_tags("maybe-unset")
                else:
                    o1.fields[f] = join(v1, v2)
            o1.elem = join(o1.elem, o2.elem)
            o1.keys = join(o1.keys, o2.keys)
            o1.mustkeys = {k: join(v, o2.mustkeys[k]) for k, v in o1.mustkeys.items() if k in o2.mustkeys}
            o1.notin = o1.notin & o2.notin
            if o1.dictkeys is not None and o2.dictkeys is not None:
                o1.dictkeys = {k: join(o1.dictkeys.get(k), o2.dictkeys.get(k))
                               for k in set(o1.dictkeys) | set(o2.dictkeys)}
            else:
                o1.dictkeys = None


# ------------------------------------------------------------------------------------------------ trace events
class Ev:
    """Trace node.  kind in: seq, if, for, while, call, dispatch, store, load, ext, draw, return, raise, try, alloc,
    unresolved.  Every node records the function it textually occurs in (fn), the ast node, the guard stack and
    the loop stack at that point."""
    __slots__ = ("kind", "fn", "node", "guards", "loops", "a", "children", "stack")

    def __init__(self, kind, fn=None, node=None, guards=(), loops=(), stack=(), **a):
        self.kind = kind
        self.fn = fn
        self.node = node
        self.guards = guards
        self.loops = loops
        self.stack = stack
        self.a = a
        self.children = []

    def __getattr__(self, name):
        a = object.__getattribute__(self, "a")
        if name in a:
            return a[name]
        raise AttributeError(name)

    def walk(self):
        yield self
        for blk in self.blocks():
            for c in blk:
                yield from c.walk()

    def blocks(self):
        if self.kind == "if":
            return [self.a["test_evs"], self.a["then"], self.a["orelse"]]
        if self.kind in ("for", "while"):
            return [self.a["head"], self.a["body"]]
        if self.kind == "try":
            return [self.a["body"]] + list(self.a["handlers"]) + [self.a["final"]]
        if self.kind == "dispatch":
            return [self.a["alts"]]
        return [self.children]

    def __repr__(self):
        return "<Ev %s %s>" % (self.kind, ast.unparse(self.node)[:60] if self.node is not None else "")


class Target:
    """A written (or read) heap location in normal form: object + field + steps below the field."""
    __slots__ = ("oid", "field", "sub", "region", "ocls", "via")

    def __init__(self, oid, field, sub, region, ocls, via):
        self.oid = oid
        self.field = field
        self.sub = tuple(sub)
        self.region = region
        self.ocls = ocls
        self.via = via      # 'ref' | 'loc'

    def key(self):
        return (self.oid, self.field, self.sub)

    def __repr__(self):
        return "T(%s#%s.%s%s %s)" % (self.ocls, self.oid, self.field, "".join(self.sub), self.region)


class Guard:
    __slots__ = ("node", "polarity", "val", "fn")

    def __init__(self, node, polarity, val, fn):
        self.node = node
        self.polarity = polarity
        self.val = val
        self.fn = fn

    def __repr__(self):
        return "%s(%s)" % ("" if self.polarity else "not ", ast.unparse(self.node))
