# -*- coding: utf-8 -*-
"""Call evaluation: inlining of package functions/methods/constructors, externals, joblib task groups."""

import ast

from . import externals as X
from .model import AnalysisError, ClassInfo, FunctionInfo
from .values import EMPTY, NOCONST, Guard, Obj, Val, join, join_all
from .interp import Frame, CONTAINER_CLS, MAX_DEPTH

def bump_obs(deps):
    """A reward passed through the binarizer has been converted once more: ('obs', class, k) -> k + 1."""
    out = set()
    for d in deps:
        if isinstance(d, tuple) and len(d) == 3 and d[0] == "obs":
            out.add(("obs", d[1], min(d[2] + 1, 4)))
        else:
            out.add(d)
    return frozenset(out)


def value_key(v):
    """a name for the value of a parameter that is passed along unchanged (used for must-not-contain facts)"""
    if v.refs or v.locs or v.has_const or not v.deps:
        return None
    ps = [d for d in v.deps if isinstance(d, tuple) and len(d) == 2 and d[0] == "param"]
    if len(ps) != 1 or len(v.deps) != 1:
        return None
    return ps[0]


def strip_obs(deps):
    return frozenset(d for d in deps if not (isinstance(d, tuple) and len(d) == 3 and d[0] == "obs"))


def keys_deps(deps):
    """A value computed from the *keys* of a container depends on its key set, not on the values stored in it."""
    out = set()
    for d in deps:
        if isinstance(d, tuple) and len(d) == 2 and isinstance(d[0], int):
            out.add(("keysof",) + d)
        else:
            out.add(d)
    return frozenset(out)


PARALLEL_NAMES = {"joblib.Parallel", "joblib.parallel.Parallel"}
DELAYED_NAMES = {"joblib.delayed", "joblib.parallel.delayed"}
DEEPCOPY_NAMES = {"copy.deepcopy"}


class CallMixin:

    # ------------------------------------------------------------------------------------------ entry
    def eval_call(self, node: ast.Call) -> Val:
        # joblib idiom  Parallel(...)(delayed(f)(args) for x in it)
        if isinstance(node.func, ast.Call):
            inner = self.eval(node.func.func) if not isinstance(node.func.func, ast.Call) else None
            if inner is not None and any(c[0] == "ext" and c[1] in PARALLEL_NAMES for c in inner.callee):
                return self.eval_parallel(node)
        # super()
        if isinstance(node.func, ast.Name) and node.func.id == "super" and not node.args:
            fr = self.frame
            if fr.fn.cls is None or "self" not in fr.env:
                raise AnalysisError("super() outside a method at %s" % self.prog.loc(fr.fn, node))
            return Val(callee=[("super", fr.fn.cls, fr.env["self"], fr.recv_cls)])
        fv = self.eval(node.func)
        args = []
        for a in node.args:
            v = self.eval(a.value if isinstance(a, ast.Starred) else a)
            if isinstance(a, ast.Starred):
                v = self.read_elem(v).add_tags("starred")
            args.append(v)
        kwargs = {}
        starkw = []
        for k in node.keywords:
            v = self.eval(k.value)
            if k.arg is None:
                starkw.append(v)
            else:
                kwargs[k.arg] = v
        return self.apply(fv, args, kwargs, starkw, node)

    def apply(self, fv: Val, args, kwargs, starkw, node) -> Val:
        callees = list(fv.callee)
        if not callees:
            # calling an unknown value (e.g. a user supplied binarizer / evaluator held in a field)
            deps = fv.deps.union(*[a.deps for a in args], *[v.deps for v in kwargs.values()]) if args or kwargs \
                else fv.deps
            self.stats["ext_calls"] += 1
            res = Val(deps=deps, tags=["opaque-call"])
            self.emit("ext", node, name="<value>", recv=None, fval=fv, args=args, kwargs=kwargs, starkw=starkw,
                      result=res, spec={"ret": "fresh", "opaque": True})
            return res
        # a data attribute that is also callable-looking: prefer real methods when present
        real = [c for c in callees if c[0] != "extmeth"]
        if real and len(real) != len(callees):
            ext = [c for c in callees if c[0] == "extmeth" and (c[1].locs or any(
                self.obj(r).cls not in self.prog.classes for r in c[1].refs))]
            callees = real + ext
        if len(callees) == 1:
            return self.apply_one(callees[0], fv, args, kwargs, starkw, node)
        # dispatch over alternatives: each alternative starts from the same state, results are joined
        ev = self.emit("dispatch", node, alts=[])
        saved_out = self.out
        pre_heap, pre_env = self.heap.copy(), dict(self.frame.env)
        res = None
        post_heap = None
        for c in callees:
            self.heap = pre_heap.copy()
            self.frame.env = dict(pre_env)
            self.out = ev.a["alts"]
            r = self.apply_one(c, fv, args, kwargs, starkw, node)
            res = join(res, r)
            if post_heap is None:
                post_heap = self.heap
            else:
                post_heap.join_from(self.heap)
        self.heap = post_heap
        self.out = saved_out
        return res if res is not None else Val()

    def apply_one(self, c, fv, args, kwargs, starkw, node) -> Val:
        kind = c[0]
        if kind == "class":
            return self.construct(c[1], args, kwargs, starkw, node)
        if kind == "func":
            f = c[1]
            if f.cls is not None and not f.is_static and "via-class" in fv.tags:
                if not args:
                    raise AnalysisError("unbound method call without receiver at %s" % self.prog.loc(self.frame.fn,
                                                                                                    node))
                recv = args[0]
                rc = self._single_class(recv) or f.cls
                return self.call_function(f, recv, rc, args[1:], kwargs, node)
            return self.call_function(f, None, f.cls, args, kwargs, node)
        if kind == "bound":
            _, f, recv, rc = c
            if f.is_static:
                return self.call_function(f, None, rc, args, kwargs, node)
            return self.call_function(f, recv, rc, args, kwargs, node)
        if kind == "ext":
            return self.call_external(c[1], None, args, kwargs, starkw, node)
        if kind == "builtin":
            return self.call_builtin(c[1], args, kwargs, node)
        if kind == "extmeth":
            return self.call_ext_method(c[1], c[2], args, kwargs, starkw, node)
        if kind == "delayed":
            return self.apply(c[1], args, kwargs, starkw, node)
        if kind == "lambda":
            _, lam, fr = c
            env = dict(fr.env)
            for p, a in zip([x.arg for x in lam.args.args], args):
                env[p] = a
            self.frames.append(Frame(fr.fn, fr.recv_cls, env))
            try:
                return self.eval(lam.body)
            finally:
                self.frames.pop()
        if kind == "super":
            raise AnalysisError("super object called at %s" % self.prog.loc(self.frame.fn, node))
        if kind == "partial":
            _, inner, pargs, pkw = c
            kw = dict(pkw)
            kw.update(kwargs)
            return self.apply(inner, list(pargs) + list(args), kw, starkw, node)
        raise AnalysisError("unknown callee kind %s" % kind)

    def _single_class(self, v: Val):
        cs = {self.obj(r).cls for r in v.refs}
        if len(cs) == 1:
            return self.prog.classes.get(cs.pop())
        return None

    # ------------------------------------------------------------------------------------------ inlining
    def call_function(self, f: FunctionInfo, recv, recv_cls, args, kwargs, node) -> Val:
        if len(self.callstack) > MAX_DEPTH or any(cf is f for cf, _ in self.callstack[-6:] if False):
            raise AnalysisError("call depth exceeded at %s" % self.prog.loc(self.frame.fn, node))
        if sum(1 for cf, _ in self.callstack if cf is f) >= 2:
            self.unresolved.append((self.frame.fn, node, "recursion cut at " + f.qualname))
            return Val(tags=["recursion"])
        a = f.node.args
        if a.vararg or a.kwarg:
            raise AnalysisError("*args/**kwargs in %s not supported" % f.qualname)
        params = [x.arg for x in a.posonlyargs + a.args]
        env = {}
        pos = list(args)
        if recv is not None and params:
            env[params[0]] = recv
            params = params[1:]
        elif f.cls is not None and not f.is_static and params and recv is None:
            # called as plain function through the class with explicit self already consumed elsewhere
            pass
        if len(pos) > len(params):
            raise AnalysisError("too many positional arguments for %s at %s" % (f.qualname,
                                                                               self.prog.loc(self.frame.fn, node)))
        for p, v in zip(params, pos):
            env[p] = v
        for k, v in kwargs.items():
            if k not in params and k not in [x.arg for x in a.kwonlyargs]:
                raise AnalysisError("unexpected keyword %s for %s at %s" % (k, f.qualname,
                                                                          self.prog.loc(self.frame.fn, node)))
            env[k] = v
        # defaults
        defaults = dict(zip([x.arg for x in (a.posonlyargs + a.args)][-len(a.defaults):] if a.defaults else [],
                            a.defaults))
        for x, d in zip(a.kwonlyargs, a.kw_defaults):
            if d is not None:
                defaults[x.arg] = d
        for p in params + [x.arg for x in a.kwonlyargs]:
            if p not in env:
                if p in defaults:
                    env[p] = self.eval_default(f, p, defaults[p])
                else:
                    raise AnalysisError("missing argument %s for %s at %s" % (p, f.qualname,
                                                                            self.prog.loc(self.frame.fn, node)))
        self.stats["calls_inlined"] += 1
        self.functions_seen.add(f)
        ev = self.emit("call", node, callee=f, recv=recv, recv_cls=recv_cls, args=dict(env))
        saved_out, saved_stack, saved_narrow, saved_guards = self.out, self.callstack, self.narrow, self.guards
        self.out = ev.children
        self.callstack = self.callstack + ((f, node),)
        self.narrow = dict(self.narrow)
        fr = Frame(f, recv_cls if recv is not None or f.is_static else f.cls, env)
        self.frames.append(fr)
        try:
            falls = self.exec_block(f.node.body)
        finally:
            self.frames.pop()
            self.out, self.callstack, self.narrow = saved_out, saved_stack, saved_narrow
            self.guards = saved_guards
        # state after the call = join over all return points (paths that raise do not continue)
        states = list(fr.ret_heaps)
        if falls:
            states.append(self.heap)
            if fr.ret is not None:
                fr.ret = join(fr.ret, Val(const=None))
        if states:
            h = states[0]
            for h2 in states[1:]:
                h.join_from(h2)
            self.heap = h
        else:
            ev.a["never_returns"] = True
        ret = fr.ret if fr.ret is not None else Val(const=None)
        ev.a["ret"] = ret
        return ret

    def eval_default(self, f: FunctionInfo, pname, expr) -> Val:
        k = ("<default>", id(expr))
        if k not in self.class_attr_objs:
            saved = (self.out, self.guards, self.loops, self.callstack)
            self.out, self.guards, self.loops, self.callstack = [], (), (), ()
            try:
                self.class_attr_objs[k] = self.eval_in_module(expr, f.module, "global",
                                                               "default %s of %s" % (pname, f.qualname))
            finally:
                self.out, self.guards, self.loops, self.callstack = saved
        return self.class_attr_objs[k]

    def construct(self, ci: ClassInfo, args, kwargs, starkw, node) -> Val:
        if ci.is_namedtuple:
            o = self.alloc(ci.name, self.fresh_region(), node, label=ci.name)
            names = ci.field_order
            for n, v in zip(names, args):
                o.fields[n] = v
            for k, v in kwargs.items():
                o.fields[k] = v
            for n in names:
                if n not in o.fields and n in ci.class_attrs:
                    o.fields[n] = self.class_attr_val(ci, n, ci.class_attrs[n])
            return Val(refs=[o.oid])
        init = ci.resolve("__init__")
        o = self.alloc(ci.name, self.fresh_region(), node, label=ci.name)
        self.emit("alloc", node, obj=o.oid, cls=ci.name)
        recv = Val(refs=[o.oid])
        if init is not None:
            self.call_function(init, recv, ci, args, kwargs, node)
        elif ci.external_bases and any(b not in ("object", "ABCMeta") for b in ci.external_bases):
            pass
        return recv

    # ------------------------------------------------------------------------------------------ joblib
    def eval_parallel(self, node: ast.Call) -> Val:
        pcall = node.func
        pkw = {k.arg: self.eval(k.value) for k in pcall.keywords if k.arg}
        if len(node.args) != 1 or not isinstance(node.args[0], (ast.GeneratorExp, ast.ListComp)):
            raise AnalysisError("unrecognised Parallel(...) argument at %s" % self.prog.loc(self.frame.fn, node))
        gen = node.args[0]
        if len(gen.generators) != 1:
            raise AnalysisError("nested Parallel generator at %s" % self.prog.loc(self.frame.fn, node))
        g = gen.generators[0]
        it = self.eval(g.iter)
        lid = self._new_loop_id()
        ev = self.emit("for", node, head=[], body=[], target=g.target, iter=it, iter_node=g.iter, loop_id=lid,
                       parallel={k: (v.const if v.has_const else None) for k, v in pkw.items()},
                       parallel_vals=pkw, comp=True, task_call=gen.elt)
        saved_out, saved_loops, saved_env = self.out, self.loops, dict(self.frame.env)
        self.out = ev.a["body"]
        self.loops = self.loops + ((lid, 1),)
        self.bind_loop_target(g.target, it, g.iter)
        res = self.eval(gen.elt)
        self.out, self.loops = saved_out, saved_loops
        self.frame.env = saved_env
        o = self.new_container("list", node, elem=res)
        return Val(refs=[o.oid], deps=res.deps | it.deps, tags=["parallel-result"])

    # ------------------------------------------------------------------------------------------ externals
    def _all_deps(self, args, kwargs, starkw=()):
        d = frozenset()
        for a in list(args) + list(kwargs.values()) + list(starkw):
            d |= a.deps
        return d

    def call_external(self, q, recv, args, kwargs, starkw, node) -> Val:
        self.stats["ext_calls"] += 1
        deps = self._all_deps(args, kwargs, starkw)
        if q in DEEPCOPY_NAMES:
            res = self.deep_clone(args[0], node)
            self.emit("ext", node, name=q, recv=None, args=args, kwargs=kwargs, starkw=starkw, result=res,
                      spec={"ret": "deepcopy"})
            return res
        if q in DELAYED_NAMES:
            return Val(callee=[("delayed", args[0])])
        if q == "functools.partial":
            res = Val(callee=[("partial", args[0], tuple(args[1:]), dict(kwargs))], deps=deps, tags=["partial"])
            self.emit("ext", node, name=q, recv=None, args=args, kwargs=kwargs, starkw=starkw, result=res,
                      spec=X.FUNCS[q])
            return res
        if q.startswith("typing."):
            return Val()
        spec = X.FUNCS.get(q)
        if spec is None:
            # method of an external class object such as dict.fromkeys / chain.from_iterable
            tail = q.rsplit(".", 1)[-1]
            head = q.rsplit(".", 1)[0]
            if head in ("dict", "itertools.chain") and tail in X.METHODS:
                spec = X.METHODS[tail]
            else:
                self.unclassified[q] = self.unclassified.get(q, 0) + 1
                spec = {"ret": "fresh", "unclassified": True}
        res = self._ext_result(spec, q, None, args, kwargs, deps, node)
        self._ext_mutations(spec, q, None, args, kwargs, node)
        self.emit("ext", node, name=q, recv=None, args=args, kwargs=kwargs, starkw=starkw, result=res, spec=spec)
        return res

    def call_builtin(self, name, args, kwargs, node) -> Val:
        spec = X.BUILTINS[name]
        deps = self._all_deps(args, kwargs)
        self.stats["ext_calls"] += 1
        if name == "isinstance" and len(args) == 2:
            classes = self._classes_of(args[1])
            if classes is not None:
                r = self.static_isinstance(args[0], classes)
                if r is not None:
                    return Val(const=r, deps=deps)
            return Val(deps=deps)
        if name == "getattr" and len(args) in (2, 3) and not kwargs and args[1].has_const and \
                isinstance(args[1].const, str):
            # getattr(x, "name"[, default]) with a literal name is an ordinary attribute read (with a fallback)
            base, attr = args[0], args[1].const
            default = args[2] if len(args) == 3 else None

            def has(r):
                o = self.obj(r)
                pc = self.prog.classes.get(o.cls) if o.cls else None
                if attr in o.fields:
                    return True
                if pc is None:
                    return None
                if pc.resolve(attr) is not None:
                    raise AnalysisError("getattr of method %s.%s at %s is not supported" %
                                        (pc.name, attr, self.prog.loc(self.frame.fn, node)))
                return True if (attr in self.known_attrs(pc) or pc.class_attr(attr)[1] is not None) else False
            status = {r: has(r) for r in base.refs}
            if default is None:
                return self.read_field(base, attr, node).add_deps(deps)
            vals = []
            have = frozenset(r for r, h in status.items() if h is not False)
            if have or base.locs:
                vals.append(self.read_field(base.with_(refs=have), attr, node, quiet=True))
            if not base.refs or any(h is not True for h in status.values()) or base.locs:
                vals.append(default)
            return join_all(vals).add_deps(deps)
        if name == "len" and args:
            a = args[0]
            if a.extra is not None and a.extra[0] == "tuple":
                return Val(const=len(a.extra[1]), deps=deps)
            # the cardinality of a container is a dependence of its own kind (not on keys, not on contents)
            return Val(deps=strip_obs(deps) | frozenset(("card", r) for r in a.refs), tags=["len"])
        if name == "callable" and args and args[0].has_const and args[0].const is None:
            return Val(const=False, deps=deps)
        if name == "bool" and args and args[0].has_const:
            return Val(const=bool(args[0].const), deps=deps)
        res = self._ext_result(spec, name, None, args, kwargs, deps, node)
        self.emit("ext", node, name=name, recv=None, args=args, kwargs=kwargs, starkw=[], result=res, spec=spec)
        return res

    def call_ext_method(self, recv: Val, name, args, kwargs, starkw, node) -> Val:
        self.stats["ext_calls"] += 1
        deps = self._all_deps(args, kwargs, starkw) | recv.deps
        spec = X.METHODS.get(name)
        if spec is None:
            fval = self.read_field(recv, name, quiet=True) if recv.aliases() else None
            if fval is not None and ({"callable", "forgotten"} & fval.tags or fval.locs):
                # calling a function object held in a field (user supplied binarizer, evaluator, scaler ...)
                rdeps = deps | fval.deps
                if name == "binarizer":
                    rdeps = bump_obs(rdeps)
                res = Val(deps=rdeps, tags=["opaque-call"])
                self.emit("ext", node, name="<value>." + name, recv=recv, fval=fval, args=args, kwargs=kwargs,
                          starkw=starkw, result=res, spec={"ret": "fresh", "opaque": True})
                return res
            self.unclassified["." + name] = self.unclassified.get("." + name, 0) + 1
            spec = {"ret": "fresh", "unclassified": True}
        # dict.get(const) on a constant-key dict display (e.g. _Linear.factory.get(regression))
        if name == "get" and args and args[0].has_const and len(recv.refs) == 1 and not recv.locs:
            o = self.obj(next(iter(recv.refs)))
            if o.dictkeys is not None and args[0].const in o.dictkeys:
                return o.dictkeys[args[0].const]
        res = self._ext_result(spec, "." + name, recv, args, kwargs, deps, node)
        self._ext_mutations(spec, "." + name, recv, args, kwargs, node)
        if name in ("transform", "fit_transform", "inverse_transform") and args and \
                self._inplace_estimator(recv, "copy"):
            # sklearn transformers built with copy=False work on their operand in place and return it
            self._mut_store(args[0], "mutcall:%s(copy=False)" % name, EMPTY, node)
            res = Val(refs=args[0].refs, locs=args[0].locs, deps=res.deps, tags=res.tags)
        if name in ("fit", "fit_predict", "fit_transform") and args and self._inplace_estimator(recv, "copy_x"):
            # KMeans(copy_x=False) centres the data it is given in place (and adds the mean back, with rounding)
            self._mut_store(args[0], "mutcall:%s(copy_x=False)" % name, EMPTY, node)
        is_draw = spec.get("draw") and any(self.obj(r).cls == "ext:numpy.random.Generator" for r in recv.refs)
        if spec.get("draw") and not is_draw and recv.locs and not recv.refs:
            is_draw = any(steps and steps[-1] == ".rng" for _, steps in recv.locs)
        if is_draw:
            res = res.add_tags("random").add_deps([("draw", r) for r in recv.refs] or [("draw", None)])
            self.emit("draw", node, gen=recv, method=name, args=args, kwargs=kwargs, result=res)
        self.emit("ext", node, name="." + name, recv=recv, args=args, kwargs=kwargs, starkw=starkw, result=res,
                  spec=spec)
        return res

    def _inplace_estimator(self, recv: Val, kw="copy") -> bool:
        for r in recv.refs:
            o = self.obj(r)
            if not (o.cls or "").startswith("ext:sklearn."):
                continue
            ck = o.fields.get("<ctor-kwargs>")
            if ck is None or ck.extra is None:
                continue
            cp = ck.extra[1].get(kw)
            if cp is not None and not (cp.has_const and cp.const is True):
                return True
        return False

    def is_label_collection(self, v: Val) -> bool:
        if "labels" in v.tags:
            return True
        for r in v.refs:
            o = self.obj(r)
            if o.cls == "dict":
                if o.keys is not None and "label" in o.keys.tags:
                    return True
            elif o.elem is not None and "label" in o.elem.tags:
                return True
        return False

    def _ext_result(self, spec, q, recv, args, kwargs, deps, node) -> Val:
        res = self._ext_result0(spec, q, recv, args, kwargs, deps, node)
        if spec.get("labelflow"):
            first = recv if recv is not None else (args[0] if args else None)
            if first is not None and self.is_label_collection(first):
                res = res.add_tags("labels")
                for r in res.refs:
                    o = self.obj(r)
                    if o.region == "fresh" and o.cls in ("list", "set", "tuple") and (
                            o.elem is None or "label" not in o.elem.tags):
                        mo = self.mobj(r)
                        mo.elem = (mo.elem or Val()).add_tags("label")
        return res

    def _ext_result0(self, spec, q, recv, args, kwargs, deps, node) -> Val:
        ret = spec.get("ret", "fresh")
        first = recv if recv is not None else (args[0] if args else None)
        tags = set()
        if spec.get("tag"):
            tags.add(spec["tag"])
        if spec.get("procdep"):
            tags.add("procdep")
            deps = deps | {("procdep", q)}
        if ret == "fresh":
            if spec.get("cls"):
                o = self.alloc(spec["cls"], self.fresh_region(), node, label=q)
                o.fields["<ctor-kwargs>"] = Val(extra=("kwargs", dict(kwargs), list(args)))
                if spec["cls"] == "dict" and q.endswith("fromkeys") and args:
                    o.keys = self.read_elem(args[0])
                    o.elem = args[1] if len(args) > 1 else Val(const=None)
                v = Val(refs=[o.oid], deps=deps, tags=tags)
                if q.endswith("fromkeys") and args:
                    v = v.with_(extra=("fromkeys", args[0], args[1] if len(args) > 1 else Val(const=None)))
                return v
            return Val(deps=deps, tags=tags)
        if ret == "alias0":
            if first is None:
                return Val(deps=deps)
            return Val(refs=first.refs, locs=first.locs, deps=deps, tags=tags | (first.tags & {"indexarr", "mask"}))
        if ret == "elem0":
            if first is None:
                return Val(deps=deps)
            if first.extra is not None and first.extra[0] == "tuple":
                return join_all(first.extra[1]).add_deps(deps)
            if recv is None and first.refs and not first.locs and all(self.obj(r).cls == "dict" for r in first.refs):
                # min(d) / max(d) / next(iter(d)) over a dict yield one of its keys
                ks = [self.obj(r).keys for r in first.refs if self.obj(r).keys is not None]
                return (join_all(ks) if ks else Val()).add_deps(keys_deps(deps)).add_tags("key")
            v = self.read_elem(first, args[0] if (recv is not None and args) else None)
            if recv is not None and len(args) > 1:
                v = join(v, args[1])
            return v.add_deps(deps)
        if ret in ("shallow", "shallow_flat"):
            if first is None:
                o = self.new_container(spec.get("cls"), node)
                return Val(refs=[o.oid], deps=deps)
            src = first
            if ret == "shallow_flat":
                src = self.read_elem(first)
            if spec.get("cls") == "dict" and recv is None:
                pair = self._pairs_of(src)
                if pair is not None:
                    o = self.new_container("dict", node, elem=pair[1], keys=pair[0])
                    self.adopt(o.oid, "[*]", pair[1], force=True)
                    return Val(refs=[o.oid], deps=deps, tags=tags)
            if not src.aliases():
                o = self.new_container(spec.get("cls"), node, elem=Val(deps=src.deps))
                return Val(refs=[o.oid], deps=deps, tags=tags)
            v = self.shallow_copy(src, node, spec.get("cls"))
            return v.add_deps(deps)
        if ret == "keys0":
            ks = []
            for r in first.refs:
                if self.obj(r).keys is not None:
                    ks.append(self.obj(r).keys)
            kdeps = keys_deps(deps)
            o = self.new_container("list", node, elem=join_all(ks).with_(deps=kdeps) if ks else Val(deps=kdeps))
            return Val(refs=[o.oid], deps=kdeps, tags=["keys"], extra=("keysof", first))
        if ret == "values0":
            vals = self.read_elem(first) if first.aliases() else Val(deps=first.deps)
            vals = vals.with_(tags=vals.tags - {"label", "labels", "key"})
            o = self.new_container("list", node, elem=vals)
            return Val(refs=[o.oid], deps=deps, tags=["values"])
        if ret == "items0":
            ks = [self.obj(r).keys for r in first.refs if self.obj(r).keys is not None]
            kv = join_all(ks).add_deps(deps) if ks else Val(deps=deps)
            return Val(deps=deps, extra=("items", kv, self.read_elem(first), first))
        if ret == "enumerate":
            return Val(deps=deps, extra=("enumerate", first))
        if ret == "zip":
            return Val(deps=deps, extra=("zip", list(args)))
        if ret == "dyn":
            raise AnalysisError("dynamic attribute access %s at %s makes effect summaries unsound" %
                                (q, self.prog.loc(self.frame.fn, node)))
        if ret == "super":
            raise AnalysisError("super(args) form not supported at %s" % self.prog.loc(self.frame.fn, node))
        return Val(deps=deps)

    def _pairs_of(self, src: Val):
        """(keys, values) when src is an iterable of 2-tuples: zip(a, b), a generator of (k, v), dict.items()."""
        ex = src.extra
        if ex is not None and ex[0] == "zip" and len(ex[1]) == 2:
            a, b = ex[1]
            if a.refs and not a.locs and all(self.obj(r).cls == "dict" for r in a.refs):
                # iterating a dictionary yields its keys
                ks = [self.obj(r).keys for r in a.refs if self.obj(r).keys is not None]
                ka = join_all(ks).add_deps(a.deps) if ks else Val(deps=a.deps)
            else:
                ka = self.read_elem(a) if a.aliases() else Val(deps=a.deps)
            return (ka, self.read_elem(b) if b.aliases() else Val(deps=b.deps, tags=b.tags & {"random"}))
        if ex is not None and ex[0] == "items":
            return ex[1], ex[2]
        if src.aliases():
            el = self.read_elem(src)
            for r in src.refs:
                ev = self.obj(r).elem
                if ev is not None and ev.extra is not None and ev.extra[0] == "tuple" and len(ev.extra[1]) == 2:
                    return ev.extra[1][0], ev.extra[1][1]
        return None

    def _ext_mutations(self, spec, q, recv, args, kwargs, node):
        muts = spec.get("mut", [])
        if "out" in kwargs:
            self._mut_store(kwargs["out"], q + "(out=)", EMPTY, node)
        for m in muts:
            target = recv if m == "recv" else (args[m] if isinstance(m, int) and m < len(args) else None)
            if target is None:
                continue
            stored = EMPTY
            kind = "mutcall:" + q.lstrip(".")
            sa = spec.get("store_args")
            if sa is True and args:
                stored = join_all(args)
            elif sa == "elems" and args:
                stored = join_all([self.read_elem(a) if a.aliases() else a for a in args])
                a0 = args[0]
                if q == ".update" and a0.extra is not None and a0.extra[0] == "fromkeys":
                    kv = a0.extra[1]
                    if (kv.refs & target.refs) or (kv.locs & target.locs):
                        kind = "reset-all"
                        stored = a0.extra[2]
            self._mut_store(target, kind, stored, node, refit=spec.get("refit", False))
            # the arm list holds distinct labels (MAB._validate_mab_args, add_arm): after arms.remove(x) the value x
            # is not in that list until something is added to it
            if q == ".remove" and len(target.refs) == 1 and not target.locs and args:
                k = value_key(args[0])
                oid = next(iter(target.refs))
                if k is not None and self.is_label_collection(target):
                    self.mobj(oid).notin = self.obj(oid).notin | {k}

    def _mut_store(self, target: Val, kind, stored: Val, node, refit=False):
        targets = self.store_targets(target, "[*]")
        for oid in target.refs:
            o = self.mobj(oid)
            if kind != "mutcall:remove":
                o.notin = frozenset()
            if kind == "reset-all":
                o.elem = stored
            elif stored is not EMPTY:
                o.elem = join(o.elem, stored)
                self.adopt(oid, "[*]", stored)
            o.dictkeys = None
            if kind in ("mutcall:pop", "mutcall:clear", "mutcall:popitem", "del"):
                o.mustkeys = {}
        if not targets:
            return
        self.stats["stores"] += 1
        self.emit("store", node, targets=targets, skind=kind, value=stored, base=target, step="[*]", refit=refit)
